"""C03 - all field-arithmetic back ends compute the same function (DESIGN.md section 5, C03).

Every back end's routine is proved equal to the same mathematical specification (engine/wordspec.py); results and
carry/borrow flags are unique under that specification, hence bit-identical across back ends.
Back ends decided here: x86-64 baseline asm, x86-64 BMI2/ADX asm (E-ASM over the assembled instruction stream),
portable C++ with 64-bit words and with 32-bit words (E-IR over clang's IR for -DDISABLE_ASM [-U__SIZEOF_INT128__]).
"""
import sys
import os
import glob
import random
sys.path.insert(0, os.path.dirname(os.path.dirname(os.path.abspath(__file__))))

from engine import build, eir, easm_x86, wordspec
from engine.framework import Check, Violation, Inconclusive
from engine.wordspec import Q, R384, QINV64

_APROG = None


def x86_prog():
    global _APROG
    if _APROG is None:
        d = build.workdir("asm_x86_c03")
        srcs = sorted(glob.glob(os.path.join(build.REPO, "src/core/arch/x86_64/*.s")))
        _APROG = easm_x86.AsmProgram(easm_x86.assemble(srcs, d))
    return _APROG


# ---- native replay ---------------------------------------------------------------------------------------------
def kernel_reference(kernel, a, b):
    """python big-integer reference: returns the string the driver prints"""
    k = kernel.replace("x86_", "").replace("bmi2_adx_", "")
    if k == "bigint_384_add":
        return "%096x %d" % ((a + b) % R384, (a + b) >> 384)
    if k == "bigint_384_subtract":
        return "%096x %d" % ((a - b) % R384, int(a < b))
    if k == "bigint_384_multiply2":
        return "%096x %d" % ((2 * a) % R384, (2 * a) >> 384)
    if k == "fpbase_384_add":
        return "%096x" % ((a + b) % Q)
    if k == "fpbase_384_subtract":
        return "%096x" % ((a - b) % Q)
    if k == "fpbase_384_multiply2":
        return "%096x" % ((2 * a) % Q)
    if k == "fpbase_384_negate":
        return "%096x" % ((-a) % Q)
    if k == "bigint_768_multiply":
        return "%0192x" % (a * b)
    if k == "bigint_768_square":
        return "%0192x" % (a * a)
    if k == "fpbase_384_montgomery_reduce":
        return "%096x" % (a * pow(R384, -1, Q) % Q)
    raise KeyError(kernel)


def special_operands(kernel, rng):
    ones = R384 - 1
    top2 = ((1 << 128) - 1) << 256
    base = [ones, top2, 1 << 383, (1 << 383) | 1, ones ^ 1, (1 << 64) - 1, ((1 << 64) - 1) << 64, 0, 1]
    if "fpbase" in kernel and "montgomery" not in kernel:
        base = [Q - 1, Q - 2, (Q - 1) // 2, (Q + 1) // 2, Q >> 1, 0, 1, Q - (1 << 64), (Q >> 320) << 320, ((Q >> 320) << 320) - 1]
    pts = [(x, y) for x in base for y in base][:80]
    for _ in range(40):
        if "fpbase" in kernel and "montgomery" not in kernel:
            pts.append((rng.randrange(Q), rng.randrange(Q)))
        else:
            pts.append((rng.getrandbits(384) | (3 << 382), rng.getrandbits(384) | (3 << 382)))
    if "montgomery" in kernel:
        top = Q >> 320
        ts = [Q - 1, Q, Q + 1, (top << 320), (top << 320) + 5, (top << 320) | ((1 << 320) - 1), 2 * Q - 1, ((top + 1) << 320), Q - (1 << 64), 0, 1]
        pts = []
        for t in ts:
            pts.append((t * R384 if t < Q else t * R384 - (R384 - 1) * Q, 0))
        for _ in range(30):
            pts.append((rng.randrange(Q * R384), 0))
    return pts


def replay_kernel(res, config=None):
    from engine import replay
    ce = res.counterexample or {}
    kernel = ce.get("kernel")
    if not kernel:
        return None
    backend = ce.get("backend", "x86")
    config = config or {"x86": "A", "P64": "P64", "P32": "P32"}.get(backend, "A")
    if config != "A":
        kernel = kernel.replace("x86_", "").replace("bmi2_adx_", "")
    alias = ce.get("alias", 0) or 0
    rng = random.Random(int(os.environ.get("VERIF_SEED", "0")) + 7)
    pts = []
    if ce.get("a") is not None:
        pts.append((int(ce["a"], 16), int(ce["b"], 16) if ce.get("b") else 0))
    pts += special_operands(kernel, rng)
    lines = []
    for a, b in pts:
        if alias == 3:
            b = a
        if "768" in kernel and "square" not in kernel:
            lines.append("kern %s %d %096x %096x" % (kernel, alias, a, b))
        elif "montgomery" in kernel:
            lines.append("kern %s %d %0192x" % (kernel, alias, a))
        else:
            lines.append("kern %s %d %096x %096x" % (kernel, alias, a, b))
    outs = replay.run(lines, config)
    for (a, b), o, line in zip(pts, outs, lines):
        if alias == 3:
            b = a
        want = kernel_reference(kernel, a, b)
        if o.startswith("ERR"):
            return None
        if o.strip() != want:
            ce["native_replay"] = {"command": line, "native_output": o, "reference": want, "config": config}
            return True
    ce["native_replay_tried"] = len(lines)
    return False


# ---- registration ------------------------------------------------------------------------------------------------
def ob_x86_simple(kind, alias):
    return wordspec.x86_simple(x86_prog(), kind, alias)


def ob_x86_multiply(variant, square):
    return wordspec.x86_multiply(x86_prog(), variant, square)


def ob_x86_montgomery(variant):
    return wordspec.x86_montgomery(x86_prog(), variant)


def ob_dispatch():
    """runtime.cpp: after the static initialiser the three dispatch pointers are all-baseline or all-BMI2/ADX, for either
    answer of cpu_supports_bmi2_adx (CPUID is a nondeterministic stub)"""
    prog = build.load_program("A", files=["src/core/arch/x86_64/runtime.cpp"], tag="c03_runtime")
    import z3
    seen = []
    for answer in (0, 1):
        I = eir.Interp(prog)
        I.external_handler = lambda I_, name, args, site: answer if name.endswith("cpu_supports_bmi2_adx") else (_ for _ in ()).throw(
            eir.ExecError("unsupported", "unexpected external call " + name))
        I.run_static_initialisers()
        ptrs = []
        for g in ("runtime_fpbase_384_montgomery_reduce", "runtime_bigint_768_multiply", "runtime_bigint_768_square"):
            name = [n for n in prog.gl if g in n][0]
            o = I.global_obj(name)
            v = o.cells[0][1]
            if not isinstance(v, eir.FnRef):
                raise Violation("dispatch:" + g, "dispatch pointer %s is not initialised to a routine" % g, {"cpu_supports_bmi2_adx": answer})
            ptrs.append(v.name)
        want_bmi = bool(answer)
        for p in ptrs:
            if ("bmi2_adx" in p) != want_bmi:
                raise Violation("dispatch:mixed", "with cpu_supports_bmi2_adx()=%d the dispatch table is %r" % (answer, ptrs), {"cpu_supports_bmi2_adx": answer, "table": ptrs})
        kinds = sorted(p.replace("embedded_pairing_core_arch_x86_64_", "").replace("bmi2_adx_", "") for p in ptrs)
        if kinds != ["bigint_768_multiply", "bigint_768_square", "fpbase_384_montgomery_reduce"]:
            raise Violation("dispatch:wrong-routine", "dispatch table points at %r" % (ptrs,), {"table": ptrs})
        seen.append(ptrs)
    return {"queries": 2, "paths": 2, "functions": ["runtime.cpp static initialiser"], "sample": "dispatch tables: %r" % (seen,)}


def register(chk):
    for kind, (nin, has_p) in wordspec.SIMPLE.items():
        for alias in ((0, 1) if nin == 1 else (0, 1, 2, 3)):
            chk.add("x86:%s:alias=%d" % (kind, alias), ob_x86_simple, kind, alias)
    for variant in ("", "bmi2_adx"):
        v = variant or "baseline"
        chk.add("x86:%s:bigint_768_multiply" % v, ob_x86_multiply, variant, False)
        chk.add("x86:%s:bigint_768_square" % v, ob_x86_multiply, variant, True)
        chk.add("x86:%s:fpbase_384_montgomery_reduce" % v, ob_x86_montgomery, variant)
    chk.add("x86:dispatch-table", ob_dispatch)
    import c03_portable
    c03_portable.register(chk)
    import c03_a64
    c03_a64.register(chk)      # AArch64 back end (interpreter over the assembled instruction stream; no native replay on this host)
    import c03_t1
    c03_t1.register(chk)       # ARMv6-M (Thumb-1) back end (interpreter over the macro-expanded GNU-as sources, cross-checked against clang's assembler)


def include_in(chk):
    """this check's obligations registered inside a check of a layer above (framework.Check.include): every back end of the field kernels"""
    sys.path.insert(0, os.path.dirname(os.path.abspath(__file__)))
    x86_prog()
    import c02
    for cfg in ("P64", "P32"):
        c02.prog_for(cfg)
    chk.replayer = replay_kernel
    register(chk)


def main(argv=None):
    chk = Check("C03", "proof", argv)
    chk.replayer = replay_kernel
    sys.path.insert(0, os.path.dirname(os.path.abspath(__file__)))
    x86_prog()        # assemble once in the parent; workers inherit it
    import c02
    for cfg in ("P64", "P32"):
        c02.prog_for(cfg)
    register(chk)
    chk.explanation = ("Each routine of each back end is symbolically executed (x86-64: the instruction stream clang's assembler emits for the "
                       "current .s files, read back with llvm-objdump; portable C++: clang IR) with machine words as affine integer forms; z3 (QF_LIA) "
                       "decides equality with one shared integer specification per kernel, for all operand values. Word products are opaque "
                       "integers (both sides use the same ones); products by the modulus words are linear. Montgomery reduction is split at the "
                       "first compare: T*2^384 = a + U*p and T < 2p for the prefix, final conditional subtraction from an arbitrary T < 2p.")
    chk.bounds = ["all 384-bit operands (768-bit reduction inputs below p*2^384); aliasing res==a, res==b, res==a==b for the add/sub/double kernels",
                  "no unwinding bound: straight-line code / concrete word loops executed for their real trip count",
                  "portable C++ back ends: 64-bit words (-DDISABLE_ASM) and 32-bit words (-DDISABLE_ASM -U__SIZEOF_INT128__), IR of the current tree",
                  "NOT covered: AArch64 and ARMv6-M assembly back ends (no interpreter for those ISAs) - stated in DESIGN.md"]
    chk.trusted = ["T1: Montgomery uniqueness", "x86-64 instruction semantics as implemented in engine/easm_x86.py (add/adc/sub/sbb/mul/mulx/adcx/adox/imul/flags)",
                   "clang's integrated assembler and llvm-objdump", "z3 linear integer arithmetic"]
    chk.assumptions = ["operands of fpbase kernels are < p (class invariant, established by C02)", "reduction input < p*2^384"]
    import c03_t1
    c03_t1.annotate(chk)
    # statelessness (no call leaves anything behind in a global or static) is a premise of every per-call obligation: C20's IR obligations
    chk.include("C20")
    chk.run()
    chk.finish()


if __name__ == "__main__":
    main()
