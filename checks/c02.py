"""C02 - Fq and Fr arithmetic is exact modular arithmetic with canonical results (DESIGN.md section 5, C02).

Layers decided here (each from the IR of the current tree, regenerated on every run):
  word layer   BigInt<N> add/subtract/compare/equal/is_zero/is_one/bit/shift-by-one/byte I/O      (bit-vectors, QF_BV)
  FpBase<N>    add/subtract/multiply2/negate/reduce for all a,b < p                               (bit-vectors, QF_BV)
               BigInt<2N>::multiply/square = sum of word products; montgomery_reduce: T*R = a+U*p, T < 2p (QF_LIA)
  Fp<N,..>     every method forwards to the FpBase kernel with the right modulus / inverse word; set/get/into_montgomery
               compose to n -> n*R mod p and back (trace conformance over uninterpreted kernels + ground constants)
  Fq / Fr      hash_reduce, read/write_big_endian, compare, constants
N = 256 (Fr: generic templates in every configuration) and N = 384 in the portable configurations P64 (quick) and P32 (thorough);
N = 384 in the shipped x86-64 configuration is the assembly, decided against the same specifications by C03, and here the C++
glue that forwards to it is checked.
"""
import sys
import os
import random
sys.path.insert(0, os.path.dirname(os.path.dirname(os.path.abspath(__file__))))

import z3
from engine import build, eir, eir_lin, irparse
from engine.eir import Ptr, Obj, is_conc, ExecError, MemViolation
from engine.framework import Check, Violation, Inconclusive
from engine.dom_lin import LinCtx, LV

Q = 0x1a0111ea397fe69a4b1ba7b6434bacd764774b84f38512bf6730d2a0f6b0f6241eabfffeb153ffffb9feffffffffaaab
R_ORDER = 0x73eda753299d7d483339d80809a1d80553bda402fffe5bfeffffffff00000001
MOD = {384: Q, 256: R_ORDER}
NS = "embedded_pairing::core::"
HARNESS = os.path.join(os.path.dirname(os.path.dirname(os.path.abspath(__file__))), "harness")

_PROGS = {}


def prog_for(cfg):
    if cfg not in _PROGS:
        lls = build.emit_ir(cfg, files=[], tag="c02_" + cfg)
        d = os.path.join(build.WORK, "c02_" + cfg)
        import subprocess
        out = os.path.join(d, "inst_core.ll")
        cmd = ["clang++-14", "-I" + os.path.join(build.REPO, "include")] + build.IRFLAGS + build.CONFIGS[cfg] + [build.HOOK_DEFINE,
               os.path.join(HARNESS, "inst_core.cpp"), "-o", out]
        r = subprocess.run(cmd, capture_output=True, text=True)
        if r.returncode != 0:
            raise RuntimeError("clang failed on inst_core.cpp (%s):\n%s" % (cfg, r.stderr[-2000:]))
        mods = [irparse.parse_module(out)]
        for rel in ("src/bls12_381/fq.cpp", "src/bls12_381/fr.cpp"):
            o2 = os.path.join(d, os.path.basename(rel)[:-4] + ".ll")
            cmd = ["clang++-14", "-I" + os.path.join(build.REPO, "include")] + build.IRFLAGS + build.CONFIGS[cfg] + [build.HOOK_DEFINE,
                   os.path.join(build.REPO, rel), "-o", o2]
            r = subprocess.run(cmd, capture_output=True, text=True)
            if r.returncode != 0:
                raise RuntimeError("clang failed on %s (%s):\n%s" % (rel, cfg, r.stderr[-2000:]))
            mods.append(irparse.parse_module(o2))
        _PROGS[cfg] = eir.Program(mods)
    return _PROGS[cfg]


# ---------------------------------------------------------------------------------------------------------------
# helpers: big integers as objects of 8-byte bit-vector cells
# ---------------------------------------------------------------------------------------------------------------
def bv_obj(name, bits, value, const=False):
    """object holding the little-endian `bits`-bit value (z3 BitVec or int) as 8-byte cells"""
    o = Obj(name, bits // 8, "arg", 16, const)
    for i in range(bits // 64):
        if is_conc(value):
            o.cells[8 * i] = (8, (value >> (64 * i)) & ((1 << 64) - 1))
        else:
            o.cells[8 * i] = (8, eir.simp(z3.Extract(64 * i + 63, 64 * i, value)))
    return o


def read_bv(I, o, bits, off=0):
    v = I.load_bytes(o, off, bits // 8)
    return v


def model_int(mdl, v):
    return mdl.eval(v, model_completion=True).as_long()


def check_all_paths(I, once, vc_of, key, what, ce_vars, extra, max_paths=512):
    """explore; for each path prove vc_of(result) under the path condition.  Raises Violation with a model."""
    n = 0
    for path, res in I.explore(once, max_paths):
        n += 1
        vc = vc_of(res)
        if isinstance(vc, bool):
            if vc:
                continue
            vc = z3.BoolVal(False)
        s = I.solver
        s.push()
        try:
            for a in I.assumptions:
                s.add(a)
            for c in path.pc:
                s.add(c)
            s.add(z3.Not(vc))
            r = s.check()
            if r == z3.unknown:
                raise Inconclusive("solver unknown on " + what)
            if r == z3.sat:
                m = s.model()
                ce = dict(extra)
                for nm, v in ce_vars.items():
                    ce[nm] = hex(model_int(m, v))
                raise Violation(key, what + " differs from the specification", ce)
        finally:
            s.pop()
        I.vc_count = getattr(I, "vc_count", 0) + 1
    if n == 0:
        raise Inconclusive("no feasible path: " + what)
    return n


def stats(I, npaths, fns, sample):
    return {"queries": getattr(I, "vc_count", 0), "paths": npaths, "functions": fns, "sample": sample}


def cname(prog, name):
    return prog.demangled[name].replace("embedded_pairing::", "")[:140]


# ---------------------------------------------------------------------------------------------------------------
# FpBase<N> linear kernels in bit-vectors
# ---------------------------------------------------------------------------------------------------------------
FPBASE_OPS = {"add": 2, "subtract": 2, "multiply2": 1, "negate": 1, "reduce": 1}


def install_bigint_specs(I, N):
    """replace BigInt<N>::add/subtract/compare/shift_left_in_word<1> by their bit-vector specifications (each is proved by its own
    obligation ob_bigint in the same run)"""
    B = NS + r"BigInt<%d>::" % N

    def rd(p_):
        return eir.as_bv(I.load_bytes(p_.obj, p_.off, N // 8), N)

    def wr(p_, v):
        v = eir.simp(v)
        for i in range(N // 64):
            I.store_cell(p_.obj, p_.off + 8 * i, 8, (v >> (64 * i)) & ((1 << 64) - 1) if is_conc(v) else eir.simp(z3.Extract(64 * i + 63, 64 * i, v)))

    def h_add(I_, name, args, site):
        x, y = rd(args[1]), rd(args[2])
        s_ = z3.ZeroExt(1, x) + z3.ZeroExt(1, y)
        wr(args[0], z3.Extract(N - 1, 0, s_))
        return eir.simp(z3.Extract(N, N, s_) == 1)

    def h_sub(I_, name, args, site):
        x, y = rd(args[1]), rd(args[2])
        wr(args[0], x - y)
        return eir.simp(z3.ULT(x, y))

    def h_cmp(I_, name, args, site):
        x, y = rd(args[0]), rd(args[1])
        return eir.simp(z3.If(z3.ULT(x, y), z3.BitVecVal(0xffffffff, 32), z3.If(x == y, z3.BitVecVal(0, 32), z3.BitVecVal(1, 32))))

    def h_shl1(I_, name, args, site):
        x = rd(args[1])
        wr(args[0], x << 1)
        f = I_.prog.fn[name]
        rb = I_.prog.layout(f.module).resolve(f.ret).bits
        return eir.simp(z3.ZeroExt(rb - 1, z3.Extract(N - 1, N - 1, x)))
    I.add_intercept(B + r"add\(.*\)", h_add, "BigInt::add")
    I.add_intercept(B + r"subtract\(.*\)", h_sub, "BigInt::subtract")
    I.add_intercept(B + r"compare\(.*\)", h_cmp, "BigInt::compare")
    I.add_intercept(r".*" + B + r"shift_left_in_word<\(unsigned char\)1>\(.*\)", h_shl1, "BigInt::shift_left_in_word<1>")


def ob_fpbase(cfg, N, op, alias, deep=False, full=False):
    """full: no range assumption on the operands (C03 quantifies over all N-bit operand pairs): the specification is then the function of the
    truncated sum / difference / double with one conditional correction by p; for operands below p it is (a op b) mod p"""
    prog = prog_for(cfg)
    p = MOD[N]
    I = eir.Interp(prog)
    if not deep:
        install_bigint_specs(I, N)
    # deep: the BigInt helpers are executed from the IR as well (no specification in between); a few minutes per query on a loaded machine
    I.solver.set("timeout", 1200000 if deep else 120000)
    I.noalias_fatal = False     # negate(out == a) hands a.val to BigInt::subtract's __restrict parameter: recorded, see DESIGN.md S12
    if cfg == "A" and N == 384:
        asm_specs(I)            # whatever part of FpBase<384> is specialised onto the assembly (include/core/arch/x86_64/fp.hpp) meets it by its specification
    W = N + 8
    a = z3.BitVec("a", N)
    b = z3.BitVec("b", N) if FPBASE_OPS[op] == 2 and alias != 3 else a
    pv = z3.BitVecVal(p, N)
    if full:
        I.assumptions = []
    elif op == "reduce":
        I.assumptions = []                      # reduce takes any N-bit integer below 2p
        I.assumptions.append(z3.ULT(z3.ZeroExt(8, a), z3.BitVecVal(2 * p, W)))
    else:
        I.assumptions = [z3.ULT(a, pv), z3.ULT(b, pv)]
    fname = prog.find1(NS + r"FpBase<%d>::%s\(.*\)" % (N, op))
    za, zb, zp = z3.ZeroExt(8, a), z3.ZeroExt(8, b), z3.BitVecVal(p, W)
    if op == "add":
        s = za + zb
        want = z3.If(z3.UGE(s, zp), s - zp, s)
    elif op == "subtract":
        want = z3.If(z3.ULT(za, zb), za - zb + zp, za - zb)
    elif op == "multiply2":
        s = za + za
        want = z3.If(z3.UGE(s, zp), s - zp, s)
    elif op == "negate":
        want = z3.If(za == 0, za, zp - za)
    else:
        want = z3.If(z3.UGE(za, zp), za - zp, za)
    want = z3.Extract(N - 1, 0, want)
    if full:
        if op == "add":
            s_ = za + zb
            T = z3.Extract(N - 1, 0, s_)
            want = z3.If(z3.Or(z3.Extract(N, N, s_) == 1, z3.UGE(T, pv)), T - pv, T)
        elif op == "subtract":
            T = a - b
            want = z3.If(z3.ULT(a, b), T + pv, T)
        elif op == "multiply2":
            s_ = za + za
            T = z3.Extract(N - 1, 0, s_)
            want = z3.If(z3.Or(z3.Extract(N, N, s_) == 1, z3.UGE(T, pv)), T - pv, T)
        elif op == "negate":
            want = z3.If(a == 0, a, pv - a)
        else:
            want = z3.If(z3.UGE(a, pv), a - pv, a)

    def once():
        oa = bv_obj("a", N, a)
        ob = None
        if FPBASE_OPS[op] == 2:
            ob = oa if alias == 3 else bv_obj("b", N, b)
        op_ = bv_obj("p", N, p, const=True)
        ores = oa if alias in (1, 3) else (ob if alias == 2 else Obj("res", N // 8, "arg", 16))
        for o in (oa, ob):
            if o is not None and o is not ores:
                o.const = True
        args = [Ptr(ores, 0), Ptr(oa, 0)] + ([Ptr(ob, 0)] if ob is not None else []) + [Ptr(op_, 0)]
        I.call_named(fname, args)
        return read_bv(I, ores, N)
    key = "%s:FpBase<%d>::%s:alias=%d%s" % (cfg, N, op, alias, ":all-operands" if full else "")
    n = check_all_paths(I, once, lambda out: out == want, key, "FpBase<%d>::%s (%s)" % (N, op, cfg),
                        {"a": a, "b": b}, {"kernel": "fpbase_%d_%s" % (N, op), "backend": cfg, "alias": alias})
    note = "; ".join(sorted(set(m for k, m in I.events if k == "noalias")))
    return stats(I, n, [cname(prog, fname)], "%d paths, result == (a %s b) mod p as %d-bit vectors, all a,b < p%s" % (
        n, op, W, (" [restrict note: %s]" % note) if note else ""))


# ---------------------------------------------------------------------------------------------------------------
# BigInt<N> word-layer functions in bit-vectors
# ---------------------------------------------------------------------------------------------------------------
def ob_bigint(cfg, N, op, alias=0):
    prog = prog_for(cfg)
    I = eir.Interp(prog)
    I.solver.set("timeout", 120000)
    a = z3.BitVec("a", N)
    b = z3.BitVec("b", N) if alias != 3 else a
    W = N + 8
    za, zb = z3.ZeroExt(8, a), z3.ZeroExt(8, b)
    key = "%s:BigInt<%d>::%s:alias=%d" % (cfg, N, op, alias)
    extra = {"kernel": "bigint_%d_%s" % (N, {"shift_left_in_word1": "multiply2"}.get(op, op)), "backend": cfg, "alias": alias}
    B = NS + r"BigInt<%d>::" % N

    def objs(two=True):
        oa = bv_obj("a", N, a)
        ob = (oa if alias == 3 else bv_obj("b", N, b)) if two else None
        ores = oa if alias in (1, 3) else (ob if alias == 2 else Obj("res", N // 8, "arg", 16))
        return oa, ob, ores

    def as_bit(ret):
        if isinstance(ret, z3.BoolRef):
            return ret
        if is_conc(ret):
            return z3.BoolVal(bool(ret))
        return ret != 0
    if op in ("add", "subtract"):
        fname = prog.find1(B + op + r"\(.*\)")

        def once():
            oa, ob, ores = objs()
            ret = I.call_named(fname, [Ptr(ores, 0), Ptr(oa, 0), Ptr(ob, 0)])
            return read_bv(I, ores, N), ret
        if op == "add":
            s = za + zb
            spec = lambda r: z3.And(r[0] == z3.Extract(N - 1, 0, s), as_bit(r[1]) == (z3.Extract(N, N, s) == 1))
        else:
            spec = lambda r: z3.And(r[0] == a - b, as_bit(r[1]) == z3.ULT(a, b))
        n = check_all_paths(I, once, spec, key, "BigInt<%d>::%s (%s)" % (N, op, cfg), {"a": a, "b": b}, extra)
    elif op in ("shift_left_in_word1", "shift_right_in_word1"):
        d = "left" if "left" in op else "right"
        fname = prog.find1(r".*" + B + r"shift_%s_in_word<\(unsigned char\)1>\(.*\)" % d)

        def once():
            oa, ob, ores = objs(False)
            ret = I.call_named(fname, [Ptr(ores, 0), Ptr(oa, 0)])
            return read_bv(I, ores, N), ret
        wbits = 64 if cfg != "P32" else 32
        if d == "left":
            spec = lambda r: z3.And(r[0] == (a << 1), z3.ZeroExt(64 - wbits, eir.as_bv(r[1], wbits)) == z3.ZeroExt(63, z3.Extract(N - 1, N - 1, a)))
        else:
            spec = lambda r: z3.And(r[0] == z3.LShR(a, 1), eir.as_bv(r[1], wbits) == z3.Concat(z3.Extract(0, 0, a), z3.BitVecVal(0, wbits - 1)))
        n = check_all_paths(I, once, spec, key, "BigInt<%d>::shift_%s_in_word<1> (%s)" % (N, d, cfg), {"a": a}, extra)
    elif op == "compare":
        fname = prog.find1(B + r"compare\(.*\)")

        def once():
            oa, ob, _ = objs()
            return I.call_named(fname, [Ptr(oa, 0), Ptr(ob, 0)])
        spec = lambda r: eir.as_bv(r, 32) == z3.If(z3.ULT(a, b), z3.BitVecVal(0xffffffff, 32), z3.If(a == b, z3.BitVecVal(0, 32), z3.BitVecVal(1, 32)))
        n = check_all_paths(I, once, spec, key, "BigInt<%d>::compare (%s)" % (N, cfg), {"a": a, "b": b}, extra)
    elif op == "equal":
        fname = prog.find1(B + r"equal\(.*\)")

        def once():
            oa, ob, _ = objs()
            return I.call_named(fname, [Ptr(oa, 0), Ptr(ob, 0)])
        n = check_all_paths(I, once, lambda r: as_bit(r) == (a == b), key, "BigInt<%d>::equal (%s)" % (N, cfg), {"a": a, "b": b}, extra)
    elif op in ("is_zero", "is_one", "is_even", "is_odd"):
        fname = prog.find1(B + op + r"\(\) const")

        def once():
            oa, ob, _ = objs(False)
            return I.call_named(fname, [Ptr(oa, 0)])
        want = {"is_zero": a == 0, "is_one": a == 1, "is_even": z3.Extract(0, 0, a) == 0, "is_odd": z3.Extract(0, 0, a) == 1}[op]
        n = check_all_paths(I, once, lambda r: as_bit(r) == want, key, "BigInt<%d>::%s (%s)" % (N, op, cfg), {"a": a}, extra)
    elif op == "bit":
        fname = prog.find1(B + r"bit\(int\) const")
        pos = z3.BitVec("pos", 32)
        I.assumptions = [z3.ULT(pos, N)]

        def once():
            oa, ob, _ = objs(False)
            return I.call_named(fname, [Ptr(oa, 0), pos])
        want = z3.Extract(0, 0, z3.LShR(a, z3.ZeroExt(N - 32, pos))) == 1
        n = check_all_paths(I, once, lambda r: as_bit(r) == want, key, "BigInt<%d>::bit (%s)" % (N, cfg), {"a": a, "pos": pos}, extra, max_paths=1024)
    elif op in ("write_big_endian", "read_big_endian"):
        fname = prog.find1(B + op + r"\(.*\).*")
        nb = N // 8
        rev = z3.Concat(*[z3.Extract(8 * i + 7, 8 * i, a) for i in range(nb)])     # byte-reversed a

        def once():
            if op == "write_big_endian":
                oa = bv_obj("a", N, a, const=True)
                buf = Obj("buf", nb, "arg", 1)
                I.call_named(fname, [Ptr(oa, 0), Ptr(buf, 0)])
                return read_bv(I, buf, N)
            buf = Obj("buf", nb, "arg", 1, True)
            for i in range(nb):
                buf.cells[i] = (1, eir.simp(z3.Extract(8 * i + 7, 8 * i, a)))
            ores = Obj("res", nb, "arg", 16)
            I.call_named(fname, [Ptr(ores, 0), Ptr(buf, 0)])
            return read_bv(I, ores, N)
        n = check_all_paths(I, once, lambda r: r == rev, key, "BigInt<%d>::%s (%s)" % (N, op, cfg), {"a": a}, extra)
    else:
        raise KeyError(op)
    return stats(I, n, [cname(prog, fname)], "%d paths, all %d-bit operands" % (n, N))


# ---------------------------------------------------------------------------------------------------------------
# products and Montgomery reduction in affine integer forms (QF_LIA)
# ---------------------------------------------------------------------------------------------------------------
def lin_words(L, name, nwords, wbits, prefix):
    o = Obj(name, nwords * wbits // 8, "arg", 16)
    vs = []
    for i in range(nwords):
        v = L.var("%s%d" % (prefix, i), wbits)
        o.cells[(wbits // 8) * i] = (wbits // 8, v)
        vs.append(v)
    return o, vs


def lin_const_obj(L, name, value, nwords, wbits):
    o = Obj(name, nwords * wbits // 8, "arg", 16, True)
    for i in range(nwords):
        o.cells[(wbits // 8) * i] = (wbits // 8, (value >> (wbits * i)) & ((1 << wbits) - 1))
    return o


def lin_sum(L, ws, wbits):
    tot = L.const(0)
    for i, w in enumerate(ws):
        w = w if isinstance(w, LV) else L.const(w)
        tot = L.add(tot, L.scale(w, 1 << (wbits * i)))
    return tot


def read_lin_words(I, o, nwords, wbits):
    out = []
    for i in range(nwords):
        v = I.load_bytes(o, (wbits // 8) * i, wbits // 8)
        out.append(v)
    return out


def wbits_of(cfg):
    return 32 if cfg == "P32" else 64


def model_words(env, prefix, n, wbits):
    return sum(env.get("%s%d" % (prefix, i), 0) << (wbits * i) for i in range(n))


def ob_product(cfg, N, square):
    prog = prog_for(cfg)
    wb = wbits_of(cfg)
    nw = N // wb
    L = LinCtx(120000)
    I = eir_lin.LinInterp(prog, L)
    if square:
        fname = prog.find1(NS + r"BigInt<%d>::square\(.*\)" % (2 * N))
    else:
        fname = prog.find1(r"void " + NS + r"BigInt<%d>::multiply<%d>\(.*\)" % (2 * N, N))
    oa, av = lin_words(L, "a", nw, wb, "a")
    oa.const = True
    if square:
        ob, bv_ = oa, av
    else:
        ob, bv_ = lin_words(L, "b", nw, wb, "b")
        ob.const = True
    ores = Obj("res", 2 * N // 8, "arg", 16)
    I.call_named(fname, [Ptr(ores, 0), Ptr(oa, 0)] + ([] if square else [Ptr(ob, 0)]))
    if I.lin_pc or I.path.pc:
        raise Inconclusive("unexpected data-dependent branch in " + fname)
    out = read_lin_words(I, ores, 2 * nw, wb)
    got = lin_sum(L, out, wb)
    want = L.const(0)
    for i in range(nw):
        for j in range(nw):
            want = L.add(want, L.scale(L.mul(av[i], bv_[j]), 1 << (wb * (i + j))))
    ident = L.eq(got, want)
    ok = L.prove(ident, "product identity")
    kname = "bigint_%d_%s" % (2 * N, "square" if square else "multiply")
    if ok is None:
        hit = L.wrap_search(lambda env: L.evaluate(got, env) != L.evaluate(want, env), (), 5000, 120, True)
        if hit is not None:
            raise Violation("%s:%s" % (cfg, kname), "%s (%s): result is not sum a_i*b_j*2^(w(i+j)) (input found by the lost-carry search after the solver gave up)" % (kname, cfg),
                            {"kernel": kname, "backend": cfg, "a": hex(model_words(hit, "a", nw, wb)), "b": hex(model_words(hit, "a" if square else "b", nw, wb))})
        raise Inconclusive("solver unknown on the product identity of " + kname)
    if not ok:
        from engine.wordspec import nia_model
        env = nia_model(L, z3.Not(ident)) or L.model_for(z3.Not(ident)) or {}
        raise Violation("%s:%s" % (cfg, kname), "%s (%s): result is not sum a_i*b_j*2^(w(i+j))" % (kname, cfg),
                        {"kernel": kname, "backend": cfg, "a": hex(model_words(env, "a", nw, wb)),
                         "b": hex(model_words(env, "a" if square else "b", nw, wb))})
    return {"queries": L.queries, "solver_s": L.solver_time, "paths": 1, "functions": [cname(prog, fname)],
            "sample": "%s: identity over %d opaque %dx%d-bit word products, %d wrap quotients" % (kname, len(L.products), wb, wb, len(L.wraps))}


def wrap_search(L, mismatch, per_query_ms=2500, budget_s=150):
    return L.wrap_search(mismatch, (), per_query_ms, budget_s)


def ob_montgomery(cfg, N):
    """FpBase<N>::montgomery_reduce: at the call to reduce(), T*2^N = a + U*p and T < 2p for every a < p*2^N (T = the N-bit
    value handed to reduce, U = sum u_i 2^(wi)); reduce itself is a separate obligation.  Together with T1 (uniqueness) the result
    is a*2^-N mod p."""
    prog = prog_for(cfg)
    wb = wbits_of(cfg)
    nw = N // wb
    p = MOD[N]
    inv = (-pow(p, -1, 1 << wb)) % (1 << wb)
    L = LinCtx(300000)
    I = eir_lin.LinInterp(prog, L)
    fname = prog.find1(NS + r"FpBase<%d>::montgomery_reduce\(.*\)" % N)
    oa, av = lin_words(L, "a", 2 * nw, wb, "a")
    A = lin_sum(L, av, wb)
    L.solver.add(L.z(A) < p * (1 << N))
    op_ = lin_const_obj(L, "p", p, nw, wb)
    ores = Obj("res", N // 8, "arg", 16)
    seen = {}

    def on_reduce(I_, name, args, site):
        src = args[1]
        seen["T"] = read_lin_words(I_, src.obj, nw, wb) if src.off == 0 else [I_.load_bytes(src.obj, src.off + (wb // 8) * i, wb // 8) for i in range(nw)]
        seen["dst"] = args[0]
        seen["p"] = args[2]
        return None
    I.add_intercept(NS + r"FpBase<%d>::reduce\(.*\)" % N, on_reduce, "FpBase::reduce")
    us = []
    orig_binop = I.binop

    def binop(op, bits, a, b, flags):
        r = orig_binop(op, bits, a, b, flags)
        if op == "mul" and bits == wb and ((is_conc(b) and b == inv) or (is_conc(a) and a == inv)):
            us.append(r)
        return r
    I.binop = binop
    I.call_named(fname, [Ptr(ores, 0), Ptr(oa, 0), Ptr(op_, 0), inv])
    key = "%s:FpBase<%d>::montgomery_reduce" % (cfg, N)
    extra = {"kernel": "fpbase_%d_montgomery_reduce" % N, "backend": cfg}
    if I.lin_pc or I.path.pc:
        raise Inconclusive("unexpected data-dependent branch before reduce() in " + fname)
    if "T" not in seen:
        raise Violation(key + ":shape", "montgomery_reduce never calls reduce()", extra)
    if seen["dst"].obj is not ores or seen["p"].obj is not op_:
        raise Violation(key + ":shape", "montgomery_reduce calls reduce() with the wrong destination or modulus", extra)
    if len(us) != nw:
        raise Inconclusive("expected %d multiplications by the inverse word, saw %d" % (nw, len(us)))
    T = lin_sum(L, seen["T"], wb)
    U = lin_sum(L, us, wb)
    ident = L.z(T) * (1 << N) == L.z(A) + L.z(U) * p
    ok = L.prove_hard(ident, "montgomery identity", 100)
    if ok is None:
        # The solver gave up on the identity.  A lost carry is a truncation whose quotient can be 1 without being propagated: ask, truncation by
        # truncation, for an input that makes its quotient non-zero (small queries), evaluate the routine's own affine forms at that input and
        # compare with the definition computed in integers; an input found this way is a counterexample in its own right.
        def reference(env):
            a_ = sum(env["a%d" % i] << (wb * i) for i in range(2 * nw))
            for i in range(nw):
                u = ((a_ >> (wb * i)) & ((1 << wb) - 1)) * inv % (1 << wb)
                a_ += (u * p) << (wb * i)
            return a_ >> N
        hit = wrap_search(L, lambda env: sum(L.evaluate(w, env) << (wb * i) for i, w in enumerate(seen["T"])) != reference(env))
        if hit is not None:
            raise Violation(key + ":identity", "FpBase<%d>::montgomery_reduce (%s): T*2^%d != a + U*p at the call to reduce() (input found by the lost-carry search "
                            "after the solver gave up on the identity)" % (N, cfg, N), dict(extra, a=hex(model_words(hit, "a", 2 * nw, wb))))
        raise Inconclusive("solver unknown on the Montgomery identity (%s, %d)" % (cfg, N))
    if not ok:
        env = L.model_for(z3.Not(ident)) or {}
        raise Violation(key + ":identity", "FpBase<%d>::montgomery_reduce (%s): T*2^%d != a + U*p at the call to reduce()" % (N, cfg, N),
                        dict(extra, a=hex(model_words(env, "a", 2 * nw, wb))))
    L.solver.add(ident)
    ok = L.prove(L.z(T) < 2 * p, "T < 2p")
    if ok is None:
        raise Inconclusive("solver unknown on T < 2p")
    if not ok:
        env = L.model_for(z3.Not(L.z(T) < 2 * p)) or {}
        raise Violation(key + ":range", "FpBase<%d>::montgomery_reduce (%s): unreduced value may reach 2p" % (N, cfg),
                        dict(extra, a=hex(model_words(env, "a", 2 * nw, wb))))
    return {"queries": L.queries, "solver_s": L.solver_time, "paths": 1, "functions": [cname(prog, fname)],
            "sample": "affine prefix to reduce(): T*2^%d = a + U*p and T < 2p for all a < p*2^%d (%d word products by constants)" % (N, N, nw * nw)}


# ---------------------------------------------------------------------------------------------------------------
# Fp<N,...>: forwarding to the kernels with the right constants (trace conformance)
# ---------------------------------------------------------------------------------------------------------------
FP_RX = {384: NS + r"Fp<384,[^>]*fq_modulus_var[^>]*>", 256: NS + r"Fp<256,[^>]*fr_modulus_var[^>]*>"}
CONST_NAMES = {384: ("fq_modulus_var", "fq_R_var", "fq_R2_var", "fq_inv_var"), 256: ("fr_modulus_var", "fr_R_var", "fr_R2_var", "fr_inv_var")}


def global_by_suffix(prog, I, suffix):
    nm = suffix[:-1]
    names = [n for n in prog.gl if n == "_ZN16embedded_pairing9bls12_381%d%sE" % (len(nm), nm)]
    if len(names) != 1:
        raise Inconclusive("global %s: %d candidates" % (suffix, len(names)))
    return I.global_obj(names[0])


def ob_constants(cfg, N):
    prog = prog_for(cfg)
    I = eir.Interp(prog)
    p = MOD[N]
    R = (1 << N) % p
    want = {"modulus": p, "R": R, "R2": R * R % p, "inv": (-pow(p, -1, 1 << N)) % (1 << N)}
    got = {}
    for k, nm in zip(("modulus", "R", "R2", "inv"), CONST_NAMES[N]):
        o = global_by_suffix(prog, I, nm + "E")
        got[k] = I.load_bytes(o, 0, N // 8)
    for k in want:
        if got[k] != want[k]:
            raise Violation("%s:const:%s:%d" % (cfg, k, N), "constant %s of the %d-bit field is %#x, expected %#x" % (k, N, got[k], want[k]),
                            {"constant": k, "bits": N})
    pre = "Fq" if N == 384 else "Fr"
    for nm, val in (("zero", 0), ("one", R)) + ((("negative_one", (p - 1) * R % p),) if N == 384 else ()):
        cands = [n for n in prog.gl if n.endswith("%d%s%d%sE" % (len(pre), pre, len(nm), nm)) and "bls12_381" in n]
        if len(cands) != 1:
            raise Inconclusive("global %s::%s: %d candidates" % (pre, nm, len(cands)))
        v = I.load_bytes(I.global_obj(cands[0]), 0, N // 8)
        if v != val:
            raise Violation("%s:const:%s::%s" % (cfg, pre, nm), "%s::%s is %#x, expected %#x" % (pre, nm, v, val), {"constant": nm, "bits": N})
    return {"queries": 7, "paths": 1, "functions": ["constants of the %d-bit field" % N],
            "sample": "modulus, R = 2^%d mod p, R^2 mod p, -p^-1 mod 2^%d, zero, one%s" % (N, N, ", negative_one" if N == 384 else "")}


class Opaque:
    """an uninterpreted value (result of an intercepted kernel); identity = the recorded application"""
    def __init__(self, fn, args):
        self.fn = fn
        self.args = args

    def __repr__(self):
        return "%s(%s)" % (self.fn, ", ".join(map(repr, self.args)))


def ob_fp_forward(cfg, N):
    """every arithmetic method of Fp<N,p,r,r2,inv> forwards to the FpBase kernel with its operands in order and with the
    field's own modulus and inverse word; set / into_montgomery_form multiply by r2; get reduces the zero-extended value;
    is_one compares with r.  Kernels are uninterpreted here (their meaning is the FpBase obligations / C03)."""
    prog = prog_for(cfg)
    p = MOD[N]
    C = FP_RX[N]
    nfun = 0
    fns = []
    spec = {
        # method: (n operand objects, kernel, kernel operand pattern)
        "add": (2, "add", ["a", "b", "P"]), "subtract": (2, "subtract", ["a", "b", "P"]), "multiply2": (1, "multiply2", ["a", "P"]),
        "negate": (1, "negate", ["a", "P"]), "multiply": (2, "multiply", ["a", "b", "P", "INV"]), "square": (1, "square", ["a", "P", "INV"]),
        "reduce": (1, "reduce", ["a", "P"]), "set": (1, "multiply", ["a", "R2", "P", "INV"]),
        "into_montgomery_form": (0, "multiply", ["this", "R2", "P", "INV"]),
    }
    for mname, (nops, kern, pattern) in spec.items():
        I = eir.Interp(prog)
        calls = []
        P = global_by_suffix(prog, I, CONST_NAMES[N][0] + "E")
        R2 = global_by_suffix(prog, I, CONST_NAMES[N][2] + "E")
        INVO = global_by_suffix(prog, I, CONST_NAMES[N][3] + "E")
        invw = I.load_bytes(INVO, 0, 8 if cfg != "P32" else 4)

        def rec(I_, name, args, site, calls=calls):
            calls.append((prog.demangled[name], list(args)))
            return None
        I.add_intercept(NS + r"FpBase<%d>::(add|subtract|multiply2|negate|multiply|square|reduce|montgomery_reduce)\(.*\)" % N, rec, "FpBase kernels")
        cands = [n for n in prog.find(C + "::" + mname + r"\(.*\)") if not prog.fn[n].is_decl]
        if mname == "reduce":
            cands = [n for n in cands if "BigInt" in prog.demangled[n]]
        if len(cands) != 1:
            raise Inconclusive("Fp<%d>::%s: %d candidates" % (N, mname, len(cands)))
        fname = cands[0]
        fns.append(cname(prog, fname))
        this = Obj("this", N // 8, "arg", 16)
        ops = [Obj(n_, N // 8, "arg", 16, True) for n_ in ("a", "b")[:nops]]
        for o in ops + ([this] if nops == 0 else []):
            o.cells[0] = (N // 8, Opaque(o.name, []))
        I.call_named(fname, [Ptr(this, 0)] + [Ptr(o, 0) for o in ops])
        nfun += 1
        key = "%s:Fp<%d>::%s:forward" % (cfg, N, mname)
        if len(calls) != 1 or ("::" + kern + "(") not in calls[0][0]:
            raise Violation(key, "Fp<%d>::%s does not forward to exactly one FpBase::%s (saw %r)" % (N, mname, kern, [c[0][:60] for c in calls]),
                            {"method": mname, "bits": N})
        args = calls[0][1]
        objmap = {"a": ops[0] if nops else None, "b": ops[1] if nops > 1 else None, "P": P, "R2": R2, "this": this}
        if not (isinstance(args[0], Ptr) and args[0].obj is this and args[0].off == 0):
            raise Violation(key, "Fp<%d>::%s: kernel writes to %r, not to *this" % (N, mname, args[0]), {"method": mname, "bits": N})
        for want, got in zip(pattern, args[1:]):
            if want == "INV":
                okk = is_conc(got) and got == invw and invw == (-pow(p, -1, 1 << (8 if cfg != "P32" else 4) * 8)) % (1 << ((8 if cfg != "P32" else 4) * 8))
            else:
                okk = isinstance(got, Ptr) and got.obj is objmap[want] and got.off == 0
            if not okk:
                raise Violation(key, "Fp<%d>::%s passes %r where the %s operand is expected" % (N, mname, got, want), {"method": mname, "bits": N})
    # get(): tmp = zero-extended val; target.montgomery_reduce(tmp, p, inv)
    I = eir.Interp(prog)
    calls = []
    P = global_by_suffix(prog, I, CONST_NAMES[N][0] + "E")
    INVO = global_by_suffix(prog, I, CONST_NAMES[N][3] + "E")
    wbytes = 8 if cfg != "P32" else 4
    invw = I.load_bytes(INVO, 0, wbytes)
    a = z3.BitVec("a", N)

    def rec_get(I_, name, args, site):
        calls.append((prog.demangled[name], list(args), I_.load_bytes(args[1].obj, args[1].off, 2 * N // 8)))
        return None
    I.add_intercept(NS + r"FpBase<%d>::montgomery_reduce\(.*\)" % N, rec_get, "FpBase::montgomery_reduce")
    fname = prog.find1(C + r"::get\(.*\) const")
    fns.append(cname(prog, fname))
    this = bv_obj("this", N, a, const=True)
    out = Obj("integer", N // 8, "arg", 16)
    I.call_named(fname, [Ptr(this, 0), Ptr(out, 0)])
    key = "%s:Fp<%d>::get" % (cfg, N)
    if len(calls) != 1:
        raise Violation(key, "Fp<%d>::get does not call montgomery_reduce exactly once" % N, {"method": "get", "bits": N})
    nm, args, wide = calls[0]
    s = z3.Solver()
    s.add(z3.Not(eir.as_bv(wide, 2 * N) == z3.ZeroExt(N, a)))
    if not (args[0].obj is out and args[2].obj is P and is_conc(args[3]) and args[3] == invw) or s.check() != z3.unsat:
        raise Violation(key, "Fp<%d>::get: montgomery_reduce is not applied to the zero-extended value with (p, inv) into the output" % N,
                        {"method": "get", "bits": N})
    # is_one / is_zero / equal / copy / set_zero in bit-vectors
    nb = 0
    for mname, nops, want in (("is_one", 0, lambda x, y: x == z3.BitVecVal((1 << N) % p, N)), ("is_zero", 0, lambda x, y: x == 0),
                              ("equal", 2, lambda x, y: x == y)):
        I = eir.Interp(prog)
        x, y = z3.BitVec("x", N), z3.BitVec("y", N)
        cands = [n for n in prog.find(C + "::" + mname + r"\(.*\)( const)?") if not prog.fn[n].is_decl]
        if len(cands) != 1:
            raise Inconclusive("Fp<%d>::%s: %d candidates" % (N, mname, len(cands)))
        fname = cands[0]
        fns.append(cname(prog, fname))

        def once():
            ox = bv_obj("x", N, x, True)
            oy = bv_obj("y", N, y, True)
            return I.call_named(fname, [Ptr(ox, 0)] + ([Ptr(oy, 0)] if nops == 2 else []))

        def vc(r, want=want):
            rb = r if isinstance(r, z3.BoolRef) else (z3.BoolVal(bool(r)) if is_conc(r) else r != 0)
            return rb == want(x, y)
        nb += check_all_paths(I, once, vc, "%s:Fp<%d>::%s" % (cfg, N, mname), "Fp<%d>::%s" % (N, mname), {"x": x, "y": y}, {"method": mname, "bits": N})
    return {"queries": nfun + 1 + nb, "paths": nfun + 1 + nb, "functions": fns,
            "sample": "%d forwarding methods + get + is_one/is_zero/equal" % nfun}


def ob_glue_x86():
    """configuration A: the C++ specialisations of BigInt<384>/FpBase<384> hand their operands to the assembly routines in order"""
    prog = build.load_program("A", tag="c02_glue")
    want = {
        NS + r"FpBase<384>::add\(.*\)": ("embedded_pairing_core_arch_x86_64_fpbase_384_add", 4),
        NS + r"FpBase<384>::subtract\(.*\)": ("embedded_pairing_core_arch_x86_64_fpbase_384_subtract", 4),
        NS + r"FpBase<384>::multiply2\(.*\)": ("embedded_pairing_core_arch_x86_64_fpbase_384_multiply2", 3),
        NS + r"FpBase<384>::montgomery_reduce\(.*\)": ("runtime_fpbase_384_montgomery_reduce", 4),
        NS + r"BigInt<384>::add\(.*\)": ("embedded_pairing_core_arch_x86_64_bigint_384_add", 3),
        NS + r"BigInt<384>::subtract\(.*\)": ("embedded_pairing_core_arch_x86_64_bigint_384_subtract", 3),
        r".*" + NS + r"BigInt<384>::shift_left_in_word<\(unsigned char\)1>\(.*\)": ("embedded_pairing_core_arch_x86_64_bigint_384_multiply2", 2),
        r"void " + NS + r"BigInt<768>::multiply<384>\(.*\)": ("runtime_bigint_768_multiply", 3),
        NS + r"BigInt<768>::square\(.*\)": ("runtime_bigint_768_square", 2),
    }
    fns = []
    skipped = []
    for rx, (callee, nargs) in want.items():
        if not [n for n in prog.find(rx) if not prog.fn[n].is_decl]:
            skipped.append(callee)      # an inline specialisation that no TU uses is not emitted: there is no code to check
            continue
        fname = prog.find1(rx)
        fns.append(cname(prog, fname))
        I = eir.Interp(prog)
        calls = []

        def ext(I_, name, args, site):
            calls.append((name, list(args)))
            return z3.BitVec("ret", 64) if "bigint_384" in name else None
        I.external_handler = ext
        # dispatch pointers: symbolic function references standing for "whichever routine the initialiser selected"
        for g in list(prog.gl):
            if "runtime_" in g:
                o = I.global_obj(g) if prog.gl[g][0].init is not None else None
                if o is None:
                    o = Obj("@" + g, 8, "global", 8)
                    I.globals[g] = o
                o.cells[0] = (8, eir.FnRef("DISPATCH:" + g))
        args = [Ptr(Obj("arg%d" % i, 96, "arg", 16), 0) for i in range(nargs)]
        for a_ in args[1:]:
            a_.obj.cells[0] = (96, Opaque(a_.obj.name, []))
        if "montgomery" in rx:
            args[3] = z3.BitVec("invw", 64)
        ret = I.call_named(fname, list(args))
        key = "A:glue:" + callee
        if len(calls) != 1 or callee not in calls[0][0]:
            raise Violation(key, "%s does not forward to %s (calls: %r)" % (fns[-1], callee, [c[0] for c in calls]), {"function": fns[-1]})
        for i, (x, y) in enumerate(zip(args, calls[0][1])):
            same = (x is y) or (isinstance(x, Ptr) and isinstance(y, Ptr) and x.obj is y.obj and x.off == y.off)
            if not same:
                raise Violation(key, "%s passes its operands to %s in a different order (argument %d)" % (fns[-1], callee, i), {"function": fns[-1]})
    if len(fns) < 6:
        raise Inconclusive("only %d of the x86-64 forwarding specialisations are emitted" % len(fns))
    return {"queries": len(fns), "paths": len(fns), "functions": fns,
            "sample": "%d forwarding specialisations (not emitted by any TU: %s)" % (len(fns), ", ".join(skipped) or "none")}


# ---------------------------------------------------------------------------------------------------------------
# Fq / Fr level: hash_reduce, byte I/O, compare
# ---------------------------------------------------------------------------------------------------------------
def asm_specs(I):
    """configuration A: the x86-64 assembly kernels behind BigInt<384> / FpBase<384>, by the specifications C03 proves for them"""
    M = (1 << 384) - 1

    def rd(p_):
        return I.load_bytes(p_.obj, p_.off, 48)

    def wr(p_, v):
        v = eir.simp(v)
        for i in range(6):
            I.store_cell(p_.obj, p_.off + 8 * i, 8, (v >> (64 * i)) & ((1 << 64) - 1) if is_conc(v) else eir.simp(z3.Extract(64 * i + 63, 64 * i, eir.as_bv(v, 384))))

    def ext(I_, name, args, site):
        k = name.replace("embedded_pairing_core_arch_x86_64_", "")
        if k in ("bigint_384_subtract", "bigint_384_add"):
            x, y = eir.as_bv(rd(args[1]), 384), eir.as_bv(rd(args[2]), 384)
            if k.endswith("subtract"):
                wr(args[0], x - y)
                return eir.simp(z3.If(z3.ULT(x, y), z3.BitVecVal(1, 8), z3.BitVecVal(0, 8)))
            t = z3.ZeroExt(1, x) + z3.ZeroExt(1, y)
            wr(args[0], z3.Extract(383, 0, t))
            return eir.simp(z3.ZeroExt(7, z3.Extract(384, 384, t)))
        if k == "bigint_384_multiply2":
            x = eir.as_bv(rd(args[1]), 384)
            wr(args[0], x << 1)
            return eir.simp(z3.ZeroExt(63, z3.Extract(383, 383, x)))
        if k in ("fpbase_384_add", "fpbase_384_subtract", "fpbase_384_multiply2"):
            # the modular kernels, by the all-operand specifications the x86:* obligations prove for them
            x = eir.as_bv(rd(args[1]), 384)
            if k.endswith("multiply2"):
                y, pv = x, eir.as_bv(rd(args[2]), 384)
            else:
                y, pv = eir.as_bv(rd(args[2]), 384), eir.as_bv(rd(args[3]), 384)
            if k.endswith("subtract"):
                t = x - y
                wr(args[0], z3.If(z3.ULT(x, y), t + pv, t))
            else:
                s_ = z3.ZeroExt(1, x) + z3.ZeroExt(1, y)
                t = z3.Extract(383, 0, s_)
                wr(args[0], z3.If(z3.Or(z3.Extract(384, 384, s_) == 1, z3.UGE(t, pv)), t - pv, t))
            return None
        raise ExecError("unsupported", "unexpected external call " + name)
    I.external_handler = ext


def ob_hash_reduce(cfg, fld):
    prog = prog_for(cfg)
    N = 384 if fld == "Fq" else 256
    p = MOD[N]
    keep = 381 if fld == "Fq" else 255
    I = eir.Interp(prog)
    I.solver.set("timeout", 120000)
    a = z3.BitVec("a", N)
    fname = prog.find1(r"embedded_pairing::bls12_381::%s::hash_reduce\(\)" % fld)
    glue = {}
    if cfg == "A" and N == 384:
        # the 384-bit word kernels are assembly (C03): use their specification
        def ext(I_, name, args, site):
            if name.endswith("bigint_384_subtract"):
                x = eir.as_bv(I_.load_bytes(args[1].obj, args[1].off, 48), 384)
                y = eir.as_bv(I_.load_bytes(args[2].obj, args[2].off, 48), 384)
                d = eir.simp(x - y)
                for i in range(6):
                    I_.store_cell(args[0].obj, args[0].off + 8 * i, 8, eir.simp(z3.Extract(64 * i + 63, 64 * i, eir.as_bv(d, 384))))
                return eir.simp(z3.If(z3.ULT(x, y), z3.BitVecVal(1, 8), z3.BitVecVal(0, 8)))
            raise ExecError("unsupported", "unexpected external call " + name)
        I.external_handler = ext

    def once():
        o = bv_obj("this", N, a)
        ret = I.call_named(fname, [Ptr(o, 0)])
        return read_bv(I, o, N), ret
    m = z3.BitVecVal((1 << keep) - 1, N)
    masked = a & m
    pv = z3.BitVecVal(p, N)
    want = z3.If(z3.UGE(masked, pv), masked - pv, masked)

    def vc(r):
        out, ret = r
        return z3.And(out == want, z3.ULT(out, pv))
    n = check_all_paths(I, once, vc, "%s:%s::hash_reduce" % (cfg, fld), "%s::hash_reduce (%s)" % (fld, cfg), {"a": a},
                        {"method": "hash_reduce", "field": fld, "backend": cfg})
    if not (2 * p > (1 << keep)):
        raise Violation("%s:%s::hash_reduce:ground" % (cfg, fld), "2p <= 2^%d: one subtraction is not enough" % keep, {})
    return stats(I, n, [cname(prog, fname)], "%d paths: result = (input mod 2^%d) mod p and < p for all %d-bit inputs" % (n, keep, N))


def ob_fq_compare(cfg):
    prog = prog_for(cfg)
    I = eir.Interp(prog)
    names = [n for n in prog.find(r"embedded_pairing::bls12_381::Fq::compare\(.*\)") if not prog.fn[n].is_decl]
    if not names:
        return {"queries": 0, "paths": 0, "functions": [], "sample": "Fq::compare is inlined into BigInt<384>::compare (covered by the BigInt obligation)"}
    a, b = z3.BitVec("a", 384), z3.BitVec("b", 384)

    def once():
        return I.call_named(names[0], [Ptr(bv_obj("a", 384, a, True), 0), Ptr(bv_obj("b", 384, b, True), 0)])
    spec = lambda r: eir.as_bv(r, 32) == z3.If(z3.ULT(a, b), z3.BitVecVal(0xffffffff, 32), z3.If(a == b, z3.BitVecVal(0, 32), z3.BitVecVal(1, 32)))
    n = check_all_paths(I, once, spec, cfg + ":Fq::compare", "Fq::compare", {"a": a, "b": b}, {"method": "compare"})
    return stats(I, n, [cname(prog, names[0])], "order of the internal representatives, %d paths" % n)


# ---------------------------------------------------------------------------------------------------------------
def replay_kernel(res):
    """native replay through the driver for the 384-bit kernels of the portable configurations"""
    ce = res.counterexample or {}
    k = ce.get("kernel")
    cfg = ce.get("backend")
    if cfg == "x86":
        sys.path.insert(0, os.path.dirname(os.path.abspath(__file__)))
        import c03
        return c03.replay_kernel(res)
    if not k or cfg not in ("P64", "P32") or "_384_" not in k and "_768_" not in k:
        return None
    sys.path.insert(0, os.path.dirname(os.path.abspath(__file__)))
    import c03
    return c03.replay_kernel(res, config=cfg)


def register(chk):
    tiers = [("A", 256), ("P64", 384)]
    if chk.tier == "thorough":
        tiers += [("P64", 256), ("P32", 384), ("P32", 256)]
    for cfg, N in tiers:
        for op, nin in FPBASE_OPS.items():
            for alias in (0, 1):          # the second operand is __restrict: only out == a is permitted by the signature
                if op == "reduce" and alias:
                    continue
                chk.add("%s:FpBase<%d>::%s:alias=%d" % (cfg, N, op, alias), ob_fpbase, cfg, N, op, alias)
                if chk.tier == "thorough":
                    chk.add("%s:FpBase<%d>::%s:alias=%d:deep" % (cfg, N, op, alias), ob_fpbase, cfg, N, op, alias, True)
        for op in ("add", "subtract"):
            for alias in (0, 1):
                chk.add("%s:BigInt<%d>::%s:alias=%d" % (cfg, N, op, alias), ob_bigint, cfg, N, op, alias)
        for op in ("shift_left_in_word1", "shift_right_in_word1"):
            for alias in (0, 1):
                chk.add("%s:BigInt<%d>::%s:alias=%d" % (cfg, N, op, alias), ob_bigint, cfg, N, op, alias)
        for op in ("compare", "equal", "is_zero", "is_one", "is_even", "is_odd", "bit", "write_big_endian", "read_big_endian"):
            chk.add("%s:BigInt<%d>::%s" % (cfg, N, op), ob_bigint, cfg, N, op, 0)
        chk.add("%s:BigInt<%d>::multiply" % (cfg, 2 * N), ob_product, cfg, N, False)
        chk.add("%s:BigInt<%d>::square" % (cfg, 2 * N), ob_product, cfg, N, True)
        chk.add("%s:FpBase<%d>::montgomery_reduce" % (cfg, N), ob_montgomery, cfg, N)
        chk.add("%s:Fp<%d>:forwarding" % (cfg, N), ob_fp_forward, cfg, N)
        chk.add("%s:constants:%d" % (cfg, N), ob_constants, cfg, N)
    # the word layer at the other widths the library instantiates (recoding, GLV rounding, 512-bit scalars): same template, other trip counts
    # (192 bits is one and a half double words: its union carries 8 bytes of padding, see more:BigInt<192> in c02_more.py)
    for N in (128, 512) + ((768,) if chk.tier == "thorough" else ()):      # 768 bits: a minute per QF_BV query
        for cfg in ("A",) + (("P64",) if chk.tier == "thorough" else ()):
            for op in ("add", "subtract"):
                for alias in (0, 1):
                    chk.add("%s:BigInt<%d>::%s:alias=%d" % (cfg, N, op, alias), ob_bigint, cfg, N, op, alias)
            for op in ("compare", "equal", "is_zero", "is_one", "is_even", "is_odd", "bit", "write_big_endian", "read_big_endian"):
                chk.add("%s:BigInt<%d>::%s" % (cfg, N, op), ob_bigint, cfg, N, op, 0)
    # the shipped Fq: FpBase<384> in configuration A (whichever members the arch header specialises call the assembly, the others are the template)
    for op, nin in FPBASE_OPS.items():
        for alias in (0, 1):
            if op == "reduce" and alias:
                continue
            chk.add("A:FpBase<384>::%s:alias=%d" % (op, alias), ob_fpbase, "A", 384, op, alias)
    chk.add("A:Fp<384>:forwarding", ob_fp_forward, "A", 384)
    chk.add("A:constants:384", ob_constants, "A", 384)
    chk.add("A:x86-glue", ob_glue_x86)
    for cfg in ("A", "P64") + (("P32",) if chk.tier == "thorough" else ()):
        chk.add("%s:Fq::hash_reduce" % cfg, ob_hash_reduce, cfg, "Fq")
        chk.add("%s:Fr::hash_reduce" % cfg, ob_hash_reduce, cfg, "Fr")
        chk.add("%s:Fq::compare" % cfg, ob_fq_compare, cfg)
    # Fq in the shipped x86-64 configuration IS the assembly: its kernels are decided against the same specifications (obligations shared with C03)
    import c03
    from engine import wordspec
    for kind, (nin, has_p) in wordspec.SIMPLE.items():
        chk.add("x86:%s:alias=0" % kind, c03.ob_x86_simple, kind, 0)
        chk.add("x86:%s:alias=1" % kind, c03.ob_x86_simple, kind, 1)
    for variant in ("", "bmi2_adx"):
        v = variant or "baseline"
        chk.add("x86:%s:bigint_768_multiply" % v, c03.ob_x86_multiply, variant, False)
        chk.add("x86:%s:bigint_768_square" % v, c03.ob_x86_multiply, variant, True)
        chk.add("x86:%s:fpbase_384_montgomery_reduce" % v, c03.ob_x86_montgomery, variant)
    chk.add("x86:dispatch-table", c03.ob_dispatch)
    try:
        import c02_loops
        c02_loops.register(chk)
    except ImportError:
        pass
    import c02_more
    c02_more.register(chk)


def include_in(chk):
    """this check's obligations registered inside a check of a layer above (framework.Check.include)"""
    sys.path.insert(0, os.path.dirname(os.path.abspath(__file__)))
    for cfg in ("A", "P64") + (("P32",) if chk.tier == "thorough" else ()):
        prog_for(cfg)
    import c03
    c03.x86_prog()
    chk.replayer = replay_kernel
    register(chk)


def main(argv=None):
    sys.modules.setdefault("c02", sys.modules[__name__])      # helpers `import c02`: they must see this module instance (its program cache)
    chk = Check("C02", "proof", argv)
    chk.replayer = replay_kernel
    sys.path.insert(0, os.path.dirname(os.path.abspath(__file__)))
    for cfg in ("A", "P64") + (("P32",) if chk.tier == "thorough" else ()):
        prog_for(cfg)
    import c03
    c03.x86_prog()
    register(chk)
    chk.explanation = ("The real template code of include/core/{bigint,fp}.hpp and src/bls12_381/{fq,fr}.cpp is lowered to LLVM IR from the current "
                       "tree (explicit instantiation TU harness/inst_core.cpp; configurations A, P64 and, thorough, P32) and executed symbolically. "
                       "Linear kernels (add/sub/double/negate/reduce/compare/shift/byte I/O/hash_reduce) run over 256/384-bit bit-vectors and z3 "
                       "(QF_BV) decides equality with integer arithmetic mod p on every path, for all operands below p. Products and Montgomery "
                       "reduction run over affine integer forms with opaque word products and z3 (QF_LIA) decides the product identity and "
                       "T*2^N = a + U*p, T < 2p. The Fp<> layer is checked to forward to those kernels with the field's own constants, which are "
                       "ground-checked (R, R^2, -p^-1, one, negative_one).")
    chk.bounds = ["all operands of the real width (256/384 bits; 512/768-bit reduction inputs below p*2^N); no unwinding bound: all loops here have "
                  "concrete trip counts and are executed in full",
                  "quick: Fr in the shipped configuration, Fq in the portable 64-bit configuration; thorough adds the 32-bit-word configuration",
                  "data-dependent loops (fp_inverse, exponentiate, legendre, square_root, random) are separate obligations (c02_loops) when present"]
    chk.trusted = ["T1: Montgomery uniqueness (T*R = a + U*p, T < 2p, then reduce gives the unique representative)",
                   "clang -O1 IR vs the shipped -Ofast build (replay runs the shipped flags)", "z3"]
    chk.assumptions = ["operands of field kernels are canonical (< p): class invariant, re-established by every kernel's post-condition",
                       "Fq in the shipped x86-64 configuration uses the assembly kernels decided by C03 against the same specifications"]
    # lower layers whose specifications this check relies on: their obligations are part of this check's claim (framework.Check.include)
    for dep in ['C18', 'C20']:
        chk.include(dep)
    chk.run()
    chk.finish()


if __name__ == "__main__":
    main()
