"""Shared harness for the LQ-IBE property C16 (DESIGN.md section 5, C16).

src/lqibe/api.cpp is executed from the IR of the current tree by E-IR with the group layer replaced by D-GRP (engine/dom_grp.py).
Extensions of the group layer made here (none of them edits dom_grp):
  scalars from bytes   a 32-byte scalar whose bytes are symbolic bit-vectors (an unmarshalled master key) is the integer BV2Int(bytes) in
                       [0, 2^256): NOT reduced.  Byte/word-level code applied to such a scalar (masking, compare, ...) runs for real on
                       the bit-vectors, so scalar-level manipulations are modelled exactly.
  Affine::from_hash    a fresh formal generator per distinct 48-byte hash input (uninterpreted function of the bytes; T9 + random oracle)
  G1::multiply<G1Affine>(., BigInt<128>)   [c]P for the concrete 128-bit constant c (the cofactor; its value is checked by C10)
  Encoding<.,true>::encode, Fq12::write_big_endian    an injective token of the encoded group element (C09: encodings are injective)
  hash_fill            the caller's hash: an uninterpreted RECORDER of (output pointer, requested length, the tokens/bytes handed over in
                       order with their offsets, total input length)

Formal symbols:  gam (log of params.p in G2), H<k> (log of the curve point hashed from the k-th distinct identity hash), rnd<k> (randomness
drawn by the code), junk (an independent element used to alter a ciphertext).
"""
import os
import sys
sys.path.insert(0, os.path.dirname(os.path.dirname(os.path.abspath(__file__))))

import z3
from engine import build, eir, dom_grp
from engine.dom_grp import Poly, GE, SV, Grp, R_ORDER
from engine.eir import Ptr, Obj, is_conc, ExecError, MemViolation
from engine.framework import Violation, Inconclusive

LQ = "embedded_pairing::lqibe::"
B = dom_grp.B
_PROG = {}


def prog():
    if "p" not in _PROG:
        _PROG["p"] = build.load_program("A", files=["src/lqibe/api.cpp", "src/lqibe/lqibe.cpp", "src/bls12_381/fr.cpp", "src/bls12_381/fq.cpp"], tag="c16")
    return _PROG["p"]


def strip_unit_factor(c):
    """c = g * c' with g a non-zero integer constant prime to r (r is prime): c == 0 (mod r) iff c' == 0 (mod r).  Dividing the common
    constant factor out of a linear coefficient keeps the congruence queries within what z3's linear arithmetic decides quickly."""
    import math
    if isinstance(c, int):
        return c
    c = z3.simplify(c, som=True)
    terms = list(c.children()) if z3.is_add(c) else [c]
    split = []
    for t in terms:
        k, rest = 1, t
        if z3.is_int_value(t):
            k, rest = t.as_long(), None
        elif z3.is_mul(t) and z3.is_int_value(t.arg(0)):
            k = t.arg(0).as_long()
            rest = t.arg(1) if t.num_args() == 2 else z3.Product(*t.children()[1:])
        split.append((k, rest))
    g = 0
    for k, _ in split:
        g = math.gcd(g, abs(k))
    if g <= 1 or g % R_ORDER == 0:
        return c
    return z3.Sum([(z3.IntVal(k // g) if rest is None else (k // g) * rest) for k, rest in split])


class Tok:
    """the bytes an injective encoder produced for a group element"""
    __slots__ = ("kind", "ge")

    def __init__(self, kind, ge):
        self.kind = kind
        self.ge = ge

    def __repr__(self):
        return "Tok(%s,%r)" % (self.kind, self.ge)


class Layouts:
    """sizes / offsets of the scheme structs, from the IR types of the current tree"""

    def __init__(self, program):
        m = program.modules[0]
        lay = program.layout(m)
        self.lay = lay

        def st(name):
            t = m.types.get("struct.embedded_pairing::lqibe::" + name)
            if t is None:
                raise Inconclusive("IR has no type lqibe::" + name)
            return lay.resolve(t)
        self.sizes = {n: lay.size(st(n)) for n in ("ID", "IDHash", "Params", "MasterKey", "SecretKey", "Ciphertext", "SymmetricKeyHashBuffer")}
        p = st("Params")
        self.P_p, self.P_sp = lay.field_offset(p, 0)[0], lay.field_offset(p, 1)[0]
        b = st("SymmetricKeyHashBuffer")
        self.buf_fields = [(lay.field_offset(b, i)[0], lay.size(lay.field_offset(b, i)[1])) for i in range(len(b.els))]
        want = {"ID": 112, "Params": 576, "MasterKey": 32, "SecretKey": 112, "Ciphertext": 208, "IDHash": 48}
        for k, v in want.items():
            if self.sizes[k] != v:
                raise Inconclusive("unexpected size of lqibe::%s: %d" % (k, self.sizes[k]))


class World:
    """one symbolic LQ-IBE instance"""

    def __init__(self, timeout_ms=60000, c_api=False):
        self.c_api = c_api          # True: enter through the C interface (embedded_pairing_lqibe_*) instead of the C++ functions
        self.prog = prog()
        self.L = Layouts(self.prog)
        self.G = Grp(timeout_ms)
        self.I = eir.Interp(self.prog)
        self.I.solver.set("timeout", timeout_ms)
        self.records = []
        self.hashed = {}
        self._install_own()
        self.M = dom_grp.install(self.I, self.G)
        self._patch_scalar_read()
        self.I.run_static_initialisers()
        self.I.external_handler = self._external
        self.gam = self.G.sym("gam")
        self.cb = eir.FnRef("get_random_bytes")
        self.hf = eir.FnRef("hash_fill")

    # ---- group-layer extensions
    def _patch_scalar_read(self):
        M, I = self.M, self.I
        orig = M.read

        def read(p, kind):
            if kind == "SC" and isinstance(p, Ptr) and p.obj is not None and is_conc(p.off):
                c = p.obj.cells.get(p.off)
                if c is None or not isinstance(c[1], (GE, SV)):
                    I._check_access(p, 32, 1, False)
                    v = I.load_bytes(p.obj, p.off, 32)
                    if not is_conc(v):
                        return SV(Poly.const(z3.BV2Int(v)))
            return orig(p, kind)
        M.read = read

    def _install_own(self):
        I, G = self.I, self.G
        A1, A2, ANY = dom_grp.A1, dom_grp.A2, dom_grp.ANY

        def h_from_hash(I_, name, args, site):
            hp = args[1]
            I_._check_access(hp, 48, 1, False)
            bs = tuple(str(I_.load_bytes(hp.obj, hp.off + i, 1)) for i in range(48))
            k = self.hashed.setdefault(bs, len(self.hashed))
            self.M.write(args[0], "G1A", GE("G1", G.sym("H%d" % k)))

        def h_mul128(I_, name, args, site):
            a = self.M.read(args[1], "G1A")
            c = I_.load_bytes(args[2].obj, args[2].off, 16)
            if not is_conc(c):
                raise ExecError("unsupported", "128-bit scalar multiplication by a symbolic scalar")
            self.mul128 = getattr(self, "mul128", []) + [(args[2].obj.name, c)]
            self.M.write(args[0], "G1", GE("G1", a.p * Poly.const(c)))

        def h_encode(kind, size, ak):
            def h(I_, name, args, site):
                a = self.M.read(args[1], ak)
                I_._check_access(args[0], size, 1, True)
                I_.store_cell(args[0].obj, args[0].off, size, Tok(kind, a))
            return h

        def h_gt_write(I_, name, args, site):
            a = self.M.read(args[0], "GT")
            I_._check_access(args[1], 576, 1, True)
            I_.store_cell(args[1].obj, args[1].off, 576, Tok("GT", a))
        I.add_intercept(A1 + r"::from_hash" + ANY, h_from_hash, "G1Affine::from_hash")
        I.add_intercept(r"void " + B + r"G1::multiply<" + B + r"G1Affine>\(.*BigInt<128> const&\)", h_mul128, "G1::multiply<G1Affine>(BigInt<128>)")
        I.add_intercept(B + r"Encoding<" + B + r"G1Affine, true>::encode" + ANY, h_encode("G1c", 48, "G1A"), "Encoding<G1Affine,true>::encode")
        I.add_intercept(B + r"Encoding<" + B + r"G2Affine, true>::encode" + ANY, h_encode("G2c", 96, "G2A"), "Encoding<G2Affine,true>::encode")
        I.add_intercept(B + r"Fq12::write_big_endian" + ANY + " const", h_gt_write, "Fq12::write_big_endian")

    def _external(self, I_, name, args, site):
        if name != "hash_fill":
            raise ExecError("unsupported", "call to external function %s (the random source is only consumed inside the group layer)" % name)
        out, out_len, inp, n = args
        if not is_conc(n):
            raise ExecError("unsupported", "hash input of symbolic length")
        I_._check_access(inp, n, 1, False)
        items = []
        pos = inp.off
        end = inp.off + n
        for co, (cs, cv) in sorted(inp.obj.cells.items()):
            if co + cs <= inp.off or co >= end:
                continue
            if co != pos or co + cs > end:
                raise MemViolation("uninit", "the hash input is not the contiguous sequence of encoded fields (gap or overlap at byte %d of %s)" % (pos - inp.off, inp.obj.name))
            items.append((co - inp.off, cs, cv))
            pos = co + cs
        if pos != end:
            raise MemViolation("uninit", "hash input bytes %d..%d of %s are uninitialised (padding or an unwritten field)" % (pos - inp.off, n, inp.obj.name))
        self.records.append({"out": out, "out_len": out_len, "in_len": n, "items": items})
        return None

    # ---- memory builders
    def hash_obj(self, tag):
        o = Obj("idhash_" + tag, 48, "arg", 1, True)
        for i in range(48):
            o.cells[i] = (1, z3.BitVec("h%s_%d" % (tag, i), 8))
        return o

    def scalar_bytes(self, tag):
        """(32-byte marshalled master key with symbolic bytes, its integer value)"""
        S = z3.BitVec("S" + tag, 256)
        o = Obj("mskbytes" + tag, 32, "arg", 1, True)
        for i in range(4):
            o.cells[8 * i] = (8, z3.Extract(64 * i + 63, 64 * i, S))
        return o, S, z3.BV2Int(S)

    def params_obj(self, s_int):
        o = Obj("params", self.L.sizes["Params"], "arg", 16, False)
        self.I.store_cell(o, self.L.P_p, 288, GE("G2", self.gam))
        self.I.store_cell(o, self.L.P_sp, 288, GE("G2", self.gam * Poly.const(s_int)))
        o.const = True
        return o

    def fn(self, name, args_rx=r"\(.*\)"):
        if self.c_api:
            return self.prog.find1("embedded_pairing_lqibe_" + name)
        return self.prog.find1(LQ + name + args_rx)

    # ---- the scheme's steps (each returns the objects it produced)
    def unmarshal_msk(self, bytes_obj):
        msk = Obj("msk", 32, "arg", 16)
        if self.c_api:
            ret = self.I.call_named(self.fn("masterkey_unmarshal"), [Ptr(msk, 0), Ptr(bytes_obj, 0), 1, 1])
        else:
            f = self.prog.find1(r"bool " + LQ + r"MasterKey::unmarshal<true>\(.*\)")
            ret = self.I.call_named(f, [Ptr(msk, 0), Ptr(bytes_obj, 0), 1])
        if not (is_conc(ret) and ret == 1):
            raise Violation("masterkey-unmarshal", "MasterKey::unmarshal does not accept every 32-byte string", {})
        msk.const = True
        return msk

    def compute_id(self, hobj, tag="id"):
        ido = Obj(tag, self.L.sizes["ID"], "arg", 16)
        self.I.call_named(self.fn("compute_id_from_hash"), [Ptr(ido, 0), Ptr(hobj, 0)])
        ido.const = True
        return ido

    def keygen(self, msk, idobj, tag="sk"):
        sk = Obj(tag, self.L.sizes["SecretKey"], "arg", 16)
        self.I.call_named(self.fn("keygen"), [Ptr(sk, 0), Ptr(msk, 0), Ptr(idobj, 0)])
        sk.const = True
        return sk

    def encrypt(self, params, idobj, sym, length):
        ct = Obj("ct", self.L.sizes["Ciphertext"], "arg", 16)
        n0 = len(self.records)
        self.I.call_named(self.fn("encrypt"), [Ptr(ct, 0), sym, length, Ptr(params, 0), Ptr(idobj, 0), self.hf, self.cb])
        if len(self.records) != n0 + 1:
            raise Violation("encrypt:hash-calls", "encrypt calls the hash %d times" % (len(self.records) - n0), {})
        return ct, self.records[-1]

    def decrypt(self, ct, sk, idobj, sym, length):
        n0 = len(self.records)
        self.I.call_named(self.fn("decrypt"), [sym, length, Ptr(ct, 0), Ptr(sk, 0), Ptr(idobj, 0), self.hf])
        if len(self.records) != n0 + 1:
            raise Violation("decrypt:hash-calls", "decrypt calls the hash %d times" % (len(self.records) - n0), {})
        return self.records[-1]

    def g1a(self, o):
        return self.M.read(Ptr(o, 0), "G1A").p

    def g2a(self, o):
        return self.M.read(Ptr(o, 0), "G2A").p

    # ---- comparison of hash records
    def shape(self, rec):
        return [(off, size, cv.kind if isinstance(cv, Tok) else "bytes") for off, size, cv in rec["items"]]

    def same_formula(self, ra, rb):
        """z3 Bool: the two records hand the hash the same bytes (token-wise; tokens are injective in the group element).
        None if the shapes (offsets / sizes / kinds / lengths) already differ."""
        if ra["in_len"] != rb["in_len"] or self.shape(ra) != self.shape(rb):
            return None
        cs = []
        for (o1, s1, v1), (o2, s2, v2) in zip(ra["items"], rb["items"]):
            if isinstance(v1, Tok):
                for m, c in (v1.ge.p - v2.ge.p).t.items():
                    c = strip_unit_factor(c)
                    cs.append(z3.BoolVal(c % R_ORDER == 0) if isinstance(c, int) else c % R_ORDER == 0)
            else:
                cs.append(eir.as_bv(v1, 8 * s1) == eir.as_bv(v2, 8 * s2))
        return z3.And(*cs) if cs else z3.BoolVal(True)

    def solve(self, pc, conds, what):
        s = z3.Solver()
        s.set("timeout", 30000)
        for c in self.G.constraints + list(pc) + list(conds):
            s.add(c)
        r = s.check()
        self.G.queries += 1
        if r == z3.unknown:
            raise Inconclusive("solver unknown on " + what)
        return r, (s.model() if r == z3.sat else None)
