"""C08 - prepared and multi-pairing forms agree with the product of single pairings (DESIGN.md section 5, C08).

Decided at the level of the Miller loop's shape (see checks/miller.py for the model): for every list of n affine and m prepared pairs
(n, m in {0,1,2} quick, {0..3} thorough), with the identity flag of every G1/G2 element symbolic and every prepared pair's private cursor
holding garbage on entry, the accumulator's exponent map after miller_loop equals the sum, over the pairs with two finite members, of the
single-pair textbook maps (pairs with an identity member contribute nothing, wherever they stand), and is conjugated exactly when the single
plain pairing's is (that it must be, x being negative, is C01's business).
G2Prepared::prepare emits exactly the 68 coefficient triples the loop consumes, in that order (= num_coeffs = coeffs[68] of the C header),
and records the identity flag.  pairing / pairing_product apply final_exponentiation once to the Miller value, in place.
The final exponentiation is a group homomorphism (C01.3), so equality of Miller exponent maps gives equality of pairing products.
"""
import sys
import os
import itertools
sys.path.insert(0, os.path.dirname(os.path.dirname(os.path.abspath(__file__))))
sys.path.insert(0, os.path.dirname(os.path.abspath(__file__)))

import z3
import miller
from miller import B, Line, Run, Acc, TRIPLE, NUM_COEFFS, AFF1, AFF2, G2_SIZE
from engine import eir
from engine.eir import Ptr, Obj, is_conc, ExecError
from engine.framework import Check, Violation, Inconclusive


def build_pairs(I, n, m, flags):
    """objects for n affine and m prepared pair records with symbolic identity flags; returns (affine array, prepared array, description)"""
    aff = Obj("affine_pairs", max(n, 1) * (16 + G2_SIZE), "arg", 16) if n else None
    pre = Obj("prepared_pairs", max(m, 1) * 24, "arg", 8) if m else None
    desc = []
    for j in range(n):
        f1 = flags.setdefault("a%d.g1" % j, z3.BitVec("inf_a%d_g1" % j, 8))
        f2 = flags.setdefault("a%d.g2" % j, z3.BitVec("inf_a%d_g2" % j, 8))
        g1 = miller.g1_obj("P_a%d" % j, f1)
        g2 = miller.g2_obj("Q_a%d" % j, f2)
        base = j * (16 + G2_SIZE)
        I.store_cell(aff, base, 8, Ptr(g1, 0))
        I.store_cell(aff, base + 8, 8, Ptr(g2, 0))
        desc.append(("Q_a%d" % j, "P_a%d" % j, "a%d.g1" % j, "a%d.g2" % j))
    for j in range(m):
        f1 = flags.setdefault("p%d.g1" % j, z3.BitVec("inf_p%d_g1" % j, 8))
        f2 = flags.setdefault("p%d.g2" % j, z3.BitVec("inf_p%d_g2" % j, 8))
        g1 = miller.g1_obj("P_p%d" % j, f1)
        g2 = miller.prepared_obj("Q_p%d" % j, f2)
        base = j * 24
        I.store_cell(pre, base, 8, Ptr(g1, 0))
        I.store_cell(pre, base + 8, 8, Ptr(g2, 0))
        I.store_cell(pre, base + 16, 8, z3.BitVec("garbage_idx%d" % j, 64))        # stale private cursor
        desc.append(("Q_p%d" % j, "P_p%d" % j, "p%d.g1" % j, "p%d.g2" % j))
    return aff, pre, desc


def check_acc(I, path, acc, desc, flags, key, what):
    vals = miller.finite_assignments(path.pc, flags, I.solver)
    finite = []
    for (qid, pid, f1, f2) in desc:
        v1, v2 = vals[f1], vals[f2]
        if v1 is False and v2 is False:
            finite.append((qid, pid))
        elif v1 is None and v2 is None:
            raise Violation(key + ":flags-untested", "%s: the identity flags of pair %s were never examined" % (what, qid), {"pair": qid})
    want = miller.expected_map(finite)
    if not isinstance(acc, Acc):
        raise Violation(key + ":no-result", "%s: no Miller value was produced" % what, {})
    if acc.e != want:
        missing = [str(k) for k in want if acc.e.get(k) != want[k]][:4]
        extra = [str(k) for k in acc.e if k not in want][:4]
        raise Violation(key + ":miller-value", "%s: the Miller value is not the product of the single-pair values of the finite pairs %r (flags %r): "
                        "wrong/missing factors %s, unexpected factors %s" % (what, finite, {k: v for k, v in vals.items()}, missing, extra),
                        {"finite_pairs": finite, "flags": {k: v for k, v in vals.items()}})
    ref = reference_conjugation()
    if finite and acc.conj != ref:
        raise Violation(key + ":conjugation", "%s: the Miller value is %sconjugated, that of the single plain pairing miller_loop(G1Affine, G2Affine) is %s"
                        % (what, "" if acc.conj else "not ", "conjugated" if ref else "not"), {})
    return len(finite)


_REF = {}


def reference_conjugation():
    """whether the single plain pairing (the reference every other form must agree with) conjugates its Miller value; C01 decides that it must
    (x is negative), C08 only needs every form to do the same"""
    if "conj" not in _REF:
        P = miller.prog()
        I = eir.Interp(P)
        miller.install(I)
        fname = P.find1(B + r"miller_loop\(" + B + r"Fq12&, " + B + r"G1Affine const&, " + B + r"G2Affine const&\)")
        res = Obj("result", 576, "arg", 16)
        I.call_named(fname, [Ptr(res, 0), Ptr(miller.g1_obj("P", 0), 0), Ptr(miller.g2_obj("Q", 0), 0)])
        c = res.cells.get(0)
        if c is None or not isinstance(c[1], Acc):
            raise Inconclusive("the single plain pairing produced no Miller value")
        _REF["conj"] = c[1].conj
    return _REF["conj"]


def ob_multi(n, m):
    P = miller.prog()
    I = eir.Interp(P)
    miller.install(I)
    fname = P.find1(B + r"miller_loop\(" + B + r"Fq12&, " + B + r"AffinePair\*, unsigned long, " + B + r"PreparedPair\*, unsigned long\)")
    flags = {}
    key = "miller_loop:n=%d:m=%d" % (n, m)

    def once():
        flags.clear()
        aff, pre, desc = build_pairs(I, n, m, flags)
        I.assumptions = [z3.ULE(v, 1) for v in flags.values()]
        res = Obj("result", 576, "arg", 16)
        I.call_named(fname, [Ptr(res, 0), Ptr(aff, 0) if aff else eir.NULL, n, Ptr(pre, 0) if pre else eir.NULL, m])
        c = res.cells.get(0)
        return (c[1] if c else None), desc, pre
    npaths = 0
    for path, (acc, desc, pre) in I.explore(once, 1 << 14):
        npaths += 1
        check_acc(I, path, acc, desc, flags, key, "miller_loop with %d affine and %d prepared pairs" % (n, m))
    if npaths < 2 ** (1 if n + m else 0):
        raise Inconclusive("too few paths")
    return {"queries": npaths * 2 * max(len(flags), 1), "paths": npaths, "functions": [P.demangled[fname][:110]],
            "sample": "%d paths over the identity flags of %d+%d pairs" % (npaths, n, m)}


def ob_single(prepared):
    P = miller.prog()
    I = eir.Interp(P)
    miller.install(I)
    fname = P.find1(B + r"miller_loop\(" + B + r"Fq12&, " + B + r"G1Affine const&, " + B + (r"G2Prepared" if prepared else r"G2Affine") + r" const&\)")
    flags = {}

    def once():
        flags.clear()
        f1 = flags.setdefault("g1", z3.BitVec("inf_g1", 8))
        f2 = flags.setdefault("g2", z3.BitVec("inf_g2", 8))
        I.assumptions = [z3.ULE(f1, 1), z3.ULE(f2, 1)]
        g1 = miller.g1_obj("P", f1)
        g2 = miller.prepared_obj("Q", f2) if prepared else miller.g2_obj("Q", f2)
        res = Obj("result", 576, "arg", 16)
        I.call_named(fname, [Ptr(res, 0), Ptr(g1, 0), Ptr(g2, 0)])
        c = res.cells.get(0)
        return c[1] if c else None
    n = 0
    for path, acc in I.explore(once, 64):
        n += 1
        check_acc(I, path, acc, [("Q", "P", "g1", "g2")], flags, "miller_loop:single:%s" % ("prepared" if prepared else "affine"),
                  "miller_loop(G1Affine, %s)" % ("G2Prepared" if prepared else "G2Affine"))
    return {"queries": 4 * n, "paths": n, "functions": [P.demangled[fname][:110]], "sample": "%d paths" % n}


def ob_prepare():
    P = miller.prog()
    I = eir.Interp(P)
    miller.install(I)
    fname = P.find1(B + r"G2Prepared::prepare\(.*\)")
    inf = z3.BitVec("inf", 8)
    I.assumptions = [z3.ULE(inf, 1)]

    def once():
        g2 = miller.g2_obj("Q", inf)
        out = Obj("prepared", NUM_COEFFS * TRIPLE + 16, "arg", 16)
        I.call_named(fname, [Ptr(out, 0), Ptr(g2, 0)])
        return out
    steps, _ = miller.textbook_steps()
    if len(steps) != NUM_COEFFS:
        raise Violation("prepare:num-coeffs", "the textbook loop has %d line evaluations, the C header reserves %d" % (len(steps), NUM_COEFFS), {})
    n = 0
    for path, out in I.explore(once, 8):
        n += 1
        for k, (kind, m) in enumerate(steps):
            c = out.cells.get(k * TRIPLE)
            if c is None or not isinstance(c[1], Line) or c[1].key() != (kind, "Q", m):
                raise Violation("prepare:coefficient-%d" % k, "G2Prepared::prepare: coefficient %d is %r, the loop expects the %s step at [%d]Q" % (k, c[1] if c else None, kind, m), {"k": k})
        fl = out.cells.get(NUM_COEFFS * TRIPLE)
        s = z3.Solver()
        for c in list(I.assumptions) + list(path.pc):
            s.add(c)
        s.add(eir.as_bv(fl[1], 8) != inf)
        if fl is None or s.check() != z3.unsat:
            raise Violation("prepare:infinity", "G2Prepared::prepare does not record the identity flag of its argument", {})
    return {"queries": n, "paths": n, "functions": [P.demangled[fname][:80]], "sample": "68 coefficient triples in textbook order, highest index 67"}


def ob_wrappers():
    """pairing<G2Affine>, pairing<G2Prepared>, pairing_product: miller_loop then final_exponentiation(result, result), same arguments"""
    P = miller.prog()
    names = {"pairing<G2Affine>": r"void " + B + r"pairing<" + B + r"G2Affine>\(.*\)", "pairing<G2Prepared>": r"void " + B + r"pairing<" + B + r"G2Prepared>\(.*\)",
             "pairing_product": B + r"pairing_product\(.*\)"}
    fns = []
    for label, rx in names.items():
        cands = [n for n in P.find(rx) if not P.fn[n].is_decl]
        if not cands:
            # inline templates that pairing.cpp itself does not instantiate are emitted by their users (api.cpp, bls12_381.cpp): fetch one
            from engine import build
            P2 = build.load_program("A", files=["src/bls12_381/bls12_381.cpp"], tag="c08_wr")
            cands = [n for n in P2.find(rx) if not P2.fn[n].is_decl]
            prog2 = P2
        else:
            prog2 = P
        if len(cands) != 1:
            raise Inconclusive("%s: %d definitions" % (label, len(cands)))
        I = eir.Interp(prog2)
        calls = []

        def rec(I_, name, args, site, calls=calls):
            calls.append((I_.prog.demangled[name], list(args)))
        I.add_intercept(B + r"miller_loop\(.*\)", rec, "miller_loop")
        I.add_intercept(B + r"final_exponentiation\(.*\)", rec, "final_exponentiation")
        nargs = len(prog2.fn[cands[0]].params)
        args = [Ptr(Obj("arg%d" % i, 1 << 16, "arg", 16), 0) for i in range(nargs)]
        if label == "pairing_product":
            args[2] = z3.BitVec("n", 64)
            args[4] = z3.BitVec("m", 64)
        I.call_function(prog2.fn[cands[0]], list(args))
        fns.append(prog2.demangled[cands[0]][:100])

        def same(x, y):
            return x is y or (isinstance(x, Ptr) and isinstance(y, Ptr) and x.obj is y.obj and x.off == y.off)
        ok = (len(calls) == 2 and "miller_loop" in calls[0][0] and "final_exponentiation" in calls[1][0] and len(calls[0][1]) == nargs
              and all(same(x, y) for x, y in zip(calls[0][1], args)) and same(calls[1][1][0], args[0]) and same(calls[1][1][1], args[0]))
        if not ok:
            raise Violation("wrapper:" + label, "%s is not miller_loop(args...) followed by final_exponentiation(result, result): %r" % (label, [c[0][:60] for c in calls]), {})
    return {"queries": 3, "paths": 3, "functions": fns, "sample": "miller_loop then final_exponentiation in place"}


def register(chk):
    lim = 2 if chk.tier == "quick" else 3
    for n in range(lim + 1):
        for m in range(lim + 1):
            chk.add("miller_loop:n=%d:m=%d" % (n, m), ob_multi, n, m)
    chk.add("miller_loop:single:affine", ob_single, False)
    chk.add("miller_loop:single:prepared", ob_single, True)
    chk.add("prepare", ob_prepare)
    chk.add("wrappers", ob_wrappers)


def include_in(chk):
    """this check's obligations registered inside a check of a layer above (framework.Check.include)"""
    miller.prog()
    register(chk)


def main(argv=None):
    chk = Check("C08", "proof", argv)
    miller.prog()
    register(chk)
    chk.explanation = __doc__.strip()
    chk.bounds = ["list lengths n (affine) and m (prepared) in {0,1,2} (quick) / {0..3} (thorough), every combination of identity flags (symbolic), stale cursors symbolic",
                  "the 63-step loop over the bits of |x| is executed in full (concrete trip count); longer lists: the per-pair loops are uniform in the pair index (not proved by induction here)"]
    chk.trusted = ["step kernels / line evaluation meet their specification (C01.1)", "final exponentiation is a homomorphism (C01.3)", "T8"]
    # lower layers whose specifications this check relies on: their obligations are part of this check's claim (framework.Check.include)
    for dep in ['C02', 'C03', 'C04', 'C01', 'C19', 'C20']:
        chk.include(dep)
    chk.run()
    chk.finish()


if __name__ == "__main__":
    main()
