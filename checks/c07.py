"""C07 - target-group exponentiation and group operations are exact (DESIGN.md section 5, C07).

 decompose     PowersOfX::decompose over affine integer words (QF_LIA; the 128-by-64-bit divisions by |x| are quotient/remainder variables):
               for every 256-bit y:  c0 + c1|x| + c2|x|^2 + c3|x|^3 = y (y < r) resp. y - r (y >= r), every c_i < 2^64 (the words of the last
               quotient that the code drops are provably zero); hence the digits recombine to y modulo r.
 powers        the four bases t_j of exponentiate_gt: executed over exponents modulo r (frobenius_map(a, k) = a^(q^k), q = x mod r on GT: T7;
               conjugate = inverse on unitary elements): t_j = a^(|x|^j).
 loop          the 64-iteration loop of exponentiate_gt is cut at its header; from an arbitrary state (index i, accumulator a^E, flag found_one
               with the invariant  not found_one => E = 0) with the four scalar bits of position i symbolic, one iteration gives
               E' = 2E + sum_j bit_j |x|^j (the skipped squaring is harmless exactly because of the invariant), reads bit position i of c_j,
               decrements i; by induction the result is a^(sum_j c_j |x|^j).
 composition   exponentiate_gt(BigInt<256>) = exponentiate_gt_div = decompose then exponentiate_gt with that scalar; random_gt = PowersOfX::random
               then exponentiate_gt with the sampled scalar (so the returned y and the element are consistent; y uniform in [0,r): C10).
 a^2, a^-1     square_cyclotomic and conjugate against square / inverse on the cyclotomic subgroup: see C04 (not repeated here).
"""
import sys
import os
sys.path.insert(0, os.path.dirname(os.path.dirname(os.path.abspath(__file__))))
sys.path.insert(0, os.path.dirname(os.path.abspath(__file__)))

import z3
from engine import build, eir, eir_lin, loopcut
from engine.dom_lin import LinCtx, LV
from engine.eir import Ptr, Obj, is_conc, ExecError, MemViolation
from engine.framework import Check, Violation, Inconclusive

B = "embedded_pairing::bls12_381::"
CORE = "embedded_pairing::core::"
R_ORDER = 0x73eda753299d7d483339d80809a1d80553bda402fffe5bfeffffffff00000001
Q = 0x1a0111ea397fe69a4b1ba7b6434bacd764774b84f38512bf6730d2a0f6b0f6241eabfffeb153ffffb9feffffffffaaab
X = 0xd201000000010000
_PROG = {}


def prog():
    if "p" not in _PROG:
        _PROG["p"] = build.load_program("A", files=["src/bls12_381/decomposition.cpp", "src/bls12_381/fr.cpp", "src/bls12_381/fq12_cyclotomic.cpp",
                                                    # explicit instantiation of the division-free variant (no code of its own)
                                                    os.path.join(os.path.dirname(os.path.dirname(os.path.abspath(__file__))), "harness", "inst_gt.cpp")], tag="c07")
    return _PROG["p"]


# ---------------------------------------------------------------------------------------------------------------
def ob_decompose(cfg="A"):
    P = prog() if cfg == "A" else build.load_program(cfg, files=["src/bls12_381/decomposition.cpp", "src/bls12_381/fr.cpp"], tag="c07_" + cfg)
    L = LinCtx(120000)
    I = eir_lin.LinInterp(P, L)
    fname = P.find1(B + r"PowersOfX::decompose\(.*\)")
    ys = [L.var("y%d" % i, 64) for i in range(4)]
    Y = L.const(0)
    for i, w in enumerate(ys):
        Y = L.add(Y, L.scale(w, 1 << (64 * i)))
    zY = L.z(Y)
    dropped = []

    # BigInt<256>::compare / subtract on affine words by their integer specifications (C02)
    def words_of(p, n=4):
        return [I.load_bytes(p.obj, p.off + 8 * i, 8) for i in range(n)]

    def val(ws):
        t = L.const(0)
        for i, w in enumerate(ws):
            t = L.add(t, L.scale(I.lv(w), 1 << (64 * i)))
        return t

    def h_cmp(I_, name, args, site):
        a, b = val(words_of(args[0])), val(words_of(args[1]))
        za, zb = L.z(a), L.z(b)
        lt = eir_lin.LinCond(za < zb)
        if I_.branch(lt):
            return 0xffffffff
        return 0 if I_.branch(eir_lin.LinCond(za == zb)) else 1

    def h_sub(I_, name, args, site):
        a, b = val(words_of(args[1])), val(words_of(args[2]))
        d = L.sub(a, b)
        ws = [L.var("d%d_%d" % (len(L.names), i), 64) for i in range(4)]
        if L.prove(z3.Implies(z3.And(*I_.lin_pc) if I_.lin_pc else z3.BoolVal(True), L.z(d) >= 0), "no borrow in y - r on this path"):
            L.solver.add(L.z(val(ws)) == L.z(d))
            bw = 0
        else:
            # the subtraction may borrow on this path (e.g. a range test that does not imply y >= r): exact wrap-around semantics of BigInt::subtract
            bq = L.var("borrow%d" % len(L.names), 1)
            L.solver.add(L.z(val(ws)) == L.z(d) + (1 << 256) * L.z(bq), (L.z(bq) == 1) == (L.z(d) < 0))
            bw = bq
        for i, w in enumerate(ws):
            I_.store_cell(args[0].obj, args[0].off + 8 * i, 8, w)
        return bw
    I.add_intercept(CORE + r"BigInt<256>::compare\(.*\)", h_cmp, "BigInt<256>::compare")
    I.add_intercept(CORE + r"BigInt<256>::subtract\(.*\)", h_sub, "BigInt<256>::subtract")

    def once():
        yo = Obj("y", 32, "arg", 16, True)
        for i in range(4):
            yo.cells[8 * i] = (8, ys[i])
        px = Obj("px", 64, "arg", 16)
        I.call_named(fname, [Ptr(px, 0), Ptr(yo, 0)])
        return [I.load_bytes(px, 16 * i, 8) for i in range(4)]
    n = 0
    for path, cs in I.explore(once, 64):
        n += 1
        pc = list(I.lin_pc)
        tot = L.const(0)
        for i, c in enumerate(cs):
            tot = L.add(tot, L.scale(I.lv(c), X ** i))
        zt = L.z(tot)
        # the property asks for congruence modulo r (y < 2^256 < 3r: the difference is 0, r or 2r), not for a particular representative
        goal = z3.And(z3.Or(zt == zY, zt == zY - R_ORDER, zt == zY - 2 * R_ORDER),
                      *[z3.And(L.z(I.lv(c)) >= 0, L.z(I.lv(c)) < (1 << 64)) for c in cs])
        vc = z3.Implies(z3.And(*pc) if pc else z3.BoolVal(True), goal)
        ok = L.prove(vc, "decompose")
        if ok is None:
            raise Inconclusive("solver unknown on the decomposition identity")
        if not ok:
            env = L.model_for(z3.Not(vc)) or {}
            yv = sum(env.get("y%d" % i, 0) << (64 * i) for i in range(4))
            raise Violation("decompose:%s" % cfg, "PowersOfX::decompose: the digits do not recombine to y (mod r) or a digit exceeds 64 bits",
                            {"y": hex(yv), "backend": cfg})
    if n < 2:
        raise Inconclusive("decompose explored %d paths" % n)
    return {"queries": L.queries, "solver_s": L.solver_time, "paths": n, "functions": [P.demangled[fname][:80]],
            "sample": "%d paths (y < r / y >= r); 12 word divisions by |x| as quotient/remainder variables" % n}


# ---------------------------------------------------------------------------------------------------------------
class Pow:
    """target-group element a^e: e is a python int (mod r) or a z3 Int term"""
    __slots__ = ("e",)

    def __init__(self, e):
        self.e = e


def install_gt(I, record):
    def rd(p):
        c = p.obj.cells.get(p.off)
        if c is not None and isinstance(c[1], Pow):
            return c[1].e
        if p.obj.name.endswith("Fq123oneE"):
            return 0
        if I.unwritten(p.obj, p.off, 576):
            raise MemViolation("uninit", "read of an uninitialised target-group element at %r" % (p,))
        raise ExecError("abstract-bytes", "target-group element expected at %r" % (p,))

    def wr(p, e):
        I._check_access(p, 576, 1, True)
        I.store_cell(p.obj, p.off, 576, Pow(e % R_ORDER if isinstance(e, int) else e))
    I.gt_rd, I.gt_wr = rd, wr

    def h_frob(I_, n, a, s):
        if not is_conc(a[2]):
            raise ExecError("unsupported", "symbolic Frobenius power")
        wr(a[0], rd(a[1]) * pow(Q, a[2], R_ORDER))
    I.add_intercept(B + r"Fq12::frobenius_map\(.*\)", h_frob, "frobenius_map")
    I.add_intercept(B + r"Fq12::conjugate\(.*\)", lambda I_, n, a, s: wr(a[0], -rd(a[1])), "conjugate")
    I.add_intercept(B + r"Fq12::copy\(.*\)", lambda I_, n, a, s: wr(a[0], rd(a[1])), "copy")
    I.add_intercept(B + r"Fq12::square_cyclotomic\(.*\)", lambda I_, n, a, s: (record.append(("square",)), wr(a[0], 2 * rd(a[1])))[1], "square_cyclotomic")
    I.add_intercept(B + r"Fq12::multiply\(.*Fq12 const&, .*Fq12 const&\)", lambda I_, n, a, s: (record.append(("multiply",)), wr(a[0], rd(a[1]) + rd(a[2])))[1], "multiply")


def ob_gt_loop(alias=False):
    """alias: the output object is the base object (x.exponentiate_gt(x, s)); the accumulator then overwrites the base, which the loop must not read"""
    P = prog()
    fname = P.find1(B + r"Fq12::exponentiate_gt\(" + B + r"Fq12 const&, " + B + r"PowersOfX const&\)")
    I = eir.Interp(P)
    rec = []
    install_gt(I, rec)
    cut = loopcut.Cutter(I, fname, header=loopcut.find_header(P.fn[fname], "square_cyclotomic"))
    phis = loopcut.header_phis(cut.fn, cut.header)
    lay = P.layout(cut.fn.module)
    iphi = [p for p in phis if lay.resolve(p.ty).bits == 32]
    bphi = [p for p in phis if lay.resolve(p.ty).bits in (1, 8)]
    # the index, and optionally the found_one flag (a variant that always squares has none: squaring one is harmless)
    if len(iphi) != 1 or len(bphi) > 1 or len(phis) != 1 + len(bphi):
        raise Inconclusive("unexpected loop-carried registers in exponentiate_gt: %r" % [(p.res, p.ty) for p in phis])
    has_flag = len(bphi) == 1
    E = z3.Int("E")
    Iv = z3.BitVec("i", 32)
    found = z3.Bool("found_one")
    bits = {}
    I.assumptions = [z3.ULE(Iv, 63), z3.Implies(z3.Not(found), E == 0)]
    state = {}

    def h_bit(I_, name, args, site):
        j = None
        base = state["scalar"]
        if args[0].obj is base and is_conc(args[0].off) and args[0].off % 16 == 0:
            j = args[0].off // 16
        if j is None:
            raise Violation("gt-loop:bit-source", "exponentiate_gt reads a bit of something that is not a digit of the scalar", {})
        pos = args[1]
        b = bits.setdefault(j, z3.Bool("bit%d" % j))
        state.setdefault("bitpos", []).append((j, pos))
        return b
    I.add_intercept(CORE + r"BigInt<64>::bit\(int\) const", h_bit, "BigInt<64>::bit")

    def on_entry(regs):
        state["entry"] = (regs[iphi[0].res], regs[bphi[0].res] if has_flag else 0, I.gt_rd(Ptr(state["this"], 0)))
        state["t"] = None

    def havoc(regs):
        regs[iphi[0].res] = Iv
        if has_flag:
            regs[bphi[0].res] = found if lay.resolve(bphi[0].ty).bits == 1 else z3.If(found, z3.BitVecVal(1, 8), z3.BitVecVal(0, 8))
        I.gt_wr(Ptr(state["this"], 0), E)
    cut.on_entry, cut.havoc = on_entry, havoc

    def once():
        cut.reset()
        del rec[:]
        state.clear()
        bits.clear()
        this = Obj("this", 576, "arg", 16)
        a = this if alias else Obj("a", 576, "arg", 16, True)
        a.cells[0] = (576, Pow(1))
        sc = Obj("scalar", 64, "arg", 16, True)
        state["this"], state["scalar"] = this, sc
        try:
            I.call_named(fname, [Ptr(this, 0), Ptr(a, 0), Ptr(sc, 0)])
            return "exit", None
        except eir.LoopCut as lc:
            return "cut", lc.regs
    nq = 0
    npaths = 0
    saw_exit = saw_cut = False
    for path, (kind, regs) in I.explore(once, 4096):
        npaths += 1
        # prologue facts (concrete): entry state and the four bases
        ei, ef, ee = state["entry"]
        if not (is_conc(ei) and ei == 63 and is_conc(ef) and ef == 0 and ee == 0):
            raise Violation("gt-loop:entry", "exponentiate_gt enters its loop with (i, found_one, acc) = (%r, %r, %r), expected (63, false, one)" % (ei, ef, ee), {})
        En = I.gt_rd(Ptr(state["this"], 0))
        En = z3.IntVal(En) if isinstance(En, int) else En
        want = 2 * E + z3.Sum([z3.If(bits[j], X ** j, 0) for j in sorted(bits)] + [z3.IntVal(0)])
        pc = list(I.assumptions) + list(path.pc)
        s = z3.Solver()
        s.set("timeout", 60000)
        for c in pc:
            s.add(c)
        vcs = [("accumulate", (En - want) % R_ORDER == 0, "one iteration does not give E' = 2E + sum bit_j |x|^j")]
        if sorted(bits) != [0, 1, 2, 3]:
            raise Violation("gt-loop:digits", "the iteration examines digits %r of the scalar, expected all four" % sorted(bits), {})
        for (j, pos) in state.get("bitpos", []):
            vcs.append(("bit-position", eir.as_bv(pos, 32) == Iv, "digit %d is tested at a position other than the loop index" % j))
        if kind == "cut":
            saw_cut = True
            ni = regs[iphi[0].res]
            vcs.append(("index", eir.as_bv(ni, 32) == Iv - 1, "loop index is not decremented"))
            if has_flag:
                nf = regs[bphi[0].res]
                nfb = nf if isinstance(nf, z3.BoolRef) else (z3.BoolVal(bool(nf)) if is_conc(nf) else nf != 0)
                vcs.append(("flag", nfb == z3.Or(found, *[bits[j] for j in bits]), "found_one is not (found_one or some bit)"))
                vcs.append(("invariant", z3.Implies(z3.Not(nfb), En == 0), "invariant not preserved"))
            vcs.append(("continues", Iv != 0, "loop continues after index 0"))
        else:
            saw_exit = True
            vcs.append(("exit", Iv == 0, "loop left before index 0"))
        for nm, vc, msg in vcs:
            s.push()
            s.add(z3.Not(vc))
            r = s.check()
            nq += 1
            s.pop()
            if r == z3.unknown:
                raise Inconclusive("solver unknown on " + nm)
            if r == z3.sat:
                m = s.model()
                raise Violation("gt-loop:" + nm, "Fq12::exponentiate_gt, one loop iteration: " + msg,
                                {"i": m.eval(Iv, model_completion=True).as_long(), "bits": {str(j): str(m.eval(bits[j], model_completion=True)) for j in bits}})
    if not (saw_exit and saw_cut):
        raise Inconclusive("loop cut did not see both a continuing and an exiting iteration")
    return {"queries": nq, "paths": npaths, "functions": [P.demangled[fname][:100]], "sample": "one inductive step, %d paths over (found_one, 4 bits, i == 0)" % npaths}


def ob_gt_concrete(alias=False):
    """whole runs of exponentiate_gt for particular digit vectors (the loop executed for its 64 iterations in the exponent model, no cut): the zero
    exponent (the base case the inductive step says nothing about when a variant skips the initialisation of the accumulator), single digits, maximal
    digits |x|-1, and a few seeded ones.  The result object must hold a^(sum c_j |x|^j) afterwards - in particular it must have been written."""
    import random
    P = prog()
    fname = P.find1(B + r"Fq12::exponentiate_gt\(" + B + r"Fq12 const&, " + B + r"PowersOfX const&\)")
    rng = random.Random(7)
    vecs = [(0, 0, 0, 0), (1, 0, 0, 0), (0, 1, 0, 0), (0, 0, 1, 0), (0, 0, 0, 1), (X - 1,) * 4, (1 << 63, 0, 0, 1 << 63)] + [tuple(rng.randrange(X) for _ in range(4)) for _ in range(3)]
    for c in vecs:
        I = eir.Interp(P)
        install_gt(I, [])
        this = Obj("this", 576, "arg", 16)
        a = this if alias else Obj("a", 576, "arg", 16, True)
        a.cells[0] = (576, Pow(1))
        sc = Obj("scalar", 64, "arg", 16, True)

        def h_bit(I_, name, args, site, c=c):
            if args[0].obj is not sc or not is_conc(args[0].off) or args[0].off % 16 != 0 or not is_conc(args[1]):
                raise ExecError("unsupported", "bit test outside the digit vector")
            pos = args[1] if args[1] < (1 << 31) else args[1] - (1 << 32)
            return int(0 <= pos < 64 and (c[args[0].off // 16] >> pos) & 1)
        I.add_intercept(CORE + r"BigInt<64>::bit\(int\) const", h_bit, "BigInt<64>::bit")
        I.call_named(fname, [Ptr(this, 0), Ptr(a, 0), Ptr(sc, 0)])
        want = sum(cj * X ** j for j, cj in enumerate(c)) % R_ORDER
        cell = this.cells.get(0)
        key = "gt-concrete:%s" % ("zero" if not any(c) else "digits")
        ce = {"digits": [hex(x) for x in c], "alias": alias}
        if alias and not any(c) and cell is not None and isinstance(cell[1], Pow) and cell[1].e == 1:
            raise Violation(key, "exponentiate_gt leaves its result object untouched for the zero exponent (it still holds the base)", ce)
        if cell is None or not isinstance(cell[1], Pow):
            raise Violation(key, "exponentiate_gt does not write its result for the digits %r (the result object keeps its previous contents)" % (c,), ce)
        if cell[1].e % R_ORDER != want:
            raise Violation(key, "exponentiate_gt returns a^%#x for the digits %r, expected a^%#x" % (cell[1].e % R_ORDER, c, want), ce)
    return {"queries": len(vecs), "paths": len(vecs), "functions": [P.demangled[fname][:100]],
            "sample": "%d whole runs (zero, unit, maximal and seeded digit vectors): result written and equal to a^(sum c_j |x|^j)" % len(vecs)}


def ob_gt_nodiv(alias=False):
    """the division-free variant Fq12::exponentiate_gt_nodiv<BigInt<256>> (plain square-and-multiply over all 256 bits with cyclotomic squaring):
    whole runs in the exponent model for boundary and seeded exponents - 0, 1, 2, r-1, r, r+1, 2^255, 2^256-1, single high bits - with the result
    object distinct from the base or the base itself; the result must be a^(k mod r) and must have been written"""
    import random
    P = prog()
    fname = P.find1(r"void " + B + r"Fq12::exponentiate_gt_nodiv<" + CORE + r"BigInt<256> ?>\(.*\)")
    rng = random.Random(11)
    ks = [0, 1, 2, 3, R_ORDER - 1, R_ORDER, R_ORDER + 1, 2 * R_ORDER, 1 << 255, (1 << 256) - 1, 1 << 64, (1 << 128) + 1] + [rng.getrandbits(256) for _ in range(4)] + [rng.getrandbits(20)]
    for k in ks:
        I = eir.Interp(P)
        install_gt(I, [])
        this = Obj("this", 576, "arg", 16)
        a = this if alias else Obj("a", 576, "arg", 16, True)
        a.cells[0] = (576, Pow(1))
        sc = Obj("power", 32, "arg", 16, True)

        def h_bit(I_, name, args, site, k=k):
            if args[0].obj is not sc or not is_conc(args[1]):
                raise ExecError("unsupported", "bit test outside the exponent")
            pos = args[1] if args[1] < (1 << 31) else args[1] - (1 << 32)
            return int(0 <= pos < 256 and (k >> pos) & 1)
        I.add_intercept(CORE + r"BigInt<256>::bit\(int\) const", h_bit, "BigInt<256>::bit")
        ce = {"exponent": hex(k), "alias": alias}
        key = "gt-nodiv:%s" % ("zero" if k == 0 else "exponent")
        try:
            I.call_named(fname, [Ptr(this, 0), Ptr(a, 0), Ptr(sc, 0)])
        except MemViolation as e:
            raise Violation(key + ":" + e.kind, "exponentiate_gt_nodiv for the exponent %#x: %s" % (k, e), ce)
        cell = this.cells.get(0)
        if cell is None or not isinstance(cell[1], Pow):
            raise Violation(key, "exponentiate_gt_nodiv does not write its result for the exponent %#x" % k, ce)
        if cell[1].e % R_ORDER != k % R_ORDER:
            raise Violation(key, "exponentiate_gt_nodiv returns a^%#x for the exponent %#x (expected a^(k mod r) = a^%#x)" % (cell[1].e % R_ORDER, k, k % R_ORDER), ce)
    return {"queries": len(ks), "paths": len(ks), "functions": [P.demangled[fname][:110]],
            "sample": "%d whole runs (0, 1, r-1, r, r+1, 2r, 2^255, 2^256-1, seeded): result = a^(k mod r)%s" % (len(ks), ", result object == base" if alias else "")}


def ob_gt_bases(alias=False):
    """the prologue: t[j] = a^(|x|^j) (exponents modulo r), read at the first arrival at the loop header"""
    P = prog()
    fname = P.find1(B + r"Fq12::exponentiate_gt\(" + B + r"Fq12 const&, " + B + r"PowersOfX const&\)")
    I = eir.Interp(P)
    rec = []
    install_gt(I, rec)
    cut = loopcut.Cutter(I, fname, header=loopcut.find_header(P.fn[fname], "square_cyclotomic"))
    seen = {}

    def on_entry(regs):
        # the table t[4] is the only 4*576-byte alloca
        for v in regs.values():
            if isinstance(v, Ptr) and v.obj is not None and v.obj.kind == "alloca" and v.obj.size == 4 * 576:
                seen["t"] = [I.gt_rd(Ptr(v.obj, 576 * j)) for j in range(4)]
        raise eir.LoopCut(cut.fn, cut.header, None, regs)
    cut.on_entry = on_entry
    this = Obj("this", 576, "arg", 16)
    a = this if alias else Obj("a", 576, "arg", 16, True)
    a.cells[0] = (576, Pow(1))
    sc = Obj("scalar", 64, "arg", 16, True)
    try:
        I.call_named(fname, [Ptr(this, 0), Ptr(a, 0), Ptr(sc, 0)])
    except eir.LoopCut:
        pass
    if "t" not in seen:
        raise Inconclusive("table of bases not found")
    if (Q - (-X)) % R_ORDER != 0:
        raise Violation("gt-bases:ground", "q is not congruent to x modulo r", {})
    for j, e in enumerate(seen["t"]):
        if e % R_ORDER != pow(X, j, R_ORDER):
            raise Violation("gt-bases:t%d" % j, "base %d of exponentiate_gt is a^%#x, expected a^(|x|^%d)" % (j, e % R_ORDER, j), {"j": j})
    return {"queries": 5, "paths": 1, "functions": [P.demangled[fname][:100]], "sample": "t_j = a^(|x|^j) for j = 0..3; q = x (mod r)"}


def ob_composition():
    P = build.load_program("A", files=["src/bls12_381/fq12_cyclotomic.cpp", "src/bls12_381/bls12_381.cpp"], tag="c07_comp")
    fns = []
    for label, rx, first in (("exponentiate_gt_div", B + r"Fq12::exponentiate_gt_div\(.*\)", "decompose"),
                             ("random_gt", B + r"Fq12::random_gt\(.*\)", "random"),
                             ("exponentiate_gt(BigInt<256>)", B + r"Fq12::exponentiate_gt\(" + B + r"Fq12 const&, " + CORE + r"BigInt<256> const&\)", "exponentiate_gt_div")):
        cands = [n for n in P.find(rx) if not P.fn[n].is_decl]
        if len(cands) != 1:
            raise Inconclusive("%s: %d definitions" % (label, len(cands)))
        I = eir.Interp(P)
        calls = []

        def recd(I_, name, args, site, calls=calls):
            calls.append((I_.prog.demangled[name], list(args)))
        I.add_intercept(B + r"PowersOfX::(decompose|random)\(.*\)", recd, "PowersOfX")
        I.add_intercept(B + r"Fq12::exponentiate_gt(_div)?\(.*\)", recd, "exponentiate_gt")
        nargs = len(P.fn[cands[0]].params)
        args = [Ptr(Obj("arg%d" % i, 4096, "arg", 16), 0) for i in range(nargs)]
        if label == "random_gt":
            args[3] = eir.FnRef("cb")
        I.call_function(P.fn[cands[0]], list(args))
        fns.append(P.demangled[cands[0]][:90])
        key = "composition:" + label

        def same(x, y):
            return x is y or (isinstance(x, Ptr) and isinstance(y, Ptr) and x.obj is y.obj and x.off == y.off)
        if label == "exponentiate_gt(BigInt<256>)":
            ok = len(calls) == 1 and "exponentiate_gt_div" in calls[0][0] and all(same(x, y) for x, y in zip(calls[0][1], args))
        else:
            ok = (len(calls) == 2 and ("::" + first + "(") in calls[0][0] and "exponentiate_gt(" in calls[1][0] and "PowersOfX const&" in calls[1][0])
            if ok:
                scalar = calls[0][1][0]
                ok = same(calls[1][1][2], scalar) and scalar.obj.kind == "alloca" and same(calls[1][1][0], args[0])
                if label == "exponentiate_gt_div":
                    ok = ok and same(calls[0][1][1], args[2]) and same(calls[1][1][1], args[1])
                else:
                    ok = ok and same(calls[0][1][1], args[1]) and same(calls[0][1][2], args[3]) and same(calls[1][1][1], args[2])
        if not ok:
            raise Violation(key, "%s is not the expected composition (calls: %r)" % (label, [c[0][:70] for c in calls]), {})
    return {"queries": 3, "paths": 3, "functions": fns, "sample": "decompose/random then exponentiate_gt with the same scalar object"}


def register(chk):
    chk.add("decompose:A", ob_decompose, "A")
    if chk.tier == "thorough":
        chk.add("decompose:P64", ob_decompose, "P64")
    chk.add("gt-bases", ob_gt_bases)
    chk.add("gt-loop", ob_gt_loop)
    chk.add("gt-concrete-runs", ob_gt_concrete)
    chk.add("gt-nodiv-runs", ob_gt_nodiv)
    chk.add("gt-nodiv-runs:out=a", ob_gt_nodiv, True)
    chk.add("composition", ob_composition)
    import c10_sampling
    chk.add("powersofx-random", c10_sampling.ob_powersofx_random)
    if hasattr(c10_sampling, "ob_powersofx_lemmas"):
        chk.add("powersofx-random:lemmas", c10_sampling.ob_powersofx_lemmas)


def include_in(chk):
    """this check's obligations registered inside a check of a layer above (framework.Check.include)"""
    prog()
    import c10
    c10.prog()
    register(chk)


def main(argv=None):
    chk = Check("C07", "proof", argv)
    prog()
    register(chk)
    chk.explanation = __doc__.strip()
    chk.bounds = ["all exponents k in [0, 2^256) (decompose) and all digit values (loop: the four bits of a position are symbolic, the position is symbolic in [0,63]); "
                  "a ranges over elements of order r (the exponent arithmetic is modulo r)",
                  "the 64-iteration loop is handled by induction (one cut iteration), no unwinding bound",
                  "P32 word configuration of divide_std_dword (bit-serial division) is not covered"]
    chk.trusted = ["T7: a^q = a^x on GT; conjugate = inverse on unitary elements; C04: square_cyclotomic = square on the cyclotomic subgroup, multiply, frobenius_map",
                   "C02: BigInt<256>::compare / subtract", "z3"]
    # lower layers whose specifications this check relies on: their obligations are part of this check's claim (framework.Check.include)
    for dep in ['C02', 'C03', 'C04', 'C18', 'C19', 'C20']:
        chk.include(dep)
    chk.run()
    chk.finish()


if __name__ == "__main__":
    main()
