"""Native replay for C16 / C10: builds /repo's current tree (honours VERIF_REPO) with the Makefile's flags plus harness/replay_lq.cpp."""
import glob
import os
import subprocess
import sys
sys.path.insert(0, os.path.dirname(os.path.dirname(os.path.abspath(__file__))))
from engine import build

VERIF = os.path.dirname(os.path.dirname(os.path.abspath(__file__)))
_built = {}


def build_native():
    repo = build.REPO
    if repo in _built:
        return _built[repo]
    d = build.workdir("native_lq")
    flags = ["-std=c++17", "-I" + os.path.join(repo, "include"), "-Ofast", "-fno-vectorize"]
    procs, objs = [], []
    for s in build.sources(repo, "A") + [os.path.join(VERIF, "harness", "replay_lq.cpp")]:
        o = os.path.join(d, os.path.basename(os.path.dirname(s)) + "_" + os.path.basename(s)[:-4] + ".o")
        procs.append((s, subprocess.Popen(["clang++-14", "-c"] + flags + [s, "-o", o], stderr=subprocess.PIPE, text=True)))
        objs.append(o)
    for s in sorted(glob.glob(os.path.join(repo, "src/core/arch/x86_64/*.s"))):
        o = os.path.join(d, "asm_" + os.path.basename(s)[:-2] + ".o")
        procs.append((s, subprocess.Popen(["as", s, "-o", o], stderr=subprocess.PIPE, text=True)))
        objs.append(o)
    for s, p in procs:
        _, err = p.communicate()
        if p.returncode != 0:
            raise RuntimeError("native build failed on %s:\n%s" % (s, err[-2000:]))
    exe = os.path.join(d, "replay_lq")
    r = subprocess.run(["clang++-14"] + objs + ["-o", exe], capture_output=True, text=True)
    if r.returncode != 0:
        raise RuntimeError("link failed:\n" + r.stderr[-2000:])
    _built[repo] = exe
    return exe


def run(lines, timeout=120):
    exe = build_native()
    r = subprocess.run([exe], input="\n".join(lines) + "\n", capture_output=True, text=True, timeout=timeout)
    if r.returncode != 0:
        raise RuntimeError("replay driver exit %d: %s" % (r.returncode, r.stderr[-500:]))
    return r.stdout.strip().split("\n")


if __name__ == "__main__":
    print("\n".join(run(sys.argv[1:])))
