"""C09 - point encodings round-trip; validating decode accepts only canonical encodings (DESIGN.md section 5, C09).

Encoding<G1Affine|G2Affine, compressed>::encode/decode (four instantiations) are executed from the IR of the current tree with all
48/96/192 bytes symbolic bit-vectors.  Base-field values are canonical integers (384-bit vectors below q); the byte-level field functions are
replaced by their C02/C04 specifications
     read_big_endian(b)  = (int(b) mod 2^381) mod q          write_big_endian(v) = the 48 big-endian bytes of v
     negate(v) = v == 0 ? 0 : q - v                           compare(a, b) = order of M(a), M(b)   (M: the injective internal representation)
and the algebraic ones (square, multiply, add, legendre, square_root, the subgroup test) by uninterpreted functions constrained only by
     sqrt contract   legendre(s) != -1  =>  square(sqrt(s)) = s                         (T5, C02/C04)
     field           square(a) = square(b)  =>  a = b or a = -a'...  (a = b or a = negate(b))   (no zero divisors)
     squares         legendre(square(a)) != -1
     odd order       a point of the order-r subgroup has y != 0
VC1/VC5  decode(encode(P), checked or not) = (true, P) for every P = identity or (x, y) on the curve in the subgroup, both forms
VC3      decode(b, checked) = true  =>  encode(decoded point) = b, for EVERY byte string b      (canonicity)
VC4      decode(b, checked) = true  =>  the decoded point passed the curve and subgroup tests (trace of the path)
"""
import sys
import os
sys.path.insert(0, os.path.dirname(os.path.dirname(os.path.abspath(__file__))))

import z3
from engine import build, eir
from engine.eir import Ptr, Obj, is_conc, ExecError
from engine.framework import Check, Violation, Inconclusive

Q = 0x1a0111ea397fe69a4b1ba7b6434bacd764774b84f38512bf6730d2a0f6b0f6241eabfffeb153ffffb9feffffffffaaab
RINV = pow(1 << 384, -1, Q)
B = "embedded_pairing::bls12_381::"
FP = r"embedded_pairing::core::Fp<384,[^>]*fq_modulus_var[^>]*>"
FQ = r"(?:%s|%sFq)" % (FP, B)
ANY = r"\(.*\)"
_PROG = {}


def prog():
    if "p" not in _PROG:
        _PROG["p"] = build.load_program("A", files=["src/bls12_381/curve.cpp", "src/bls12_381/fq2.cpp", "src/bls12_381/fr.cpp"], tag="c09")
    return _PROG["p"]


class FV:
    """a base-field value: canonical integer as z3 BitVec(384) or python int"""
    __slots__ = ("v",)

    def __init__(self, v):
        self.v = v

    def __repr__(self):
        return "FV(%s)" % (str(self.v)[:40],)


def bv(v, n=384):
    return z3.BitVecVal(v, n) if isinstance(v, int) else v


QV = z3.BitVecVal(Q, 384)


class FieldModel:
    """uninterpreted base-field / extension-field operations and the axiom instances the harness adds"""

    def __init__(self):
        S = z3.BitVecSort(384)
        S2 = z3.BitVecSort(768)
        self.M = z3.Function("M", S, S)                       # internal (Montgomery) representation: injective
        self.uf = {}
        for deg, s in ((1, S), (2, S2)):
            self.uf[deg] = {"sq": z3.Function("sq%d" % deg, s, s), "mul": z3.Function("mul%d" % deg, s, s, s), "add": z3.Function("add%d" % deg, s, s, s),
                            "sqrt": z3.Function("sqrt%d" % deg, s, s), "leg": z3.Function("leg%d" % deg, s, z3.BitVecSort(32)),
                            "insub": z3.Function("insub%d" % deg, s, s, z3.BoolSort())}
        self.axioms = []
        self.seen_sqrt = []
        self.seen_sq = []

    def neg1(self, a):
        a = bv(a)
        return z3.If(a == 0, a, QV - a)

    def neg(self, deg, a):
        if deg == 1:
            return self.neg1(a)
        return z3.Concat(self.neg1(z3.Extract(767, 384, a)), self.neg1(z3.Extract(383, 0, a)))

    def inj(self, a, b):
        self.axioms.append(z3.Implies(bv(a) != bv(b), self.M(bv(a)) != self.M(bv(b))))

    def canon(self, deg, a):
        """a is a tuple of canonical components"""
        if deg == 1:
            return z3.ULT(a, QV)
        return z3.And(z3.ULT(z3.Extract(767, 384, a), QV), z3.ULT(z3.Extract(383, 0, a), QV))


def install(I, F):
    """field-layer intercepts; abstract cells hold FV"""
    def rd1(p):
        I._check_access(p, 48, 1, False)
        c = p.obj.cells.get(p.off)
        if c is not None and c[0] == 48 and isinstance(c[1], FV):
            return c[1].v
        raw = I.load_bytes(p.obj, p.off, 48)
        if is_conc(raw):
            if raw >= Q:
                raise ExecError("spec", "raw field constant is not canonical")
            return raw * RINV % Q
        raise ExecError("abstract-bytes", "field operand with symbolic raw bytes at %r" % (p,))

    def wr1(p, v):
        I._check_access(p, 48, 1, True)
        I.store_cell(p.obj, p.off, 48, FV(v))

    def rd(deg, p):
        if deg == 1:
            return bv(rd1(p))
        return z3.Concat(bv(rd1(Ptr(p.obj, p.off + 48))), bv(rd1(p)))          # (c1 : c0)

    def wr(deg, p, v):
        if deg == 1:
            wr1(p, eir.simp(v) if not isinstance(v, int) else v)
        else:
            wr1(p, eir.simp(z3.Extract(383, 0, v)))
            wr1(Ptr(p.obj, p.off + 48), eir.simp(z3.Extract(767, 384, v)))
    I.frd, I.fwr = rd, wr

    # ---- byte I/O of Fq
    def h_read(I_, name, args, site):
        bs = [eir.as_bv(I_.load_bytes(args[1].obj, args[1].off + i, 1), 8) for i in range(48)] if is_conc(args[1].off) else None
        if bs is None:
            raise ExecError("unsupported", "read_big_endian at symbolic offset")
        val = z3.Concat(*bs)                                   # big-endian: first byte is the most significant
        masked = val & z3.BitVecVal((1 << 381) - 1, 384)
        v = eir.simp(z3.If(z3.UGE(masked, QV), masked - QV, masked))
        # term hygiene: if the value is provably (under the hypotheses and the path condition) one of the harness's named coordinates,
        # continue with that name - keeps the uninterpreted applications syntactically aligned with the hypotheses
        for k in getattr(F, "known", ()):
            if not is_conc(v) and not I_.feasible(v != k):
                v = k
                break
        wr1(args[0], v)

    def h_write(I_, name, args, site):
        v = bv(rd1(args[0]))
        for i in range(48):
            I_.store(Ptr(args[1].obj, args[1].off + i), eir.ir.IntTy(8), eir.simp(z3.Extract(383 - 8 * i, 376 - 8 * i, v)), I_.prog.layout(I_.prog.modules[0]), 1)
    I.add_intercept(B + r"Fq::read_big_endian" + ANY, h_read, "Fq::read_big_endian")
    I.add_intercept(B + r"Fq::write_big_endian" + ANY + " const", h_write, "Fq::write_big_endian")

    # ---- concrete-semantics Fq operations
    def h_neg(I_, name, args, site):
        wr1(args[0], eir.simp(F.neg1(rd1(args[1]))))

    def h_cmp(I_, name, args, site):
        a, b = bv(rd1(args[0])), bv(rd1(args[1]))
        F.inj(a, b)
        return eir.simp(z3.If(a == b, z3.BitVecVal(0, 32), z3.If(z3.ULT(F.M(a), F.M(b)), z3.BitVecVal(0xffffffff, 32), z3.BitVecVal(1, 32))))

    def h_copy(I_, name, args, site):
        wr1(args[0], rd1(args[1]))

    def h_equal(I_, name, args, site):
        return eir.simp(bv(rd1(args[0])) == bv(rd1(args[1])))

    def h_iszero(I_, name, args, site):
        return eir.simp(bv(rd1(args[0])) == 0)
    I.add_intercept(FQ + r"::negate" + ANY, h_neg, "Fq::negate")
    I.add_intercept(B + r"Fq::compare" + ANY, h_cmp, "Fq::compare")
    I.add_intercept(FQ + r"::copy" + ANY, h_copy, "Fq::copy")
    I.add_intercept(FQ + r"::equal" + ANY, h_equal, "Fq::equal")
    I.add_intercept(FQ + r"::is_zero\(\) const", h_iszero, "Fq::is_zero")

    # ---- uninterpreted algebra at the coordinate-field level (Fq for G1, Fq2 for G2)
    for deg, C in ((1, FQ), (2, B + "Fq2")):
        U = F.uf[deg]

        def h_sq(I_, name, args, site, deg=deg, U=U):
            a = rd(deg, args[1])
            r = U["sq"](a)
            F.seen_sq.append((deg, a, r))
            F.axioms.append(U["leg"](r) != z3.BitVecVal(0xffffffff, 32))     # a square is not a non-residue
            wr(deg, args[0], r)

        def h_mul(I_, name, args, site, deg=deg, U=U):
            wr(deg, args[0], U["mul"](rd(deg, args[1]), rd(deg, args[2])))

        def h_add(I_, name, args, site, deg=deg, U=U):
            wr(deg, args[0], U["add"](rd(deg, args[1]), rd(deg, args[2])))

        def h_leg(I_, name, args, site, deg=deg, U=U):
            return U["leg"](rd(deg, args[0]))

        def h_sqrt(I_, name, args, site, deg=deg, U=U):
            s = rd(deg, args[1])
            r = U["sqrt"](s)
            F.seen_sqrt.append((deg, s, r))
            F.seen_sq.append((deg, r, U["sq"](r)))
            F.axioms.append(z3.Implies(U["leg"](s) != z3.BitVecVal(0xffffffff, 32), U["sq"](r) == s))     # T5
            F.axioms.append(F.canon(deg, r))
            F.axioms.append(U["sq"](F.neg(deg, r)) == U["sq"](r))                                         # (-y)^2 = y^2
            wr(deg, args[0], r)
        I.add_intercept(C + r"::square\(" + ".*" + r"\)", h_sq, "F%d::square" % deg)
        I.add_intercept(C + r"::multiply\(" + ".*" + r"\)", h_mul, "F%d::multiply" % deg)
        I.add_intercept(C + r"::add" + ANY, h_add, "F%d::add" % deg)
        I.add_intercept(C + r"::legendre\(\) const", h_leg, "F%d::legendre" % deg)
        I.add_intercept((B + "Fq" if deg == 1 else C) + r"::square_root" + ANY, h_sqrt, "F%d::square_root" % deg)
    I.add_intercept(B + r"Fq2::copy" + ANY, lambda I_, n, a, s: wr(2, a[0], rd(2, a[1])), "Fq2::copy")
    I.add_intercept(B + r"Fq2::equal" + ANY, lambda I_, n, a, s: eir.simp(rd(2, a[0]) == rd(2, a[1])), "Fq2::equal")

    # ---- subgroup test
    for deg, A in ((1, r"g1_b_coeff_var"), (2, r"g2_b_coeff_var")):
        def h_insub(I_, name, args, site, deg=deg):
            sz = 48 * deg
            x, y = rd(deg, args[0]), rd(deg, Ptr(args[0].obj, args[0].off + sz))
            r = F.uf[deg]["insub"](x, y)
            F.axioms.append(z3.Implies(r, y != 0))             # no 2-torsion in a group of odd order
            I_.insub_calls.append((deg, x, y, r))
            return r
        I.add_intercept(B + r"Affine<.*" + A + r">::is_in_correct_subgroup_assuming_on_curve\(\) const", h_insub, "is_in_correct_subgroup")
    I.insub_calls = []

    # ---- any other scalar multiplication used as a membership test: G1/G2::multiply and the Projective multiply_* family on an affine base.
    # Their contract (C06) is [k]P for P in the order-r subgroup; the eigenvalue-accelerated entry points promise nothing outside it, so for a
    # base outside the subgroup "result is the identity" is left unconstrained.  multiply_doubleadd* / multiply_wnaf are [k]P on every curve point.
    R_ORD = 0x73eda753299d7d483339d80809a1d80553bda402fffe5bfeffffffff00000001
    I.weak_calls = []
    I.mul_results = {}

    def h_mul_any(I_, name, args, site):
        d = I_.prog.demangled.get(name, name)
        deg = 2 if ("G2" in d.split("(")[0] or "Fq2" in d.split("(")[0]) else 1
        sz = 48 * deg
        if "Affine" not in d.split("(", 1)[1].split(",")[0]:
            raise ExecError("unsupported", "scalar multiplication of a projective base inside decode: " + d[:80])
        k = I_.load_bytes(args[2].obj, args[2].off, 32)
        if not is_conc(k):
            raise ExecError("unsupported", "scalar multiplication by a symbolic scalar inside decode")
        x, y = rd(deg, args[1]), rd(deg, Ptr(args[1].obj, args[1].off + sz))
        generic = "multiply_doubleadd" in d or "multiply_wnaf" in d
        I_.mul_results[id(args[0].obj)] = (deg, x, y, k, generic, d)
        I_._check_access(args[0], 3 * sz, 1, True)
    I.add_intercept(B + r"(?:G[12]|Projective<.*?>)::multiply(?:_[a-z_]+)?(?:<.*>)?\(.*BigInt<256> const&(?:, int)?\)", h_mul_any, "scalar multiplication in decode")

    def h_proj_is_zero(I_, name, args, site):
        m = I_.mul_results.get(id(args[0].obj))
        if m is None:
            raise ExecError("unsupported", "Projective::is_zero on a value that is not the result of a scalar multiplication")
        deg, x, y, k, generic, d = m
        insub = F.uf[deg]["insub"](x, y)
        F.axioms.append(z3.Implies(insub, y != 0))
        if k % R_ORD == 0 and k != 0:
            if generic and k == R_ORD:
                r = insub                                      # [r]P == O on every curve point: the membership test itself
                I_.insub_calls.append((deg, x, y, r))
                return r
            r = z3.Bool("mul_is_zero_%d" % len(I_.weak_calls))
            F.axioms.append(z3.Implies(insub, r))             # contract on the subgroup only
            I_.weak_calls.append((deg, x, y, r, d))
            return r
        raise ExecError("unsupported", "identity test of [k]P for k not a multiple of r inside decode")
    I.add_intercept(B + r"Projective<.*>::is_zero\(\) const", h_proj_is_zero, "Projective::is_zero")


def field_axioms(F):
    """instances of 'square(a) = square(b) => a = b or a = -b' for every pair of squared terms seen, and injectivity of M on negations"""
    ax = list(F.axioms)
    for (d1, a, ra) in F.seen_sq:
        for (d2, b, rb) in F.seen_sq:
            if d1 == d2 and a is not b:
                ax.append(z3.Implies(ra == rb, z3.Or(a == b, a == F.neg(d1, b))))
    return ax


CFG = {  # name: (deg, compressed, size)
    "G1c": (1, True, 48), "G1u": (1, False, 96), "G2c": (2, True, 96), "G2u": (2, False, 192),
}


def fnames(P, which):
    deg, comp, size = CFG[which]
    g = "G1Affine" if deg == 1 else "G2Affine"
    enc = P.find1(B + r"Encoding<%s%s, %s>::encode" % (B, g, "true" if comp else "false") + ANY)
    dec = P.find1(B + r"Encoding<%s%s, %s>::decode" % (B, g, "true" if comp else "false") + ANY + " const")
    return enc, dec


def affine_obj(I, deg, x, y, inf, name="P", const=True):
    sz = 48 * deg
    o = Obj(name, 2 * sz + 16, "arg", 16, False)
    I.fwr(deg, Ptr(o, 0), x)
    I.fwr(deg, Ptr(o, sz), y)
    I.store_cell(o, 2 * sz, 1, inf)
    o.const = const
    return o


def read_affine(I, deg, o):
    sz = 48 * deg
    inf = I.load_bytes(o, 2 * sz, 1)
    return I.frd(deg, Ptr(o, 0)), I.frd(deg, Ptr(o, sz)), inf


def point_vars(F, deg, tag="p"):
    n = 384 * deg
    x, y = z3.BitVec(tag + "x", n), z3.BitVec(tag + "y", n)
    return x, y


def on_curve_hyp(F, deg, x, y, bconst):
    """sq(y) == add(mul(sq(x), x), b): the equation is_on_curve / get_point_from_x evaluate, as a hypothesis on (x, y)"""
    U = F.uf[deg]
    sx = U["sq"](x)
    F.seen_sq.append((deg, x, sx))
    sy = U["sq"](y)
    F.seen_sq.append((deg, y, sy))
    F.axioms.append(U["leg"](sy) != z3.BitVecVal(0xffffffff, 32))
    return sy == U["add"](U["mul"](sx, x), bconst)


def curve_b(I, deg):
    P = I.prog
    nm = [n for n in P.gl if n.endswith("g%d_b_coeff_varE" % deg)]
    o = I.global_obj(nm[0])
    return I.frd(deg, Ptr(o, 0))


def solve(I, pc, axioms, goal_negated, what):
    s = z3.Solver()
    s.set("timeout", 120000)
    for c in list(I.assumptions) + list(pc) + list(axioms):
        s.add(c)
    s.add(goal_negated)
    r = s.check()
    I.vc_count = getattr(I, "vc_count", 0) + 1
    if r == z3.unknown:
        raise Inconclusive("solver unknown on " + what)
    return r, (s.model() if r == z3.sat else None)


def ob_roundtrip(which, checked, identity):
    P = prog()
    deg, comp, size = CFG[which]
    enc, dec = fnames(P, which)
    I = eir.Interp(P)
    F = FieldModel()
    install(I, F)
    x, y = point_vars(F, deg)
    F.known = [x, y] if deg == 1 else [z3.Extract(383, 0, x), z3.Extract(767, 384, x), z3.Extract(383, 0, y), z3.Extract(767, 384, y)]
    bconst = bv(curve_b(I, deg), 384 * deg)
    U = F.uf[deg]
    hyps = [F.canon(deg, x), F.canon(deg, y)]
    if not identity:
        hyps.append(on_curve_hyp(F, deg, x, y, bconst))
        ins = U["insub"](x, y)
        hyps += [ins, y != 0]
    I.assumptions = hyps
    npaths = 0

    base_sq = list(F.seen_sq)

    I.lazy_feasibility = 300

    def once():
        del F.axioms[len(base_ax):]
        F.seen_sq[:] = base_sq
        del F.seen_sqrt[:]
        del I.insub_calls[:]
        Pt = affine_obj(I, deg, x, y, 1 if identity else 0)
        buf = Obj("buf", size, "arg", 1)
        I.call_named(enc, [Ptr(buf, 0), Ptr(Pt, 0)])
        out = Obj("out", 2 * 48 * deg + 16, "arg", 16)
        buf.const = True
        ret = I.call_named(dec, [Ptr(buf, 0), Ptr(out, 0), int(checked)])
        return ret, out
    base_ax = list(F.axioms)
    key = "roundtrip:%s:checked=%d:%s" % (which, checked, "identity" if identity else "point")
    feasible = 0
    for path, (ret, out) in I.explore(once, 256):
        npaths += 1
        ax = field_axioms(F)
        rb = ret if isinstance(ret, z3.BoolRef) else (z3.BoolVal(bool(ret)) if is_conc(ret) else ret != 0)
        # case split on which root the library's square root returned (covers all cases: proved first), to keep each query small
        cases = [z3.BoolVal(True)]
        if not identity and F.seen_sqrt:
            r0 = F.seen_sqrt[0][2]
            cases = [r0 == y, r0 == F.neg(deg, y)]
            rr, _ = solve(I, path.pc, ax, z3.Not(z3.Or(*cases)), "the square root is y or -y")
            if rr != z3.unsat:
                cases = [z3.BoolVal(True)]
        if is_conc(ret) and not ret or not feasible:
            # a rejecting path must be infeasible; (and until one feasible path has been seen, every path is tested: vacuity guard)
            any_sat = False
            for cs in cases:
                r, _ = solve(I, list(path.pc) + [cs], ax, z3.BoolVal(True), "path feasible under the field axioms")
                if r == z3.sat:
                    any_sat = True
                    break
            if not any_sat:
                continue
            feasible += 1
        r, mdl = z3.unsat, None
        for cs in cases:
            r, mdl = solve(I, list(path.pc) + [cs], ax, z3.Not(rb), "decode returns true")
            if r == z3.sat:
                break
        if r == z3.sat:
            raise Violation(key + ":rejected", "decode(%s) rejects the library's own encoding of a valid %s" % (which, "identity" if identity else "point"),
                            {"encoding": which, "checked": checked, "identity": identity})
        gx, gy, ginf = read_affine(I, deg, out) if not identity else (None, None, I.load_bytes(out, 2 * 48 * deg, 1))
        if identity:
            ok = is_conc(ginf) and ginf == 1
            if not ok:
                raise Violation(key + ":value", "decode(encode(identity)) is not the identity", {"encoding": which})
        else:
            goal = z3.And(gx == x, gy == y, eir.as_bv(ginf, 8) == 0)
            for cs in cases:
                r, mdl = solve(I, list(path.pc) + [cs], ax, z3.Not(goal), "decoded point equals the encoded one")
                if r == z3.sat:
                    break
            if r == z3.sat:
                raise Violation(key + ":value", "decode(encode(P)) differs from P (%s, checked=%d)" % (which, checked),
                                {"encoding": which, "checked": checked, "x": hex(mdl.eval(x, model_completion=True).as_long()),
                                 "y": hex(mdl.eval(y, model_completion=True).as_long())})
    if not feasible:
        raise Inconclusive("no path is feasible under the hypotheses (vacuous)")
    return {"queries": getattr(I, "vc_count", 0), "paths": npaths, "functions": [P.demangled[enc][:90], P.demangled[dec][:90]],
            "sample": "%d paths, %d feasible under the field axioms" % (npaths, feasible)}


def ob_canonical(which):
    """for every byte string: checked decode succeeds => re-encoding the result gives back exactly the same bytes, and the result passed the
    curve / subgroup tests"""
    P = prog()
    deg, comp, size = CFG[which]
    enc, dec = fnames(P, which)
    I = eir.Interp(P)
    F = FieldModel()
    install(I, F)
    bs = [z3.BitVec("b%d" % i, 8) for i in range(size)]
    npaths = 0
    base_ax = list(F.axioms)

    def once():
        del F.axioms[len(base_ax):]
        del F.seen_sq[:]
        del F.seen_sqrt[:]
        del I.insub_calls[:]
        buf = Obj("buf", size, "arg", 1, True)
        for i in range(size):
            buf.cells[i] = (1, bs[i])
        out = Obj("out", 2 * 48 * deg + 16, "arg", 16)
        ret = I.call_named(dec, [Ptr(buf, 0), Ptr(out, 0), 1])
        return ret, out
    accepted = 0
    for path, (ret, out) in I.explore(once, 4096):
        npaths += 1
        rb = ret if isinstance(ret, z3.BoolRef) else (z3.BoolVal(bool(ret)) if is_conc(ret) else ret != 0)
        ax = field_axioms(F)
        r, _ = solve(I, path.pc, ax, rb, "path accepts")
        if r != z3.sat:
            continue
        accepted += 1
        insub = list(I.insub_calls)
        # re-encode the accepted point
        out.const = True
        buf2 = Obj("buf2", size, "arg", 1)
        n_ax = len(F.axioms)
        I.call_named(enc, [Ptr(buf2, 0), Ptr(out, 0)])
        ax = field_axioms(F)
        b2 = [eir.as_bv(I.load_bytes(buf2, i, 1), 8) for i in range(size)]
        same = z3.And(*[u == v for u, v in zip(bs, b2)])
        r, mdl = solve(I, list(path.pc) + [rb], ax, z3.Not(same), "re-encoding equals the input")
        if r == z3.sat:
            val = bytes(mdl.eval(b, model_completion=True).as_long() for b in bs)
            raise Violation("canonical:%s" % which, "validating decode (%s) accepts a byte string that is not the encoding the library produces for the decoded point" % which,
                            {"encoding": which, "bytes": val.hex(), "reencoded": bytes(mdl.eval(b, model_completion=True).as_long() for b in b2).hex()})
        ginf = I.load_bytes(out, 2 * 48 * deg, 1)
        if is_conc(ginf) and ginf == 1:
            continue
        if not insub and I.weak_calls:
            gx, gy, _ = read_affine(I, deg, out)
            r, mdl = solve(I, list(path.pc) + [rb], ax, z3.Not(F.uf[deg]["insub"](gx, gy)), "accepted point is in the subgroup")
            if r == z3.sat:
                raise Violation("checks:%s:subgroup" % which, "validating decode (%s) decides membership with %s, whose contract is [k]P only on the order-r subgroup: "
                                "a curve point outside the subgroup may be accepted" % (which, I.weak_calls[-1][4][:80]), {"encoding": which, "weak_subgroup": True})
            continue
        if not insub:
            raise Violation("checks:%s:subgroup" % which, "validating decode (%s) accepts a point without the subgroup test" % which, {"encoding": which})
        gx, gy, _ = read_affine(I, deg, out)
        d_, sx, sy, sr = insub[-1]
        r, mdl = solve(I, list(path.pc) + [rb], ax, z3.Not(z3.And(sr, sx == gx, sy == gy)), "accepted point passed the subgroup test")
        if r == z3.sat:
            raise Violation("checks:%s:subgroup" % which, "validating decode (%s) accepts a point that did not pass the subgroup test" % which, {"encoding": which})
        # the accepted coordinates satisfy the curve equation (uncompressed: is_on_curve's comparison is on the path; compressed: y = sqrt(x^3 + b) of a residue)
        U = F.uf[deg]
        bconst = curve_b(I, deg)
        eqn = U["sq"](gy) == U["add"](U["mul"](U["sq"](gx), gx), bconst)
        r, mdl = solve(I, list(path.pc) + [rb], ax, z3.Not(eqn), "accepted point is on the curve")
        if r == z3.sat:
            raise Violation("checks:%s:curve" % which, "validating decode (%s) accepts coordinates that were not shown to satisfy y^2 = x^3 + b (a point of another curve "
                            "can pass the order test: invalid-curve input)" % which, {"encoding": which, "off_curve": True})
    if accepted < 2:
        raise Inconclusive("only %d accepting paths in checked decode" % accepted)
    return {"queries": getattr(I, "vc_count", 0), "paths": npaths, "functions": [P.demangled[enc][:90], P.demangled[dec][:90]],
            "sample": "%d paths, %d accepting; all %d bytes symbolic" % (npaths, accepted, size)}


# ---------------------------------------------------------------------------------------------------------------
def replay_canonical(res):
    """native replay of a canonicity counterexample.  The solver's bytes live in the uninterpreted field model, so the *defect pattern*
    (per 48-byte field: accepted bytes minus re-encoded bytes) is transplanted onto the encoding of a real point k*G and decoded natively;
    counterexamples that decode to the identity are replayed byte for byte."""
    ce = res.counterexample or {}
    from engine import replay
    if ce.get("off_curve"):
        out = replay.run(["decoffcurve %s" % ce["encoding"]])[0]
        ce["native_replay"] = {"command": "decoffcurve %s" % ce["encoding"], "native_output": out,
                               "meaning": "coordinates (x, y) with y^2 != x^3 + b whose order on their own curve y^2 = x^3 + b' divides r, or failing that any off-curve pair, given to validating decode"}
        return True if out.startswith("ACCEPTED-OFFCURVE") else None
    if ce.get("weak_subgroup"):
        out = replay.run(["decnonsub %s" % ce["encoding"]])[0]
        ce["native_replay"] = {"command": "decnonsub %s" % ce["encoding"], "native_output": out,
                               "meaning": "curve points outside the order-r subgroup (membership decided by a plain double-and-add by r in the driver) encoded and given to validating decode"}
        return out.startswith("ACCEPTED-NONSUBGROUP")
    if "bytes" not in ce:
        return None
    b, r = bytes.fromhex(ce["bytes"]), bytes.fromhex(ce["reencoded"])
    if r[0] & 0x40:
        cmd = "enccanon %s raw %s" % (ce["encoding"], ce["bytes"])
    else:
        deltas = []
        for i in range(len(b) // 48):
            d = int.from_bytes(b[48 * i:48 * i + 48], "big") - int.from_bytes(r[48 * i:48 * i + 48], "big")
            if d < 0:
                cmd = None
                break
            deltas.append("%x" % d)
        else:
            cmd = "enccanon %s delta %s" % (ce["encoding"], " ".join(deltas))
        if cmd is None:
            cmd = "enccanon %s raw %s" % (ce["encoding"], ce["bytes"])
    out = replay.run([cmd])[0]
    ce["native_replay"] = {"command": cmd, "native_output": out}
    return out.startswith("NONCANONICAL")


def ob_decode_memory(which, checked):
    """decode of EVERY byte string of the encoding's length, validating or not: every load stays inside the `size` bytes of the encoding and every
    store inside the point object (the interpreter checks each access; untrusted flag bits must not select a code path that reads a longer encoding)"""
    P = prog()
    deg, comp, size = CFG[which]
    enc, dec = fnames(P, which)
    I = eir.Interp(P)
    F = FieldModel()
    install(I, F)
    bs = [z3.BitVec("b%d" % i, 8) for i in range(size)]
    base_ax = list(F.axioms)

    def once():
        del F.axioms[len(base_ax):]
        del F.seen_sq[:]
        del F.seen_sqrt[:]
        del I.insub_calls[:]
        buf = Obj("buf", size, "arg", 1, True)
        for i in range(size):
            buf.cells[i] = (1, bs[i])
        out = Obj("out", 2 * 48 * deg + 16, "arg", 16)
        return I.call_named(dec, [Ptr(buf, 0), Ptr(out, 0), int(checked)])
    n = 0
    for path, ret in I.explore(once, 4096):
        n += 1
    if n < 2:
        raise Inconclusive("only %d path(s) through decode" % n)
    return {"queries": getattr(I, "vc_count", 0), "paths": n, "functions": [P.demangled[dec][:90]],
            "sample": "%d paths over all %d-byte strings, checked=%d: no access outside the encoding or the point object" % (n, size, checked)}


def ob_subgroup_test(deg):
    """Affine::is_in_correct_subgroup_assuming_on_curve is 'multiply_doubleadd_restrict(*this, r) is the identity': exactly one scalar multiplication, by the
    generic double-and-add (proved [k]P on every curve point by C06 loop:doubleadd), of *this, by the 256-bit constant r over all 256 bits, followed by
    Projective::is_zero of that result, whose value is returned."""
    P = prog()
    A = "g1_b_coeff_var" if deg == 1 else "g2_b_coeff_var"
    fname = P.find1(B + r"Affine<.*" + A + r">::is_in_correct_subgroup_assuming_on_curve\(\) const")
    I = eir.Interp(P)
    calls = []
    flag = z3.Bool("result_is_identity")

    def rec(I_, name, args, site):
        d = I_.prog.demangled.get(name, name)
        if d.startswith("llvm."):
            return None
        calls.append((d, list(args)))
        if "::is_zero() const" in d:
            return flag
    I.add_intercept(r"(?!llvm\.|memcpy|memmove|memset).*", rec, "callee")
    me = Obj("P", 2 * 48 * deg + 16, "arg", 16, True)
    ret = I.call_function(P.fn[fname], [Ptr(me, 0)])
    R_ORD = 0x73eda753299d7d483339d80809a1d80553bda402fffe5bfeffffffff00000001
    ok = len(calls) == 2 and "::multiply_doubleadd" in calls[0][0] and "BigInt<256>" in calls[0][0] and "::is_zero() const" in calls[1][0]
    if ok:
        m = calls[0][1]
        k = I.load_bytes(m[2].obj, m[2].off, 32)
        hb = m[3] if len(m) > 3 else 255
        ok = (m[1].obj is me and m[1].off == 0 and is_conc(k) and k == R_ORD and is_conc(hb) and hb == 255 and calls[1][1][0].obj is m[0].obj and calls[1][1][0].off == m[0].off)
    if ok:
        s = z3.Solver()
        rb = ret if isinstance(ret, z3.BoolRef) else (ret != 0 if z3.is_expr(ret) else z3.BoolVal(bool(ret)))
        s.add(rb != flag)
        ok = s.check() == z3.unsat
    if not ok:
        raise Violation("subgroup-test:G%d" % deg, "is_in_correct_subgroup_assuming_on_curve is not '[r]P by generic double-and-add is the identity': calls %r" % ([c[0][:70] for c in calls],), {})
    return {"queries": 1, "paths": 1, "functions": [P.demangled[fname][:100]], "sample": "one multiply_doubleadd_restrict(*this, r, 255), is_zero of its result returned"}


def register(chk):
    chk.add("subgroup-test:G1", ob_subgroup_test, 1)
    chk.add("subgroup-test:G2", ob_subgroup_test, 2)
    for which in CFG:
        for checked in (True, False):
            chk.add("roundtrip:%s:checked=%d:point" % (which, checked), ob_roundtrip, which, checked, False)
            chk.add("roundtrip:%s:checked=%d:identity" % (which, checked), ob_roundtrip, which, checked, True)
        chk.add("canonical:%s" % which, ob_canonical, which)
        chk.add("decode-memory:%s:checked=0" % which, ob_decode_memory, which, False)


def include_in(chk):
    """this check's obligations registered inside a check of a layer above (framework.Check.include)"""
    prog()
    chk.replayer = replay_canonical
    register(chk)


def main(argv=None):
    chk = Check("C09", "proof", argv)
    chk.replayer = replay_canonical
    prog()
    register(chk)
    chk.explanation = __doc__.strip()
    chk.bounds = ["all 48/96/192-byte strings (every byte a symbolic bit-vector); all points (symbolic canonical coordinates subject to the curve equation and the subgroup predicate)",
                  "no loop bound: the byte loops have concrete trip counts"]
    chk.trusted = ["T5 sqrt contract, field axioms, odd group order (instantiated as stated in the module docstring)",
                   "byte-level specifications of Fq::read/write_big_endian, negate, compare (C02), is_on_curve (C05), subgroup test = [r]P == O (C06)", "z3"]
    # lower layers whose specifications this check relies on: their obligations are part of this check's claim (framework.Check.include)
    for dep in ['C06', 'C02', 'C03', 'C04', 'C05', 'C19', 'C20']:
        chk.include(dep)
    chk.run()
    chk.finish()


if __name__ == "__main__":
    main()
