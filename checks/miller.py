"""Shared harness for the Miller-loop shape obligations of C01 and C08 (DESIGN.md section 5, C01.2 and C08).

miller_loop (all three overloads) and G2Prepared::prepare are executed from the IR with the step kernels as uninterpreted recorders:
  miller_doubling_step(coeffs, r)      r = [m]Q  ->  r := [2m]Q,  coeffs := line atom ("dbl", pair, m)   (tangent at [m]Q)
  miller_addition_step(coeffs, r, Q)   r = [m]Q  ->  r := [m+1]Q, coeffs := line atom ("add", pair, m)   (line through [m]Q and Q)
  ell(f, coeffs, P)                    f := f * coeffs(P)    f is an exponent map  {(atom, P id): exponent}
  Fq12::square -> all exponents doubled; Fq12::conjugate -> flag; Fq12::copy(one) -> empty map
The infinity flags of all points are symbolic (the code's is_zero tests fork); prepared pairs carry a symbolic garbage coeff_idx on entry.
The expected map is that of the textbook Miller loop for the signed parameter x: for the bits of |x| below the leading one, MSB first:
f <- f^2 * l_{T,T}(P), T <- 2T; if the bit is set f <- f * l_{T,Q}(P), T <- T+Q; finally conjugation because x < 0 - for each pair whose
two members are both finite, nothing for the others.
"""
import os
import sys
sys.path.insert(0, os.path.dirname(os.path.dirname(os.path.abspath(__file__))))

import z3
from engine import build, eir
from engine.eir import Ptr, Obj, is_conc, ExecError
from engine.framework import Violation, Inconclusive

B = "embedded_pairing::bls12_381::"
X_ABS = 0xd201000000010000
NUM_COEFFS = 68
TRIPLE = 288          # sizeof(MillerTriple) = 3 * sizeof(Fq2)
G2_SIZE = 288
AFF1 = 112            # sizeof(G1Affine)
AFF2 = 208            # sizeof(G2Affine)
_PROG = {}


def prog():
    if "p" not in _PROG:
        _PROG["p"] = build.load_program("A", files=["src/bls12_381/pairing.cpp"], tag="miller")
    return _PROG["p"]


class Line:
    __slots__ = ("kind", "q", "m")

    def __init__(self, kind, q, m):
        self.kind, self.q, self.m = kind, q, m

    def key(self):
        return (self.kind, self.q, self.m)

    def __repr__(self):
        return "L%s(%s,%d)" % (self.kind, self.q, self.m)


class Run:
    __slots__ = ("q", "m")

    def __init__(self, q, m):
        self.q, self.m = q, m


class Acc:
    """target-group accumulator as an exponent map over line values"""
    __slots__ = ("e", "conj")

    def __init__(self, e=None, conj=False):
        self.e = e or {}
        self.conj = conj


def textbook_steps():
    """[(kind, m)] in evaluation order together with the exponent each line value has in the final Miller value"""
    bits = bin(X_ABS)[3:]
    steps = []
    m = 1
    for b in bits:
        steps.append(("dbl", m))
        m *= 2
        if b == "1":
            steps.append(("add", m))
            m += 1
    assert m == X_ABS
    # exponent: f <- f^2 * l at every bit; a line introduced when `k` squarings remain ends up with exponent 2^k
    out = []
    remaining = len(bits)
    for b in bits:
        remaining -= 1
        out.append(2 ** remaining)          # dbl of this bit
        if b == "1":
            out.append(2 ** remaining)      # add of this bit
    return steps, out


def expected_map(pairs):
    """pairs: list of (q id, p id) that are both finite"""
    steps, exps = textbook_steps()
    want = {}
    for (qid, pid) in pairs:
        for (kind, m), e in zip(steps, exps):
            want[((kind, qid, m), pid)] = want.get(((kind, qid, m), pid), 0) + e
    return want


def install(I, trace=None):
    """uninterpreted step kernels and accumulator operations"""
    def rd_run(p):
        c = p.obj.cells.get(p.off)
        if c is None or not isinstance(c[1], Run):
            raise ExecError("abstract-bytes", "running point expected at %r" % (p,))
        return c[1]

    def h_dbl(I_, name, args, site):
        r = rd_run(args[1])
        I_._check_access(args[0], TRIPLE, 1, True)
        I_.store_cell(args[0].obj, args[0].off, TRIPLE, Line("dbl", r.q, r.m))
        I_.store_cell(args[1].obj, args[1].off, G2_SIZE, Run(r.q, 2 * r.m))

    def h_add(I_, name, args, site):
        r = rd_run(args[1])
        q = point_id(I_, args[2], AFF2)
        if q != r.q:
            raise Violation("miller:add-wrong-point", "miller_addition_step adds a point other than the pair's own G2 element", {"pair": r.q, "added": q})
        I_._check_access(args[0], TRIPLE, 1, True)
        I_.store_cell(args[0].obj, args[0].off, TRIPLE, Line("add", r.q, r.m))
        I_.store_cell(args[1].obj, args[1].off, G2_SIZE, Run(r.q, r.m + 1))

    def point_id(I_, p, size):
        c = p.obj.cells.get(p.off)
        if c is None or not isinstance(c[1], str):
            raise ExecError("abstract-bytes", "point token expected at %r" % (p,))
        return c[1]

    def h_ell(I_, name, args, site):
        I_._check_access(args[1], TRIPLE, 1, False)
        c = args[1].obj.cells.get(args[1].off)
        if c is None or not isinstance(c[1], Line):
            raise Violation("miller:ell-uninitialised", "ell is applied to coefficients that no step kernel / preparation produced (%r)" % (args[1],), {})
        ln = c[1]
        pid = point_id(I_, args[2], AFF1)
        a = rd_acc(args[0])
        e = dict(a.e)
        k = (ln.key(), pid)
        e[k] = e.get(k, 0) + 1
        I_.store_cell(args[0].obj, args[0].off, 576, Acc(e, a.conj))
        if trace is not None:
            trace.append(("ell", ln.key(), pid))

    def rd_acc(p):
        c = p.obj.cells.get(p.off)
        if c is not None and isinstance(c[1], Acc):
            return c[1]
        raise ExecError("abstract-bytes", "accumulator expected at %r" % (p,))

    def h_sq(I_, name, args, site):
        a = rd_acc(args[1])
        I_.store_cell(args[0].obj, args[0].off, 576, Acc({k: 2 * v for k, v in a.e.items()}, a.conj))

    def h_conj(I_, name, args, site):
        a = rd_acc(args[1])
        I_.store_cell(args[0].obj, args[0].off, 576, Acc(dict(a.e), not a.conj))

    def h_copy(I_, name, args, site):
        src = args[1]
        c = src.obj.cells.get(src.off)
        if c is not None and isinstance(c[1], Acc):
            I_.store_cell(args[0].obj, args[0].off, 576, c[1])
            return
        if src.obj.name.endswith("Fq123oneE"):
            I_.store_cell(args[0].obj, args[0].off, 576, Acc())
            return
        raise ExecError("abstract-bytes", "Fq12::copy from %r" % (src,))

    def h_from_affine(I_, name, args, site):
        q = point_id(I_, args[1], AFF2)
        I_.store_cell(args[0].obj, args[0].off, G2_SIZE, Run(q, 1))
    I.add_intercept(B + r"miller_doubling_step\(.*\)", h_dbl, "miller_doubling_step")
    I.add_intercept(B + r"miller_addition_step\(.*\)", h_add, "miller_addition_step")
    I.add_intercept(B + r"ell\(.*\)", h_ell, "ell")
    I.add_intercept(B + r"Fq12::square\(.*\)", h_sq, "Fq12::square")
    I.add_intercept(B + r"Fq12::conjugate\(.*\)", h_conj, "Fq12::conjugate")
    I.add_intercept(B + r"Fq12::copy\(.*\)", h_copy, "Fq12::copy")
    I.add_intercept(r"void " + B + r"Projective<" + B + r"Fq2>::from_affine<.*>\(.*\)", h_from_affine, "G2::from_affine")


def g1_obj(name, inf):
    o = Obj(name, AFF1, "arg", 16, True)
    o.cells[0] = (96, name)
    o.cells[96] = (1, inf)
    return o


def g2_obj(name, inf):
    o = Obj(name, AFF2, "arg", 16, True)
    o.cells[0] = (192, name)
    o.cells[192] = (1, inf)
    return o


def prepared_obj(name, inf, lines=None):
    """a G2Prepared whose k-th coefficient triple is the line `lines[k]` (default: the k-th textbook step of point `name`)"""
    o = Obj(name, NUM_COEFFS * TRIPLE + 16, "arg", 16, True)
    steps, _ = textbook_steps()
    for k in range(NUM_COEFFS):
        kind, m = steps[k]
        o.cells[k * TRIPLE] = (TRIPLE, Line(kind, name, m))
    o.cells[NUM_COEFFS * TRIPLE] = (1, inf)
    return o


def flag_name(v):
    return str(v)


def finite_assignments(path_pc, flags, solver):
    """under the path condition every flag has a definite value (the code tested it): read it off"""
    vals = {}
    for nm, v in flags.items():
        s = solver
        s.push()
        for c in path_pc:
            s.add(c)
        s.add(v != 0)
        t = s.check()
        s.pop()
        s.push()
        for c in path_pc:
            s.add(c)
        s.add(v == 0)
        f = s.check()
        s.pop()
        if t == z3.sat and f == z3.sat:
            vals[nm] = None           # never tested on this path
        else:
            vals[nm] = (t == z3.sat)
    return vals
