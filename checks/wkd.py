"""Shared harness for the WKD-IBE properties C11-C14 (DESIGN.md section 5).

The functions of src/wkdibe/api.cpp are executed from the IR of the current tree by E-IR with the group layer replaced by D-GRP
(engine/dom_grp.py).  Slot *shapes* (which slot is free / fixed / hidden in the parent key, which list entry is absent / a value /
"hide", the two flags) are concrete and enumerated; every attribute value, every message and all randomness is symbolic.

Formal symbols:  alpha (master secret), gam (log of g in G2), g2, g3 (logs of params.g2, params.g3 in G1), h<i> (log of params.h[i]),
hs (log of params.hsig), rho (randomness of an arbitrary well-formed parent key), rnd<k> (fresh randomness drawn by the code).
Well-formed key WF(pattern, rho):   a0 = alpha*g2 + rho*(g3 + sum_{i fixed} id_i*h_i),  a1 = rho*gam,
                                     b  = [(i, rho*h_i) for the free slots i, ascending],  bsig = rho*hs (0 without signatures).
"""
import os
import sys
sys.path.insert(0, os.path.dirname(os.path.dirname(os.path.abspath(__file__))))

import z3
from engine import build, eir, dom_grp
from engine.dom_grp import Poly, GE, SV, Grp, R_ORDER
from engine.eir import Ptr, Obj, is_conc, ExecError
from engine.framework import Violation, Inconclusive

W = "embedded_pairing::wkdibe::"
_PROG = {}


def prog(cfg="A"):
    if cfg not in _PROG:
        _PROG[cfg] = build.load_program(cfg, files=["src/wkdibe/api.cpp", "src/bls12_381/fr.cpp"], tag="wkd_" + cfg)
    return _PROG[cfg]


class Layouts:
    """field offsets of the scheme structs, taken from the IR types of the current tree"""

    def __init__(self, program):
        m = program.modules[0]
        lay = program.layout(m)
        self.lay = lay

        def st(name):
            t = m.types.get("struct.embedded_pairing::wkdibe::" + name)
            if t is None:
                raise Inconclusive("IR has no type wkdibe::" + name)
            return lay.resolve(t)

        def offs(name, n):
            t = st(name)
            return [lay.field_offset(t, i)[0] for i in range(n)], lay.size(t)
        # Params <{ G2 g, G2 g1, G1 g2, G1 g3, Fq12 pairing, G1 hsig, i8 signatures, [7 x i8], G1* h, i32 l, pad }>
        (self.P_g, self.P_g1, self.P_g2, self.P_g3, self.P_pairing, self.P_hsig, self.P_sig, _, self.P_h, self.P_l), self.P_size = offs("Params", 10)
        # SecretKey { G1 a0, G2 a1, i32 l, i8 signatures, pad, G1 bsig, FreeSlot* b, pad }
        (self.S_a0, self.S_a1, self.S_l, self.S_sig, _, self.S_bsig, self.S_b), self.S_size = offs("SecretKey", 7)
        (self.F_hexp, self.F_idx), self.F_size = offs("FreeSlot", 2)
        (self.A_id, self.A_idx, self.A_omit), self.A_size = offs("Attribute", 3)
        (self.L_attrs, self.L_len, self.L_omit), self.L_size = offs("AttributeList", 3)
        (self.C_a, self.C_b, self.C_c), self.C_size = offs("Ciphertext", 3)
        (self.G_a0, self.G_a1), self.G_size = offs("Signature", 2)
        expect = {"P_g": 0, "S_a0": 0, "F_hexp": 0, "A_id": 0}
        for k, v in expect.items():
            if getattr(self, k) != v:
                raise Inconclusive("unexpected struct layout (%s = %d)" % (k, getattr(self, k)))


class World:
    """one symbolic instance of the scheme: parameters for l slots, master key, helpers to build/read objects"""

    def __init__(self, l, signatures, timeout_ms=60000):
        self.prog = prog()
        self.L = Layouts(self.prog)
        self.l = l
        self.signatures = signatures
        self.G = Grp(timeout_ms)
        self.I = eir.Interp(self.prog)
        self.I.solver.set("timeout", timeout_ms)
        self.M = dom_grp.install(self.I, self.G)
        # wkdibe::group_order is dynamically initialised (copied from Fr::p_value by the TU's static initialiser): run it, as the loader does
        self.I.run_static_initialisers()
        G = self.G
        self.alpha, self.gam, self.g2, self.g3 = G.sym("alpha"), G.sym("gam"), G.sym("g2"), G.sym("g3")
        self.h = [G.sym("h%d" % i) for i in range(l)]
        self.hs = G.sym("hs") if signatures else Poly()
        self.cb = eir.FnRef("get_random_bytes")

    # ---- specification side
    def attr_product(self, fixed):
        """g3 + sum id_i h_i over the dict slot -> integer term"""
        p = self.g3
        for i, idt in sorted(fixed.items()):
            p = p + self.h[i] * Poly.const(idt)
        return p

    def wf_key(self, fixed, free, rho):
        return {"a0": self.alpha * self.g2 + rho * self.attr_product(fixed), "a1": rho * self.gam,
                "b": [(i, rho * self.h[i]) for i in sorted(free)], "bsig": rho * self.hs}

    # ---- memory builders
    def params_obj(self):
        L, I = self.L, self.I
        o = Obj("params", L.P_size, "arg", 16, True)
        st = I.store_cell
        st(o, L.P_g, 288, GE("G2", self.gam))
        st(o, L.P_g1, 288, GE("G2", self.alpha * self.gam))
        st(o, L.P_g2, 144, GE("G1", self.g2))
        st(o, L.P_g3, 144, GE("G1", self.g3))
        st(o, L.P_pairing, 576, GE("GT", self.g2 * self.alpha * self.gam))
        st(o, L.P_hsig, 144, GE("G1", self.hs))
        st(o, L.P_sig, 1, int(self.signatures))
        harr = Obj("params.h", 144 * max(self.l, 1), "arg", 16, True)
        for i in range(self.l):
            st(harr, 144 * i, 144, GE("G1", self.h[i]))
        st(o, L.P_h, 8, Ptr(harr, 0))
        st(o, L.P_l, 4, self.l)
        o.written = False
        return o

    def msk_obj(self):
        o = Obj("msk", 144, "arg", 16, True)
        self.I.store_cell(o, 0, 144, GE("G1", self.alpha * self.g2))
        return o

    def attrlist_obj(self, entries, omit_all, name="attrs"):
        """entries: list of (slot, idterm or None for 'hide')  (ascending slots)"""
        L, I = self.L, self.I
        arr = Obj(name + ".attrs", L.A_size * max(len(entries), 1), "arg", 16, True)
        for k, ent in enumerate(entries):
            slot, idt = ent[0], ent[1]
            omit = ent[2] if len(ent) > 2 else (idt is None)          # (slot, id, flag): a value that also carries the omit marker
            base = L.A_size * k
            if idt is None:
                # the id field of a hidden entry carries no meaning (the Go bindings zero it, a C caller may leave anything there, e.g. the value
                # the slot had in another list): an arbitrary 256-bit integer that the code must ignore
                I.store_cell(arr, base + L.A_id, 32, SV(Poly.const(self.G.ivar("%s_hidden_id%d" % (name, slot)))))
            else:
                I.store_cell(arr, base + L.A_id, 32, SV(Poly.const(idt)))
            I.store_cell(arr, base + L.A_idx, 4, slot)
            I.store_cell(arr, base + L.A_omit, 1, int(omit))
        o = Obj(name, L.L_size, "arg", 8, True)
        I.store_cell(o, L.L_attrs, 8, Ptr(arr, 0))
        I.store_cell(o, L.L_len, 8, len(entries))
        I.store_cell(o, L.L_omit, 1, int(omit_all))
        return o

    def key_obj(self, key, name="sk", const=True):
        L, I = self.L, self.I
        o = Obj(name, L.S_size, "arg", 16, const)
        I.store_cell(o, L.S_a0, 144, GE("G1", key["a0"]))
        I.store_cell(o, L.S_a1, 288, GE("G2", key["a1"]))
        I.store_cell(o, L.S_l, 4, len(key["b"]))
        I.store_cell(o, L.S_sig, 1, int(self.signatures))
        I.store_cell(o, L.S_bsig, 144, GE("G1", key["bsig"]))
        # exactly as many entries as the key has free slots (a key without free slots has an empty array: any access to it is out of bounds)
        arr = Obj(name + ".b", L.F_size * len(key["b"]), "arg", 16, const)
        for j, (slot, p) in enumerate(key["b"]):
            I.store_cell(arr, L.F_size * j + L.F_hexp, 144, GE("G1", p))
            I.store_cell(arr, L.F_size * j + L.F_idx, 4, slot)
        I.store_cell(o, L.S_b, 8, Ptr(arr, 0))
        return o

    def out_key_obj(self, nslots, name="out"):
        """an uninitialised key whose slot array has exactly `nslots` entries (as the bindings allocate it)"""
        L, I = self.L, self.I
        o = Obj(name, L.S_size, "arg", 16)
        arr = Obj(name + ".b", L.F_size * max(nslots, 1) if nslots else L.F_size, "arg", 16)
        if nslots == 0:
            arr = Obj(name + ".b", 0, "arg", 16)
        I.store_cell(o, L.S_b, 8, Ptr(arr, 0))
        return o

    def read_key(self, o):
        L, I, M = self.L, self.I, self.M
        n = I.load_bytes(o, L.S_l, 4)
        if not is_conc(n):
            raise Inconclusive("key slot count is symbolic")
        sig = I.load_bytes(o, L.S_sig, 1)
        arrp = o.cells[L.S_b][1]
        b = []
        for j in range(n):
            idx = I.load_bytes(arrp.obj, arrp.off + L.F_size * j + L.F_idx, 4)
            b.append((idx, M.read(Ptr(arrp.obj, arrp.off + L.F_size * j + L.F_hexp), "G1").p))
        return {"a0": M.read(Ptr(o, L.S_a0), "G1").p, "a1": M.read(Ptr(o, L.S_a1), "G2").p, "l": n, "sig": sig,
                "bsig": M.read(Ptr(o, L.S_bsig), "G1").p, "b": b}

    # ---- comparison
    def compare_key(self, got, want, pc, key, what, ce):
        G = self.G
        if got["l"] != len(want["b"]):
            raise Violation(key + ":slot-count", "%s: key lists %d free slots, the accumulated pattern has %d" % (what, got["l"], len(want["b"])), ce)
        if is_conc(got["sig"]) and bool(got["sig"]) != bool(self.signatures):
            raise Violation(key + ":signatures-flag", "%s: signatures flag is %r" % (what, got["sig"]), ce)
        for j, ((gi, gp), (wi, wp)) in enumerate(zip(got["b"], want["b"])):
            if not is_conc(gi) or gi != wi:
                raise Violation(key + ":slot-index", "%s: free-slot entry %d has index %r, expected %d" % (what, j, gi, wi), ce)
            ok, mono, mdl = G.equal(gp, wp, pc)
            if not ok:
                raise Violation(key + ":slot-element", "%s: delegation element of slot %d differs (monomial %s)" % (what, wi, mono), dict(ce, model=G.model_values(mdl)))
        for comp in ("a0", "a1", "bsig"):
            ok, mono, mdl = G.equal(got[comp], want[comp], pc)
            if not ok:
                raise Violation(key + ":" + comp, "%s: component %s is not that of a well-formed key for the accumulated pattern (monomial %s: got %s, want %s)" % (
                    what, comp, mono, str(got[comp].coeff(mono))[:80], str(want[comp].coeff(mono))[:80]), dict(ce, model=G.model_values(mdl)))

    def fn(self, name, args_rx=r"\(.*\)"):
        return self.prog.find1(W + name + args_rx)


# ---------------------------------------------------------------------------------------------------------------
# shapes
# ---------------------------------------------------------------------------------------------------------------
def parent_patterns(l):
    """all assignments of {free, fixed, hidden} to l slots"""
    import itertools
    return list(itertools.product(("free", "fixed", "hidden"), repeat=l))


def permitted_entries(state):
    """list entries the documentation permits for a slot in the given parent state"""
    if state == "fixed":
        return ("same",)                 # attributes already set must be repeated with the same value
    if state == "free":
        return ("absent", "value", "hide")
    return ("absent", "hide")            # hidden: never given a value


def list_shapes(pattern):
    import itertools
    return list(itertools.product(*[permitted_entries(s) for s in pattern]))


def describe(pattern, shape, omit_all, signatures):
    return "parent=%s list=%s omitAll=%d sig=%d" % ("".join(p[0].upper() if p != "fixed" else "X" for p in pattern),
                                                    ",".join(shape), int(omit_all), int(signatures))
