"""C04, remaining clauses (DESIGN.md section 5, C04): cyclotomic subgroup, Fq2 norm / Legendre symbol / square root, exponentiation.

 map_to_cyclotomic   executed over exponents modulo q^12 - 1 (conjugate = q^6, inverse = -1, frobenius_map(k) = q^k, multiply = +): exponent (q^6 - 1)(q^2 + 1)
 square_cyclotomic   = square on every element of the cyclotomic subgroup.  Over 12 Fq indeterminates both results are polynomials; their difference D is shown
                     to lie in the ideal of the subgroup's defining relations  a * conj(a) = 1  and  a^(q^4) * a = a^(q^2)  (24 quadratic polynomials R_k):
                     an UNTRUSTED finder (Gaussian elimination modulo q on coefficient vectors) proposes constants m_jk with D_j = sum_k m_jk R_k and z3
                     checks each such identity (a polynomial identity modulo q).  No certificate => not decided (never reported as passed).
 Fq2::norm           c0^2 + c1^2 (D-RING)            Fq2::legendre = legendre(norm)  (trace)
 Fq2::square_root    conformance with Algorithm 9 of Adj & Rodriguez-Henriquez over uninterpreted field operations: exponents (q-3)/4 and (q-1)/2 (ground),
                     x0 = a1*a, alpha = a1^2*a, result x0*u if alpha = -1 else x0*(1+alpha)^((q-1)/2); zero maps to zero.  (T5 gives result^2 = a on squares.)
 exponentiate<Fq2>   the generic square-and-multiply loop by loop cut (shared with C02)
"""
import sys
import os
sys.path.insert(0, os.path.dirname(os.path.dirname(os.path.abspath(__file__))))
sys.path.insert(0, os.path.dirname(os.path.abspath(__file__)))

import z3
from engine import build, eir, tower, dom_ring
from engine.eir import Ptr, Obj, is_conc, ExecError
from engine.framework import Violation, Inconclusive
from engine.harness import TowerHarness
from engine.tower import Q
import c04

B = "embedded_pairing::bls12_381::"
NS = "embedded_pairing::core::"
_PROG = {}


def prog():
    if "p" not in _PROG:
        _PROG["p"] = build.load_program("A", files=["src/bls12_381/fq2.cpp", "src/bls12_381/fq6.cpp", "src/bls12_381/fq12.cpp", "src/bls12_381/fq12_cyclotomic.cpp",
                                                    "src/bls12_381/fq.cpp"], tag="c04_more")
        _PROG["p"].demangle_all()
    return _PROG["p"]


def ob_map_to_cyclotomic():
    P = prog()
    I = eir.Interp(P)
    N = Q ** 12 - 1

    def rd(p):
        c = p.obj.cells.get(p.off)
        if c is not None and c[0] == 576 and isinstance(c[1], tuple) and c[1][0] == "exp":
            return c[1][1]
        raise ExecError("abstract-bytes", "exponent cell expected at %r" % (p,))

    def wr(p, e):
        I._check_access(p, 576, 1, True)
        I.store_cell(p.obj, p.off, 576, ("exp", e % N))
    I.add_intercept(B + r"Fq12::conjugate\(.*\)", lambda I_, n, a, s: wr(a[0], rd(a[1]) * Q ** 6), "conjugate")
    I.add_intercept(B + r"Fq12::inverse\(.*\)", lambda I_, n, a, s: wr(a[0], -rd(a[1])), "inverse")
    I.add_intercept(B + r"Fq12::multiply\(.*Fq12 const&, .*Fq12 const&\)", lambda I_, n, a, s: wr(a[0], rd(a[1]) + rd(a[2])), "multiply")
    I.add_intercept(B + r"Fq12::frobenius_map\(.*\)", lambda I_, n, a, s: wr(a[0], rd(a[1]) * Q ** a[2]), "frobenius_map")
    fname = P.find1(B + r"Fq12::map_to_cyclotomic\(.*\)")
    for alias in (False, True):
        a = Obj("a", 576, "arg", 16, not alias)
        a.cells[0] = (576, ("exp", 1))
        out = a if alias else Obj("out", 576, "arg", 16)
        I.call_named(fname, [Ptr(out, 0), Ptr(a, 0)])
        e = rd(Ptr(out, 0))
        if e != (Q ** 6 - 1) * (Q ** 2 + 1) % N:
            raise Violation("map_to_cyclotomic:%s" % ("alias" if alias else "distinct"), "map_to_cyclotomic does not raise to (q^6 - 1)(q^2 + 1)", {"alias": alias})
    return {"queries": 2, "paths": 2, "functions": [P.demangled[fname][:80]], "sample": "exponent (q^6-1)(q^2+1), distinct and aliased output"}


def solve_mod_q(cols, target):
    """find x with sum_k x_k cols[k] = target (vectors as dicts monomial -> coeff mod q); Gaussian elimination mod q; None if inconsistent"""
    monos = sorted(set(m for c in cols for m in c) | set(target), key=str)
    rows = [[c.get(m, 0) % Q for c in cols] + [target.get(m, 0) % Q] for m in monos]
    ncol = len(cols)
    piv = []
    r = 0
    for c in range(ncol):
        pr = None
        for i in range(r, len(rows)):
            if rows[i][c]:
                pr = i
                break
        if pr is None:
            continue
        rows[r], rows[pr] = rows[pr], rows[r]
        inv = pow(rows[r][c], -1, Q)
        rows[r] = [v * inv % Q for v in rows[r]]
        for i in range(len(rows)):
            if i != r and rows[i][c]:
                f = rows[i][c]
                rows[i] = [(v - f * w) % Q for v, w in zip(rows[i], rows[r])]
        piv.append((r, c))
        r += 1
    for i in range(r, len(rows)):
        if rows[i][ncol]:
            return None
    x = [0] * ncol
    for (ri, c) in piv:
        x[c] = rows[ri][ncol]
    return x


def ob_square_cyclotomic(alias=False):
    P = prog()
    H = TowerHarness(P, 0, (0, 1, 2), 120000)
    T, tm, I = H.T, H.tm, H.I
    fname = H.fn(c04.method(3, "square_cyclotomic"))
    a = T.var(3, "a")

    def make_args():
        o, _ = tm.new_input("a", 3, a)
        oo = o if alias else tm.new_output("out", 3)
        return [Ptr(oo, 0), Ptr(o, 0)], (lambda: tm.read(Ptr(oo, 0), 3))
    res = H.run(fname, make_args)
    R = H.ring
    one = T.one(3)
    rel1 = T.sub(3, T.mul(3, a, T.conj(3, a)), one)
    rel2 = T.sub(3, T.mul(3, T.frobenius(3, a, 4), a), T.frobenius(3, a, 2))
    rels = T.flatten(3, rel1) + T.flatten(3, rel2)
    cols = [r.pn.t for r in rels]
    ncert = 0
    for path, ret, out in res:
        D = T.flatten(3, T.sub(3, out, T.sqr(3, a)))
        for j, d in enumerate(D):
            if d.pn.is_zero():
                ok, _ = R.is_zero(d, "cyc[%d]" % j)
                if not ok:
                    raise Inconclusive("helper and solver disagree")
                continue
            x = solve_mod_q(cols, d.pn.t)
            if x is None:
                # not in the span of the relations: genuinely different from squaring on the subgroup? confirm with a concrete subgroup element natively
                raise Violation("square_cyclotomic:component-%d" % j, "square_cyclotomic differs from square by a polynomial that is not a combination of the cyclotomic-subgroup relations (component %d)" % j,
                                {"function": fname, "level": 3, "method": "square_cyclotomic", "component": j, "assignment": {}})
            term = d.n
            for xk, rk in zip(x, rels):
                if xk:
                    term = term - xk * rk.n
            ok, mdl = R.prove_zero_term(term, "cyc-cert[%d]" % j)
            if not ok:
                raise Inconclusive("certificate for component %d rejected by the solver" % j)
            ncert += 1
    if ncert == 0:
        raise Inconclusive("square_cyclotomic equals square identically: no certificate was exercised (unexpected)")
    return dict(H.stats(), paths=len(res), sample="%d components certified as combinations of the 24 subgroup relations (solver-checked identities)" % ncert)


def ob_fq2_norm():
    P = prog()
    H = TowerHarness(P, 0, (0,), 60000)
    T, tm, I = H.T, H.tm, H.I
    fname = H.fn(B + r"Fq2::norm\(.*\) const")
    a = T.var(1, "a")

    def make_args():
        o, _ = tm.new_input("a", 1, a)
        oo = tm.new_output("out", 0)
        return [Ptr(o, 0), Ptr(oo, 0)], (lambda: tm.read(Ptr(oo, 0), 0))
    res = H.run(fname, make_args)
    want = T.add(0, T.sqr(0, a[0]), T.sqr(0, a[1]))
    for path, ret, out in res:
        ok, mdl = H.ring.equal(out, want, "norm")
        if not ok:
            raise Violation("Fq2::norm", "Fq2::norm is not c0^2 + c1^2", H.counterexample(mdl, {"function": fname, "level": 1, "method": "norm"}))
    # legendre = legendre(norm): trace
    I2 = eir.Interp(P)
    calls = []
    I2.add_intercept(B + r"Fq2::norm\(.*\) const", lambda I_, n, a_, s: calls.append(("norm", list(a_))), "norm")
    FQ = r"(?:%sFp<384,[^>]*fq_modulus_var[^>]*>|%sFq)" % (NS, B)
    I2.add_intercept(FQ + r"::legendre\(\) const", lambda I_, n, a_, s: (calls.append(("legendre", list(a_))), z3.BitVec("leg", 32))[1], "legendre")
    lname = P.find1(B + r"Fq2::legendre\(\) const")
    this = Obj("this", 96, "arg", 16, True)
    ret = I2.call_named(lname, [Ptr(this, 0)])
    ok = (len(calls) == 2 and calls[0][0] == "norm" and calls[0][1][0].obj is this and calls[1][0] == "legendre" and calls[1][1][0].obj is calls[0][1][1].obj
          and z3.is_expr(ret) and str(ret) == "leg")
    if not ok:
        raise Violation("Fq2::legendre", "Fq2::legendre is not the Legendre symbol of the norm", {})
    return dict(H.stats(), paths=len(res) + 1, sample="norm = c0^2 + c1^2; legendre = legendre(norm)")


def _fq2_sqrt_native_probe():
    """native replay of Fq2::square_root on elements of every shape (squares of the subfield, non-residues of the subfield, purely imaginary, generic
    squares): returns the first a with legendre(a) == 1 (or a == 0) whose returned root does not square to a."""
    import random
    from engine import replay
    rnd = random.Random(4)

    def m2(x, y):
        return ((x[0] * y[0] - x[1] * y[1]) % Q, (x[0] * y[1] + x[1] * y[0]) % Q)
    samples = [(0, 0), (1, 0), (4, 0), (9, 0), (Q - 2, 0), (Q - 1, 0), (2, 0), (0, 1), (0, Q - 1), (0, 2), (Q - 4, 0)]
    for _ in range(12):
        b = (rnd.randrange(Q), rnd.randrange(Q))
        samples.append(m2(b, b))
    for _ in range(4):
        samples.append((pow(rnd.randrange(Q), 2, Q), 0))
        b = (0, rnd.randrange(Q))
        samples.append(m2(b, b))
    hx = [replay.hex_fq(a[0]) + replay.hex_fq(a[1]) for a in samples]
    outs = replay.run(["tower 1 square_root 0 0 " + h for h in hx] + ["tower 1 legendre 0 0 " + h for h in hx], "A")
    n = len(samples)
    for k, a in enumerate(samples):
        r = (int(outs[k][:96], 16), int(outs[k][96:192], 16))
        norm = (a[0] * a[0] + a[1] * a[1]) % Q
        is_sq = a == (0, 0) or pow(norm, (Q - 1) // 2, Q) == 1
        if is_sq and m2(r, r) != a:
            return {"a": hx[k], "square_root": outs[k], "legendre": outs[n + k], "root_squared_equals_a": False}
    return None


def ob_fq2_sqrt():
    """Fq2::square_root against Algorithm 9 (Adj, Rodriguez-Henriquez) over uninterpreted field operations.  Fq2 values are terms of sort F2 with
    component projections c0, c1 : F2 -> F and extensionality, so that the branch condition may be written at either level (Fq2::equal(alpha, -1),
    or tests on alpha's components); the VC is out == want under the path condition where the selector of want is alpha == -1 *semantically*."""
    P = prog()
    S = z3.DeclareSort("F2")
    F = z3.DeclareSort("F")
    mul = z3.Function("mul", S, S, S)
    sq = z3.Function("sq", S, S)
    add = z3.Function("add", S, S, S)
    expf = z3.Function("exp", S, z3.IntSort(), S)
    c0f, c1f = z3.Function("c0", S, F), z3.Function("c1", S, F)
    a = z3.Const("a", S)
    ZERO, ONE, MINUS1, U = z3.Const("zero", S), z3.Const("one", S), z3.Const("minus_one", S), z3.Const("u", S)
    zF, oF, mF = z3.Const("zeroF", F), z3.Const("oneF", F), z3.Const("minus_oneF", F)
    x_, y_ = z3.Consts("x_ y_", S)
    AX = [z3.Distinct(zF, oF, mF),
          c0f(ZERO) == zF, c1f(ZERO) == zF, c0f(ONE) == oF, c1f(ONE) == zF, c0f(MINUS1) == mF, c1f(MINUS1) == zF, c0f(U) == zF, c1f(U) == oF,
          z3.ForAll([x_, y_], mul(x_, y_) == mul(y_, x_)), z3.ForAll([x_], sq(x_) == mul(x_, x_))]
    fname = P.find1(B + r"Fq2::square_root\(.*\)")
    RINV = pow(1 << 384, -1, Q)
    cmp_terms = []
    fconst = {0: zF, 1: oF, Q - 1: mF}
    f2const = {(0, 0): ZERO, (1, 0): ONE, (Q - 1, 0): MINUS1, (0, 1): U}

    I = eir.Interp(P)

    def conc_fq(p):
        v = I.load_bytes(p.obj, p.off, 48)
        return v * RINV % Q if is_conc(v) else None

    def rd(p):
        c = p.obj.cells.get(p.off)
        if c is not None and z3.is_expr(c[1]) and c[1].sort() == S:
            return c[1]
        v0, v1 = conc_fq(p), conc_fq(Ptr(p.obj, p.off + 48))
        if v0 is not None and v1 is not None:
            if (v0, v1) not in f2const:
                k = z3.Const("k2_%x_%x" % (v0 % (1 << 32), v1 % (1 << 32)), S)
                f2const[(v0, v1)] = k
                for w, prj in ((v0, c0f), (v1, c1f)):
                    AX.append(prj(k) == fconst.setdefault(w, z3.Const("kF_%x" % (w % (1 << 48)), F)))
            return f2const[(v0, v1)]
        raise ExecError("abstract-bytes", "Fq2 term expected at %r" % (p,))

    def rdF(p):
        """an Fq operand: a component of an abstract Fq2 cell, or a concrete constant"""
        for base in (p.off, p.off - 48):
            c = p.obj.cells.get(base)
            if c is not None and z3.is_expr(c[1]) and c[1].sort() == S:
                cmp_terms.append(c[1])
                return (c0f if base == p.off else c1f)(c[1])
        v = conc_fq(p)
        if v is not None:
            return fconst.setdefault(v, z3.Const("kF_%x" % (v % (1 << 48)), F))
        raise ExecError("abstract-bytes", "Fq term expected at %r" % (p,))

    def wr(p, v):
        I._check_access(p, 96, 1, True)
        I.store_cell(p.obj, p.off, 96, v)
    C = B + "Fq2"
    I.add_intercept(C + r"::multiply\(.*\)", lambda I_, n, a_, s: wr(a_[0], mul(rd(a_[1]), rd(a_[2]))), "multiply")
    I.add_intercept(C + r"::square\(.*\)", lambda I_, n, a_, s: wr(a_[0], sq(rd(a_[1]))), "square")
    I.add_intercept(C + r"::add\(.*\)", lambda I_, n, a_, s: wr(a_[0], add(rd(a_[1]), rd(a_[2]))), "add")
    I.add_intercept(C + r"::copy\(.*\)", lambda I_, n, a_, s: wr(a_[0], rd(a_[1])), "copy")

    def h_is_zero(I_, n, a_, s):
        x = rd(a_[0])
        cmp_terms.append(x)
        return x == ZERO

    def h_eq(I_, n, a_, s):
        x, y = rd(a_[0]), rd(a_[1])
        cmp_terms.extend([x, y])
        return x == y
    I.add_intercept(C + r"::is_zero\(\) const", h_is_zero, "is_zero")
    I.add_intercept(C + r"::equal\(.*\)", h_eq, "equal")
    for cls in (B + "Fq", NS + r"FpBase<384>", NS + r"Fp<384, .*>", NS + r"BigInt<384>"):
        I.add_intercept(cls + r"::is_zero\(\) const", lambda I_, n, a_, s: rdF(a_[0]) == zF, "Fq::is_zero")
        I.add_intercept(cls + r"::equal\(.*\)", lambda I_, n, a_, s: rdF(a_[0]) == rdF(a_[1]), "Fq::equal")

    def h_exp(I_, n, a_, s):
        e = I_.load_bytes(a_[2].obj, a_[2].off, 48)
        if not is_conc(e):
            raise ExecError("unsupported", "symbolic exponent")
        wr(a_[0], expf(rd(a_[1]), z3.IntVal(e)))
    I.add_intercept(r"void " + NS + r"exponentiate<" + C + r", " + NS + r"BigInt<384> ?>\(.*\)", h_exp, "exponentiate")

    def once():
        o = Obj("a", 96, "arg", 16, True)
        o.cells[0] = (96, a)
        out = Obj("out", 96, "arg", 16)
        I.call_named(fname, [Ptr(out, 0), Ptr(o, 0)])
        return rd(Ptr(out, 0))
    n = 0
    a1 = expf(a, z3.IntVal((Q - 3) // 4))
    alpha = mul(sq(a1), a)
    x0 = mul(a1, a)
    want = z3.If(a == ZERO, a, z3.If(alpha == MINUS1, mul(x0, U), mul(x0, expf(add(alpha, ONE), z3.IntVal((Q - 1) // 2)))))
    nq = 0
    for path, out in I.explore(once, 16):
        n += 1
        s = z3.Solver()
        s.set("timeout", 20000)
        for ax in AX:
            s.add(ax)
        # extensionality, instantiated for every term that was compared (at either level) against every named constant
        terms = {t.get_id(): t for t in cmp_terms + [a, alpha]}.values()
        for t in terms:
            for k in list(f2const.values()):
                s.add(z3.And(c0f(t) == c0f(k), c1f(t) == c1f(k)) == (t == k))
        for c in path.pc:
            s.add(c)
        s.add(out != want)
        r = s.check()
        nq += 1
        if r == z3.sat:
            m = s.model()
            shape = {"a_is_zero": str(m.eval(a == ZERO)), "alpha_is_minus_one": str(m.eval(alpha == MINUS1)),
                     "alpha_c1_is_zero": str(m.eval(c1f(alpha) == zF)), "alpha_c0_is_minus_one": str(m.eval(c0f(alpha) == mF))}
            ce = {"path": n, "model_shape": shape}
            nat = _fq2_sqrt_native_probe()
            if nat is not None:
                ce["native_replay"] = nat
            raise Violation("Fq2::square_root:conformance", "Fq2::square_root does not follow Algorithm 9 (a1 = a^((q-3)/4), alpha = a1^2 a, x0 = a1 a; "
                            "x0*u exactly when alpha = -1, else x0*(1+alpha)^((q-1)/2)): a path returns another term" +
                            ("; natively the returned root of a square does not square to it" if nat else ""), ce)
        if r != z3.unsat:
            raise Inconclusive("solver answered %s on the conformance VC of path %d" % (r, n))
    if Q % 4 != 3 or n < 3:
        raise Inconclusive("expected at least three paths (zero, alpha = -1, general), saw %d" % n)
    return {"queries": nq, "paths": n, "functions": [P.demangled[fname][:60]],
            "sample": "%d paths conform to Algorithm 9 with the branch decided by alpha == -1 (component-level tests admitted through c0/c1 extensionality); exponents (q-3)/4 and (q-1)/2" % n}


def ob_fq2_exponentiate():
    import c02_loops
    return c02_loops.ob_exponentiate_loop("Fq2", prog())


def register(chk):
    chk.add("Fq12::map_to_cyclotomic", ob_map_to_cyclotomic)
    chk.add("Fq12::square_cyclotomic", ob_square_cyclotomic)
    chk.add("Fq2::norm+legendre", ob_fq2_norm)
    chk.add("Fq2::square_root", ob_fq2_sqrt)
    chk.add("Fq2::exponentiate", ob_fq2_exponentiate)
