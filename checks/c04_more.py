"""C04, remaining clauses (DESIGN.md section 5, C04): cyclotomic subgroup, Fq2 norm / Legendre symbol / square root, exponentiation.

 map_to_cyclotomic   executed over exponents modulo q^12 - 1 (conjugate = q^6, inverse = -1, frobenius_map(k) = q^k, multiply = +): exponent (q^6 - 1)(q^2 + 1)
 square_cyclotomic   = square on every element of the cyclotomic subgroup.  Over 12 Fq indeterminates both results are polynomials; their difference D is shown
                     to lie in the ideal of the subgroup's defining relations  a * conj(a) = 1  and  a^(q^4) * a = a^(q^2)  (24 quadratic polynomials R_k):
                     an UNTRUSTED finder (Gaussian elimination modulo q on coefficient vectors) proposes constants m_jk with D_j = sum_k m_jk R_k and z3
                     checks each such identity (a polynomial identity modulo q).  No certificate => not decided (never reported as passed).
 Fq2::norm           c0^2 + c1^2 (D-RING)            Fq2::legendre = legendre(norm)  (trace)
 Fq2::square_root    conformance with Algorithm 9 of Adj & Rodriguez-Henriquez over uninterpreted field operations: exponents (q-3)/4 and (q-1)/2 (ground),
                     x0 = a1*a, alpha = a1^2*a, result x0*u if alpha = -1 else x0*(1+alpha)^((q-1)/2); zero maps to zero.  (T5 gives result^2 = a on squares.)
 exponentiate<Fq2>   the generic square-and-multiply loop by loop cut (shared with C02)
"""
import sys
import os
sys.path.insert(0, os.path.dirname(os.path.dirname(os.path.abspath(__file__))))
sys.path.insert(0, os.path.dirname(os.path.abspath(__file__)))

import z3
from engine import build, eir, tower, dom_ring
from engine.eir import Ptr, Obj, is_conc, ExecError
from engine.framework import Violation, Inconclusive
from engine.harness import TowerHarness
from engine.tower import Q
import c04

B = "embedded_pairing::bls12_381::"
NS = "embedded_pairing::core::"
_PROG = {}


def prog():
    if "p" not in _PROG:
        _PROG["p"] = build.load_program("A", files=["src/bls12_381/fq2.cpp", "src/bls12_381/fq6.cpp", "src/bls12_381/fq12.cpp", "src/bls12_381/fq12_cyclotomic.cpp",
                                                    "src/bls12_381/fq.cpp"], tag="c04_more")
        _PROG["p"].demangle_all()
    return _PROG["p"]


def ob_map_to_cyclotomic():
    P = prog()
    I = eir.Interp(P)
    N = Q ** 12 - 1

    def rd(p):
        c = p.obj.cells.get(p.off)
        if c is not None and c[0] == 576 and isinstance(c[1], tuple) and c[1][0] == "exp":
            return c[1][1]
        raise ExecError("abstract-bytes", "exponent cell expected at %r" % (p,))

    def wr(p, e):
        I._check_access(p, 576, 1, True)
        I.store_cell(p.obj, p.off, 576, ("exp", e % N))
    I.add_intercept(B + r"Fq12::conjugate\(.*\)", lambda I_, n, a, s: wr(a[0], rd(a[1]) * Q ** 6), "conjugate")
    I.add_intercept(B + r"Fq12::inverse\(.*\)", lambda I_, n, a, s: wr(a[0], -rd(a[1])), "inverse")
    I.add_intercept(B + r"Fq12::multiply\(.*Fq12 const&, .*Fq12 const&\)", lambda I_, n, a, s: wr(a[0], rd(a[1]) + rd(a[2])), "multiply")
    I.add_intercept(B + r"Fq12::frobenius_map\(.*\)", lambda I_, n, a, s: wr(a[0], rd(a[1]) * Q ** a[2]), "frobenius_map")
    fname = P.find1(B + r"Fq12::map_to_cyclotomic\(.*\)")
    for alias in (False, True):
        a = Obj("a", 576, "arg", 16, not alias)
        a.cells[0] = (576, ("exp", 1))
        out = a if alias else Obj("out", 576, "arg", 16)
        I.call_named(fname, [Ptr(out, 0), Ptr(a, 0)])
        e = rd(Ptr(out, 0))
        if e != (Q ** 6 - 1) * (Q ** 2 + 1) % N:
            raise Violation("map_to_cyclotomic:%s" % ("alias" if alias else "distinct"), "map_to_cyclotomic does not raise to (q^6 - 1)(q^2 + 1)", {"alias": alias})
    return {"queries": 2, "paths": 2, "functions": [P.demangled[fname][:80]], "sample": "exponent (q^6-1)(q^2+1), distinct and aliased output"}


def solve_mod_q(cols, target):
    """find x with sum_k x_k cols[k] = target (vectors as dicts monomial -> coeff mod q); Gaussian elimination mod q; None if inconsistent"""
    monos = sorted(set(m for c in cols for m in c) | set(target), key=str)
    rows = [[c.get(m, 0) % Q for c in cols] + [target.get(m, 0) % Q] for m in monos]
    ncol = len(cols)
    piv = []
    r = 0
    for c in range(ncol):
        pr = None
        for i in range(r, len(rows)):
            if rows[i][c]:
                pr = i
                break
        if pr is None:
            continue
        rows[r], rows[pr] = rows[pr], rows[r]
        inv = pow(rows[r][c], -1, Q)
        rows[r] = [v * inv % Q for v in rows[r]]
        for i in range(len(rows)):
            if i != r and rows[i][c]:
                f = rows[i][c]
                rows[i] = [(v - f * w) % Q for v, w in zip(rows[i], rows[r])]
        piv.append((r, c))
        r += 1
    for i in range(r, len(rows)):
        if rows[i][ncol]:
            return None
    x = [0] * ncol
    for (ri, c) in piv:
        x[c] = rows[ri][ncol]
    return x


def ob_square_cyclotomic():
    P = prog()
    H = TowerHarness(P, 0, (0, 1, 2), 120000)
    T, tm, I = H.T, H.tm, H.I
    fname = H.fn(c04.method(3, "square_cyclotomic"))
    a = T.var(3, "a")

    def make_args():
        o, _ = tm.new_input("a", 3, a)
        oo = tm.new_output("out", 3)
        return [Ptr(oo, 0), Ptr(o, 0)], (lambda: tm.read(Ptr(oo, 0), 3))
    res = H.run(fname, make_args)
    R = H.ring
    one = T.one(3)
    rel1 = T.sub(3, T.mul(3, a, T.conj(3, a)), one)
    rel2 = T.sub(3, T.mul(3, T.frobenius(3, a, 4), a), T.frobenius(3, a, 2))
    rels = T.flatten(3, rel1) + T.flatten(3, rel2)
    cols = [r.pn.t for r in rels]
    ncert = 0
    for path, ret, out in res:
        D = T.flatten(3, T.sub(3, out, T.sqr(3, a)))
        for j, d in enumerate(D):
            if d.pn.is_zero():
                ok, _ = R.is_zero(d, "cyc[%d]" % j)
                if not ok:
                    raise Inconclusive("helper and solver disagree")
                continue
            x = solve_mod_q(cols, d.pn.t)
            if x is None:
                # not in the span of the relations: genuinely different from squaring on the subgroup? confirm with a concrete subgroup element natively
                raise Violation("square_cyclotomic:component-%d" % j, "square_cyclotomic differs from square by a polynomial that is not a combination of the cyclotomic-subgroup relations (component %d)" % j,
                                {"function": fname, "level": 3, "method": "square_cyclotomic", "component": j, "assignment": {}})
            term = d.n
            for xk, rk in zip(x, rels):
                if xk:
                    term = term - xk * rk.n
            ok, mdl = R.prove_zero_term(term, "cyc-cert[%d]" % j)
            if not ok:
                raise Inconclusive("certificate for component %d rejected by the solver" % j)
            ncert += 1
    if ncert == 0:
        raise Inconclusive("square_cyclotomic equals square identically: no certificate was exercised (unexpected)")
    return dict(H.stats(), paths=len(res), sample="%d components certified as combinations of the 24 subgroup relations (solver-checked identities)" % ncert)


def ob_fq2_norm():
    P = prog()
    H = TowerHarness(P, 0, (0,), 60000)
    T, tm, I = H.T, H.tm, H.I
    fname = H.fn(B + r"Fq2::norm\(.*\) const")
    a = T.var(1, "a")

    def make_args():
        o, _ = tm.new_input("a", 1, a)
        oo = tm.new_output("out", 0)
        return [Ptr(o, 0), Ptr(oo, 0)], (lambda: tm.read(Ptr(oo, 0), 0))
    res = H.run(fname, make_args)
    want = T.add(0, T.sqr(0, a[0]), T.sqr(0, a[1]))
    for path, ret, out in res:
        ok, mdl = H.ring.equal(out, want, "norm")
        if not ok:
            raise Violation("Fq2::norm", "Fq2::norm is not c0^2 + c1^2", H.counterexample(mdl, {"function": fname, "level": 1, "method": "norm"}))
    # legendre = legendre(norm): trace
    I2 = eir.Interp(P)
    calls = []
    I2.add_intercept(B + r"Fq2::norm\(.*\) const", lambda I_, n, a_, s: calls.append(("norm", list(a_))), "norm")
    FQ = r"(?:%sFp<384,[^>]*fq_modulus_var[^>]*>|%sFq)" % (NS, B)
    I2.add_intercept(FQ + r"::legendre\(\) const", lambda I_, n, a_, s: (calls.append(("legendre", list(a_))), z3.BitVec("leg", 32))[1], "legendre")
    lname = P.find1(B + r"Fq2::legendre\(\) const")
    this = Obj("this", 96, "arg", 16, True)
    ret = I2.call_named(lname, [Ptr(this, 0)])
    ok = (len(calls) == 2 and calls[0][0] == "norm" and calls[0][1][0].obj is this and calls[1][0] == "legendre" and calls[1][1][0].obj is calls[0][1][1].obj
          and z3.is_expr(ret) and str(ret) == "leg")
    if not ok:
        raise Violation("Fq2::legendre", "Fq2::legendre is not the Legendre symbol of the norm", {})
    return dict(H.stats(), paths=len(res) + 1, sample="norm = c0^2 + c1^2; legendre = legendre(norm)")


def ob_fq2_sqrt():
    P = prog()
    S = z3.DeclareSort("F2")
    mul = z3.Function("mul", S, S, S)
    sq = z3.Function("sq", S, S)
    add = z3.Function("add", S, S, S)
    expf = z3.Function("exp", S, z3.IntSort(), S)
    a = z3.Const("a", S)
    ONE, MINUS1, U = z3.Const("one", S), z3.Const("minus_one", S), z3.Const("u", S)
    is_zero = z3.Bool("a_is_zero")
    eq_m1 = z3.Bool("alpha_is_minus_one")
    fname = P.find1(B + r"Fq2::square_root\(.*\)")
    Qm1 = Q - 1
    consts = {}

    def raw_const(I, p):
        """identify concrete Fq2 constants by value (canonical ints)"""
        RINV = pow(1 << 384, -1, Q)
        c0 = I.load_bytes(p.obj, p.off, 48)
        c1 = I.load_bytes(p.obj, p.off + 48, 48)
        if not (is_conc(c0) and is_conc(c1)):
            return None
        v = (c0 * RINV % Q, c1 * RINV % Q)
        return {(1, 0): ONE, (Q - 1, 0): MINUS1, (0, 1): U}.get(v)

    outs = []
    I = eir.Interp(P)

    def rd(p):
        c = p.obj.cells.get(p.off)
        if c is not None and z3.is_expr(c[1]) and c[1].sort() == S:
            return c[1]
        k = raw_const(I, p)
        if k is not None:
            return k
        raise ExecError("abstract-bytes", "Fq2 term expected at %r" % (p,))

    def wr(p, v):
        I._check_access(p, 96, 1, True)
        I.store_cell(p.obj, p.off, 96, v)
    C = B + "Fq2"
    I.add_intercept(C + r"::multiply\(.*\)", lambda I_, n, a_, s: wr(a_[0], mul(rd(a_[1]), rd(a_[2]))), "multiply")
    I.add_intercept(C + r"::square\(.*\)", lambda I_, n, a_, s: wr(a_[0], sq(rd(a_[1]))), "square")
    I.add_intercept(C + r"::add\(.*\)", lambda I_, n, a_, s: wr(a_[0], add(rd(a_[1]), rd(a_[2]))), "add")
    I.add_intercept(C + r"::copy\(.*\)", lambda I_, n, a_, s: wr(a_[0], rd(a_[1])), "copy")
    I.add_intercept(C + r"::is_zero\(\) const", lambda I_, n, a_, s: is_zero, "is_zero")

    def h_eq(I_, n, a_, s):
        x, y = rd(a_[0]), rd(a_[1])
        consts["eq"] = (x, y)
        return eq_m1
    I.add_intercept(C + r"::equal\(.*\)", h_eq, "equal")

    def h_exp(I_, n, a_, s):
        e = I_.load_bytes(a_[2].obj, a_[2].off, 48)
        if not is_conc(e):
            raise ExecError("unsupported", "symbolic exponent")
        wr(a_[0], expf(rd(a_[1]), z3.IntVal(e)))
    I.add_intercept(r"void " + NS + r"exponentiate<" + C + r", " + NS + r"BigInt<384> ?>\(.*\)", h_exp, "exponentiate")

    def once():
        o = Obj("a", 96, "arg", 16, True)
        o.cells[0] = (96, a)
        out = Obj("out", 96, "arg", 16)
        I.call_named(fname, [Ptr(out, 0), Ptr(o, 0)])
        return rd(Ptr(out, 0))
    n = 0
    a1 = expf(a, z3.IntVal((Q - 3) // 4))
    alpha = mul(sq(a1), a)
    x0 = mul(a1, a)
    for path, out in I.explore(once, 16):
        n += 1
        s = z3.Solver()
        for c in path.pc:
            s.add(c)
        want = z3.If(is_zero, a, z3.If(eq_m1, mul(x0, U), mul(x0, expf(add(alpha, ONE), z3.IntVal((Q - 1) // 2)))))
        s.add(out != want)
        if s.check() != z3.unsat:
            raise Violation("Fq2::square_root:conformance", "Fq2::square_root does not follow Algorithm 9 (a1 = a^((q-3)/4), alpha = a1^2 a, x0 = a1 a, x0*u or x0*(1+alpha)^((q-1)/2))", {"path": n})
        if "eq" in consts:
            s2 = z3.Solver()
            x, y = consts["eq"]
            s2.add(z3.Not(z3.Or(z3.And(x == alpha, y == MINUS1), z3.And(y == alpha, x == MINUS1))))
            if s2.check() != z3.unsat:
                raise Violation("Fq2::square_root:branch", "the branch of Fq2::square_root does not test alpha == -1", {})
    if Q % 4 != 3 or n < 3:
        raise Inconclusive("expected three paths (zero, alpha = -1, general), saw %d" % n)
    return {"queries": 2 * n, "paths": n, "functions": [P.demangled[fname][:60]], "sample": "3 paths conform to Algorithm 9; exponents (q-3)/4 and (q-1)/2"}


def ob_fq2_exponentiate():
    import c02_loops
    return c02_loops.ob_exponentiate_loop("Fq2", prog())


def register(chk):
    chk.add("Fq12::map_to_cyclotomic", ob_map_to_cyclotomic)
    chk.add("Fq12::square_cyclotomic", ob_square_cyclotomic)
    chk.add("Fq2::norm+legendre", ob_fq2_norm)
    chk.add("Fq2::square_root", ob_fq2_sqrt)
    chk.add("Fq2::exponentiate", ob_fq2_exponentiate)
