"""C04 - extension-field tower implements the defining polynomial arithmetic (DESIGN.md section 5)."""
import sys
import os
sys.path.insert(0, os.path.dirname(os.path.dirname(os.path.abspath(__file__))))

from engine import build, eir, tower, dom_ring
from engine.eir import Ptr, is_conc, ExecError
from engine.framework import Check, Violation, Inconclusive
from engine.harness import TowerHarness
from engine.tower import SIZES, CLASS, Q, NS
import z3

CLSNAME = [None, NS + "bls12_381::Fq2", NS + "bls12_381::Fq6", NS + "bls12_381::Fq12"]


def method(level, name, args=r"\(.*\)", const=False):
    return CLSNAME[level] + "::" + name + args + (" const" if const else "")


def tower_op(prog, level, mname, al, intercepts, in_levels, spec, alias=None, out_level=None, cases=None,
             timeout_ms=60000, argpat=r"\(.*\)"):
    """Run CLASS[level]::mname(out, in...) symbolically, compare `out` with spec(T, *inputs).
    alias: None or tuple of input indices whose object is the output object."""
    out_level = level if out_level is None else out_level
    H = TowerHarness(prog, al, intercepts, timeout_ms)
    T, tm, I = H.T, H.tm, H.I
    fname = H.fn(method(level, mname, argpat))
    names = ["a", "b", "c", "d"]
    vals = [T.var(l, names[i]) for i, l in enumerate(in_levels)]

    def make_args():
        objs = []
        for i, l in enumerate(in_levels):
            o, _ = tm.new_input(names[i], l, vals[i])
            objs.append(o)
        if alias:
            oo = objs[alias[0]]
            for j in alias[1:]:
                # out = a = b: b's object is a's object too (only meaningful when the values coincide)
                objs[j] = oo
        else:
            oo = tm.new_output("out", out_level)
        args = [Ptr(oo, 0)] + [Ptr(o, 0) for o in objs]
        return args, (lambda: tm.read(Ptr(oo, 0), out_level))
    use_vals = list(vals)
    if alias and len(alias) > 1:
        for j in alias[1:]:
            use_vals[j] = vals[alias[0]]
    expected = spec(T, *use_vals)
    try:
        res = H.run(fname, make_args)
    except eir.MemViolation as e:
        # A-MEM assertion (e.g. a __restrict argument overlapping the written object) on the way: report it as a violation of
        # this obligation; native replay on random operands decides whether it is observable
        v = Violation("%s::%s:%s" % (CLASS[level], mname, "alias=" + ",".join(map(str, alias)) if alias else "distinct"),
                      "%s::%s%s: %s" % (CLASS[level], mname, " with output aliasing input(s) %r" % (alias,) if alias else "", e),
                      {"function": fname, "level": level, "method": mname, "in_levels": list(in_levels),
                       "alias": list(alias) if alias else None, "assignment": {}, "mem_violation": e.kind})
        v.info = dict(H.stats())
        raise v
    for path, ret, out in res:
        ok, idx, mdl = T.equal(out_level, out, expected, mname)
        if not ok:
            v = Violation("%s::%s:%s" % (CLASS[level], mname, "alias=" + ",".join(map(str, alias)) if alias else "distinct"),
                          "%s::%s output component %d differs from the quotient-ring specification%s" % (
                              CLASS[level], mname, idx, " when the output aliases input(s) %r" % (alias,) if alias else ""),
                          H.counterexample(mdl, {"function": fname, "level": level, "method": mname, "in_levels": list(in_levels),
                                                 "alias": list(alias) if alias else None}))
            v.info = dict(H.stats(), paths=len(res))
            raise v
    if not I.intercept_hits:
        raise Inconclusive("no intercept was hit while running " + fname)
    H.require_justified()
    return dict(H.stats(), paths=len(res), sample="%s::%s over %s atoms" % (CLASS[level], mname, CLASS[al]))


def inverse_op(prog, level, alias=False, timeout_ms=120000):
    """out * a == 1 for a != 0 (norm non-zero: T-field), out == 0 for a == 0.  Atoms are one level below."""
    al = level - 1
    info = {}
    for case in ("nonzero", "zero"):
        H = TowerHarness(prog, al, (al,), timeout_ms)
        T, tm, I = H.T, H.tm, H.I
        fname = H.fn(method(level, "inverse"))
        a = T.var(level, "a") if case == "nonzero" else T.zero(level)
        if case == "nonzero":
            # norm down to the atom level: the only quantity whose inverse is taken
            if level in (1, 3):
                n = T.sub(al, T.sqr(al, a[0]), T.mul_nr(al, T.sqr(al, a[1])))
            else:
                a0, a1, a2 = a
                m = lambda x, y: T.mul(1, x, y)
                nr = lambda x: T.mul_nr(1, x)
                c0 = T.sub(1, T.sqr(1, a0), nr(m(a1, a2)))
                c1 = T.sub(1, nr(T.sqr(1, a2)), m(a0, a1))
                c2 = T.sub(1, T.sqr(1, a1), m(a0, a2))
                n = T.add(1, m(a0, c0), nr(T.add(1, m(a2, c1), m(a1, c2))))
            H.oracle.nonzero = [n]

        def make_args():
            o, _ = tm.new_input("a", level, a)
            oo = o if alias else tm.new_output("out", level)
            return [Ptr(oo, 0), Ptr(o, 0)], (lambda: tm.read(Ptr(oo, 0), level))
        res = H.run(fname, make_args)
        for path, ret, out in res:
            if case == "nonzero":
                prod = T.mul(level, out, a)
                ok, idx, mdl = T.equal(level, prod, T.one(level), "inverse")
            else:
                ok, idx, mdl = T.equal(level, out, T.zero(level), "inverse(0)")
            if not ok:
                v = Violation("%s::inverse:%s:%s" % (CLASS[level], case, "alias" if alias else "distinct"),
                              "%s::inverse: %s" % (CLASS[level], "out*a != 1" if case == "nonzero" else "inverse(0) != 0"),
                              H.counterexample(mdl, {"function": fname, "level": level, "method": "inverse", "case": case,
                                                     "atom_level": al, "alias": [0] if alias else None}))
                v.info = H.stats()
                raise v
        H.require_justified()
        st = H.stats()
        for k, v in st.items():
            info[k] = info.get(k, 0) + v if not isinstance(v, list) else v
        info["paths"] = info.get("paths", 0) + len(res)
    info["sample"] = "%s::inverse over %s atoms: out*a==1 (norm!=0), inverse(0)==0" % (CLASS[level], CLASS[al])
    return info


def frobenius_op(prog, level, timeout_ms=60000):
    """all 2^32 powers: the table index is a bit-vector function of `power`; every feasible index is explored as a
    separate path whose path condition pins power mod period, and the output must equal a^(q^k)."""
    period = {1: 2, 2: 6, 3: 12}[level]
    H = TowerHarness(prog, 0, tuple(range(level)), timeout_ms)
    T, tm, I = H.T, H.tm, H.I
    fname = H.fn(method(level, "frobenius_map"))
    a = T.var(level, "a")
    power = z3.BitVec("power", 32)

    def make_args():
        o, _ = tm.new_input("a", level, a)
        oo = tm.new_output("out", level)
        return [Ptr(oo, 0), Ptr(o, 0), power], (lambda: tm.read(Ptr(oo, 0), level))
    res = H.run(fname, make_args)
    seen = set()
    nq = 0
    for path, ret, out in res:
        # which residue class of power does this path cover?
        s = z3.Solver()
        s.add(*path.pc)
        if s.check() != z3.sat:
            raise Inconclusive("path condition unsatisfiable")
        p1 = s.model().eval(power, model_completion=True).as_long()
        k = p1 % period
        s2 = z3.Solver()
        s2.add(*path.pc)
        s2.add(z3.URem(power, z3.BitVecVal(period, 32)) != k)
        nq += 2
        r = s2.check()
        if r == z3.sat:
            pw = s2.model().eval(power, model_completion=True).as_long()
            raise Violation("%s::frobenius_map:index" % CLASS[level],
                            "table index for power=%d coincides with that of a power in another residue class mod %d" % (pw, period),
                            {"function": fname, "level": level, "method": "frobenius_map", "power": pw, "powers": [pw, p1]})
        if r != z3.unsat:
            raise Inconclusive("solver unknown on index arithmetic")
        seen.add(k)
        expected = T.frobenius(level, a, k)
        ok, idx, mdl = T.equal(level, out, expected, "frobenius_map[%d]" % k)
        if not ok:
            raise Violation("%s::frobenius_map:power=%d" % (CLASS[level], k),
                            "%s::frobenius_map(power = %d mod %d) component %d is not a^(q^k)" % (CLASS[level], k, period, idx),
                            H.counterexample(mdl, {"function": fname, "level": level, "method": "frobenius_map", "power": k}))
    if seen != set(range(period)):
        raise Inconclusive("frobenius paths cover residues %r only" % sorted(seen))
    st = H.stats()
    st["queries"] += nq
    return dict(st, paths=len(res), sample="%s::frobenius_map for all 2^32 powers (%d residue classes)" % (CLASS[level], period))


def predicate_op(prog, level, mname, nargs):
    """is_zero / equal: the returned predicate is the conjunction over all Fq components"""
    H = TowerHarness(prog, 0, (0,), 30000)
    T, tm, I = H.T, H.tm, H.I
    H.oracle.allow_fork = True
    fname = H.fn(method(level, mname, const=(mname == "is_zero")))
    vals = [T.var(level, n) for n in ["a", "b"][:nargs]]

    def make_args():
        objs = [tm.new_input(n, level, v)[0] for n, v in zip(["a", "b"], vals)]
        return [Ptr(o, 0) for o in objs], (lambda: None)
    res = H.run(fname, make_args, max_paths=8192)
    ncomp = len(T.flatten(level, vals[0]))
    n_true = 0
    for path, ret, _ in res:
        if not is_conc(ret):
            raise Inconclusive("%s returned a non-concrete value on a fully decided path" % mname)
        truths = [t for (_, t) in path.hyps]
        expect = all(truths) and len(truths) == ncomp
        if bool(ret) != expect:
            raise Violation("%s::%s" % (CLASS[level], mname), "%s::%s returns %r after component tests %r" % (CLASS[level], mname, bool(ret), truths),
                            {"function": fname, "component_tests": truths})
        if all(truths) and len(set(id(a[1]) for a, _ in path.hyps)) != ncomp:
            raise Violation("%s::%s" % (CLASS[level], mname), "a component is tested twice and another never", {"function": fname})
        n_true += bool(ret)
    if n_true != 1:
        raise Inconclusive("expected exactly one all-true path")
    return dict(H.stats(), paths=len(res), sample="%s::%s over all zero/non-zero patterns of %d components" % (CLASS[level], mname, ncomp))


def ground_constants():
    """irreducibility of the tower polynomials (needed for 'norm != 0'): ground arithmetic in the reference"""
    if Q % 4 != 3:
        raise Violation("ground:q mod 4", "q is not 3 mod 4")
    xi = (1, 1)
    if tower.fq2_pow(xi, (Q * Q - 1) // 2) == (1, 0):
        raise Violation("ground:xi square", "xi is a square in Fq2")
    if tower.fq2_pow(xi, (Q * Q - 1) // 3) == (1, 0):
        raise Violation("ground:xi cube", "xi is a cube in Fq2")
    return {"queries": 3, "sample": "q = 3 mod 4; xi = 1+u is neither a square nor a cube in Fq2"}


# ---- specs
def S_add(k):
    return lambda T, a, b: T.add(k, a, b)


def S_sub(k):
    return lambda T, a, b: T.sub(k, a, b)


def S_mul(k):
    return lambda T, a, b: T.mul(k, a, b)


def S_sqr(k):
    return lambda T, a: T.sqr(k, a)


def S_dbl(k):
    return lambda T, a: T.dbl(k, a)


def S_neg(k):
    return lambda T, a: T.neg(k, a)


def register(chk, prog, thorough):
    chk.add("ground:tower-irreducible", ground_constants)
    for k in (1, 2, 3):
        ic = tuple(range(k))            # intercept every level below k with its specification
        C = CLASS[k]
        chk.add(C + "::add", tower_op, prog, k, "add", 0, ic, (k, k), S_add(k))
        chk.add(C + "::subtract", tower_op, prog, k, "subtract", 0, ic, (k, k), S_sub(k))
        chk.add(C + "::multiply2", tower_op, prog, k, "multiply2", 0, ic, (k,), S_dbl(k))
        chk.add(C + "::negate", tower_op, prog, k, "negate", 0, ic, (k,), S_neg(k))
        chk.add(C + "::copy", tower_op, prog, k, "copy", 0, ic, (k,), lambda T, a: a)
        chk.add(C + "::multiply", tower_op, prog, k, "multiply", 0, ic, (k, k), S_mul(k), None, None, None, 120000,
                r"\(%s const&, %s const&\)" % (CLSNAME[k], CLSNAME[k]))
        chk.add(C + "::square", tower_op, prog, k, "square", 0, ic, (k,), S_sqr(k))
        chk.add(C + "::inverse", inverse_op, prog, k)
        chk.add(C + "::frobenius_map", frobenius_op, prog, k)
        chk.add(C + "::is_zero", predicate_op, prog, k, "is_zero", 1)
        chk.add(C + "::equal", predicate_op, prog, k, "equal", 2)
    chk.add("Fq2::multiply_by_nonresidue", tower_op, prog, 1, "multiply_by_nonresidue", 0, (0,), (1,),
            lambda T, a: T.mul(1, a, T.from_ints(1, (1, 1))))
    chk.add("Fq6::multiply_by_nonresidue", tower_op, prog, 2, "multiply_by_nonresidue", 0, (0, 1), (2,),
            lambda T, a: T.mul(2, a, (T.zero(1), T.one(1), T.zero(1))))
    chk.add("Fq6::multiply_by_c1", tower_op, prog, 2, "multiply_by_c1", 0, (0, 1), (2, 1),
            lambda T, a, c1: T.mul(2, a, (T.zero(1), c1, T.zero(1))))
    chk.add("Fq6::multiply_by_c01", tower_op, prog, 2, "multiply_by_c01", 0, (0, 1), (2, 1, 1),
            lambda T, a, c0, c1: T.mul(2, a, (c0, c1, T.zero(1))))
    chk.add("Fq12::multiply_by_c014", tower_op, prog, 3, "multiply_by_c014", 0, (0, 1, 2), (3, 1, 1, 1),
            lambda T, a, c0, c1, c4: T.mul(3, a, ((c0, c1, T.zero(1)), (T.zero(1), c4, T.zero(1)))))
    chk.add("Fq12::conjugate", tower_op, prog, 3, "conjugate", 0, (0, 1, 2), (3,), lambda T, a: T.conj(3, a))


def _names(level, name):
    if level == 0:
        return [name]
    out = []
    for i in range(tower.ARITY[level]):
        out += _names(level - 1, "%s_%d" % (name, i))
    return out


def _nest(level, flat):
    if level == 0:
        return flat.pop(0)
    return tuple(_nest(level - 1, flat) for _ in range(tower.ARITY[level]))


REPLAY_SPECS = {
    "add": lambda T, k, v, pw: T.add(k, v[0], v[1]), "subtract": lambda T, k, v, pw: T.sub(k, v[0], v[1]),
    "multiply": lambda T, k, v, pw: T.mul(k, v[0], v[1]), "square": lambda T, k, v, pw: T.sqr(k, v[0]),
    "multiply2": lambda T, k, v, pw: T.dbl(k, v[0]), "negate": lambda T, k, v, pw: T.neg(k, v[0]),
    "copy": lambda T, k, v, pw: v[0], "frobenius_map": lambda T, k, v, pw: T.frobenius(k, v[0], pw),
    "multiply_by_nonresidue": lambda T, k, v, pw: T.mul_nr(k, v[0]), "conjugate": lambda T, k, v, pw: T.conj(3, v[0]),
    "multiply_by_c1": lambda T, k, v, pw: T.mul(2, v[0], (T.zero(1), v[1], T.zero(1))),
    "multiply_by_c01": lambda T, k, v, pw: T.mul(2, v[0], (v[1], v[2], T.zero(1))),
    "multiply_by_c014": lambda T, k, v, pw: T.mul(3, v[0], ((v[1], v[2], T.zero(1)), (T.zero(1), v[3], T.zero(1)))),
}


def replay_tower(res, config="A"):
    """replay a counterexample natively: model point first (if it is over Fq atoms), then seeded random points;
    reproduced iff the real library's output differs from the concrete evaluation of the specification"""
    import random
    from engine import replay
    ce = res.counterexample or {}
    if "method" not in ce or "level" not in ce:
        return None
    level, mname = ce["level"], ce["method"]
    if mname == "square_cyclotomic":
        # needs elements of the cyclotomic subgroup: map random elements into it natively, then compare the fast squaring with the plain one
        rng = random.Random(int(os.environ.get("VERIF_SEED", "0")) + 3)
        for _ in range(4):
            ahex = "".join("%096x" % rng.randrange(Q) for _ in range(12))
            c = replay.run(["tower 3 map_to_cyclotomic 0 0 " + ahex], config)[0]
            fast, plain = replay.run(["tower 3 square_cyclotomic 0 0 " + c, "tower 3 square 0 0 " + c], config)
            if fast != plain:
                ce["native_replay"] = {"cyclotomic_element": c[:96] + "...", "square_cyclotomic": fast[:96] + "...", "square": plain[:96] + "..."}
                return True
        return False
    in_levels = ce.get("in_levels") or [level]
    alias = ce.get("alias") or []
    power = ce.get("power", 0) or 0
    if ce.get("powers") and not ce.get("_power_loop"):
        # several candidate powers (table-index collision): the violation reproduces if any of them does
        for pw in ce["powers"]:
            sub = dict(ce, power=pw, _power_loop=True)
            class R_:
                counterexample = sub
            if replay_tower(R_, config):
                ce["native_replay"] = sub.get("native_replay")
                ce["power"] = pw
                return True
        return False
    rng = random.Random(int(os.environ.get("VERIF_SEED", "0")) + 1)
    ring = dom_ring.Ring(Q)
    T = tower.Tower(ring, 0)
    names = ["a", "b", "c", "d"]
    points = []
    asg = {k: int(v, 16) for k, v in ce.get("assignment", {}).items()}
    if ce.get("atom_level", 0) == 0 and asg:
        points.append([[asg.get(n, 0) for n in _names(l, names[i])] for i, l in enumerate(in_levels)])
    if ce.get("case") == "zero":
        points = [[[0] * len(_names(l, "a")) for l in in_levels]]
    else:
        for _ in range(6):
            points.append([[rng.randrange(Q) for _ in _names(l, names[i])] for i, l in enumerate(in_levels)])
    mask = 0
    for j in alias:
        mask |= 1 << j
    tried = []
    for pt in points:
        if len(alias) > 1:
            for j in alias[1:]:
                pt[j] = pt[alias[0]]
        hexes = ["".join(replay.hex_fq(x) for x in comp) for comp in pt]
        out = replay.run(["tower %d %s %d %d %s" % (level, mname, mask, power, " ".join(hexes))], config)[0]
        if out.startswith("ERR"):
            return None
        got = [int(out[96 * i:96 * i + 96], 16) for i in range(len(out) // 96)]
        vals = [T.from_ints(l, _nest(l, list(comp))) for l, comp in zip(in_levels, pt)]
        if mname == "inverse":
            o = T.from_ints(level, _nest(level, list(got)))
            prod = T.flatten(level, T.mul(level, o, vals[0]))
            want = [1] + [0] * (len(prod) - 1) if any(pt[0]) else None
            bad = ([x.n for x in prod] != want) if want else any(got)
        else:
            exp = [x.n for x in T.flatten(level, REPLAY_SPECS[mname](T, level, vals, power))]
            bad = exp != got
        tried.append({"inputs": hexes, "native_output": out, "mismatch": bad})
        if bad:
            ce["native_replay"] = tried[-1]
            return True
    ce["native_replay_tried"] = len(tried)
    return False


def include_in(chk):
    """this check's obligations registered inside a check of a layer above (framework.Check.include)"""
    prog = build.load_program("A", files=["src/bls12_381/fq2.cpp", "src/bls12_381/fq6.cpp", "src/bls12_381/fq12.cpp",
                                           "src/bls12_381/fq12_cyclotomic.cpp", "src/bls12_381/fq.cpp"], tag="c04")
    prog.demangle_all()
    chk.replayer = replay_tower
    register(chk, prog, chk.tier == "thorough")
    sys.path.insert(0, os.path.dirname(os.path.abspath(__file__)))
    import c04_more
    c04_more.prog()
    c04_more.register(chk)


def main(argv=None):
    chk = Check("C04", "proof", argv)
    chk.replayer = replay_tower
    prog = build.load_program("A", files=["src/bls12_381/fq2.cpp", "src/bls12_381/fq6.cpp", "src/bls12_381/fq12.cpp",
                                           "src/bls12_381/fq12_cyclotomic.cpp", "src/bls12_381/fq.cpp"], tag="c04")
    prog.demangle_all()
    register(chk, prog, chk.tier == "thorough")
    sys.path.insert(0, os.path.dirname(os.path.abspath(__file__)))
    sys.modules.setdefault("c04", sys.modules[__name__])
    import c04_more
    import c02
    c04_more.prog()
    c04_more.register(chk)
    chk.explanation = ("Every Fq2/Fq6/Fq12 method is executed symbolically from the clang-14 -O1 -fno-inline LLVM IR of the current tree "
                       "with the methods of the levels below replaced by their quotient-ring specification; outputs are compared with "
                       "schoolbook arithmetic in Fq[u]/(u^2+1), Fq2[v]/(v^3-xi), Fq6[w]/(w^2-v) as polynomial identities modulo q decided by z3.")
    chk.bounds = ["operands: all field elements (free indeterminates per Fq coefficient); no unwinding bound: no data-dependent loops",
                  "Frobenius: all 2^32 values of `power` (bit-vector query on the table-index arithmetic)"]
    chk.trusted = ["T3: Z[x]->Fq[x] transfer", "T6: Frobenius is a ring automorphism; (w^i)^(q^k) = w^i xi^(i(q^k-1)/6)",
                   "norm of a non-zero element of a field extension is non-zero (irreducibility ground-checked)",
                   "C02: Fq operations are exact (layer below)", "clang -O1 vs shipped -Ofast (T11)"]
    chk.assumptions = ["Fq layer (Fp<384>::add/subtract/multiply/square/multiply2/negate/copy/is_zero/equal, fp_inverse) behaves as the field Fq: proved by C02/C03"]
    # lower layers whose specifications this check relies on: their obligations are part of this check's claim (framework.Check.include)
    for dep in ['C02', 'C03', 'C18', 'C20']:
        chk.include(dep)
    # "exponentiation" on the cyclotomic subgroup: the templates of include/bls12_381/fq12.hpp and Fq12::exponentiate_gt are decided as whole runs
    # in the exponent model by C07
    chk.include("C07", only=r"^gt-")
    chk.run()
    chk.finish()


if __name__ == "__main__":
    main()
