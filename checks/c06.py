"""C06 - scalar multiplication returns [k]P for every scalar and every algorithm (DESIGN.md section 5, C06).

Tier (i), integers:
  WnafScalar<bits,4>::from_bigint for bits in {64,128,256,512}: the data-dependent recoding loop is cut at its header and checked as
  one inductive step from an arbitrary state satisfying the invariant
        Inv(i, c, t):  c != 0,  2^t | c,  31*|c*2^i - scalar| <= 15*2^(t+i),  0 <= t <= 4      (t: ghost, zero digits still owed)
  for EVERY loop index i in [0, bits] (i is enumerated, scalar / c / t are symbolic): the step must consume exactly the low digit
  (c - u = 2c' over the integers: no carry or borrow of the multi-word add/subtract may be lost), write it at wnaf[i], keep the
  invariant (t' = 4 after a non-zero digit, else max(t-1,0)) or leave the loop with c' = 0 and wnaf_size = i+1.  Inv bounds the
  loop index by `bits`, i.e. the digit buffer wnaf[bits+1] is never exceeded.  Base case: Inv(0, scalar, 0).
  The BigInt word operations used by the loop are replaced by their bit-vector specifications (proved by C02).
"""
import sys
import os
sys.path.insert(0, os.path.dirname(os.path.dirname(os.path.abspath(__file__))))

import z3
from engine import build, eir, loopcut
from engine.eir import Ptr, Obj, is_conc, ExecError, MemViolation
from engine.framework import Check, Violation, Inconclusive

NS = "embedded_pairing::core::"
WN = "embedded_pairing::bls12_381::"
R_ORDER = 0x73eda753299d7d483339d80809a1d80553bda402fffe5bfeffffffff00000001

_PROG = {}


def prog_for(cfg="A"):
    if cfg not in _PROG:
        _PROG[cfg] = build.load_program(cfg, files=["src/bls12_381/curve.cpp", "src/bls12_381/curve_fast_multiply.cpp",
                                                    "src/bls12_381/decomposition.cpp",
                                                    # explicit instantiation of every width the API accepts (no code of its own)
                                                    os.path.join(os.path.dirname(os.path.dirname(os.path.abspath(__file__))), "harness", "inst_curve.cpp")],
                                           tag="c06_" + cfg)
    return _PROG[cfg]


# ---------------------------------------------------------------------------------------------------------------
def install_bigint(I, bits, log):
    """bit-vector specifications of the BigInt<bits> operations used by from_bigint; `log` records lost carries/borrows"""
    B = NS + r"BigInt<%d>::" % bits
    nb = bits // 8

    def rd(p):
        return eir.as_bv(I.load_bytes(p.obj, p.off, nb), bits)

    def wr(p, v):
        v = eir.simp(v)
        for k in range(nb // 8):
            I.store_cell(p.obj, p.off + 8 * k, 8, (v >> (64 * k)) & ((1 << 64) - 1) if is_conc(v) else eir.simp(z3.Extract(64 * k + 63, 64 * k, v)))

    def h_copy(I_, name, args, site):
        wr(args[0], rd(args[1]))

    def h_clear(I_, name, args, site):
        I_.memset(args[0], 0, I_.prog.layout(I_.prog.fn[name].module).size(I_.prog.fn[name].params[0].ty.to) if False else obj_size(args[0]))

    def obj_size(p):
        return p.obj.size - p.off

    def h_is_zero(I_, name, args, site):
        return eir.simp(rd(args[0]) == 0)

    def h_is_odd(I_, name, args, site):
        return eir.simp(z3.Extract(0, 0, rd(args[0])) == 1)

    def h_add(I_, name, args, site):
        x, y = rd(args[1]), rd(args[2])
        s = z3.ZeroExt(1, x) + z3.ZeroExt(1, y)
        wr(args[0], z3.Extract(bits - 1, 0, s))
        c = eir.simp(z3.Extract(bits, bits, s) == 1)
        log.append(("add-carry", c))
        return c

    def h_sub(I_, name, args, site):
        x, y = rd(args[1]), rd(args[2])
        wr(args[0], x - y)
        b = eir.simp(z3.ULT(x, y))
        log.append(("sub-borrow", b))
        return b

    def h_shr1(I_, name, args, site):
        x = rd(args[1])
        wr(args[0], z3.LShR(x, 1))
        f = I_.prog.fn[name]
        rb = I_.prog.layout(f.module).resolve(f.ret).bits
        return eir.simp(z3.Concat(z3.Extract(0, 0, x), z3.BitVecVal(0, rb - 1)))
    I.add_intercept(r".*" + B + r"copy<%d>\(.*\)" % bits, h_copy, "BigInt::copy")
    I.add_intercept(B + r"clear\(\)", h_clear, "BigInt::clear")
    I.add_intercept(B + r"is_zero\(\) const", h_is_zero, "BigInt::is_zero")
    I.add_intercept(B + r"is_odd\(\) const", h_is_odd, "BigInt::is_odd")
    I.add_intercept(B + r"add\(.*\)", h_add, "BigInt::add")
    I.add_intercept(B + r"subtract\(.*\)", h_sub, "BigInt::subtract")
    I.add_intercept(r".*" + B + r"shift_right_in_word<\(unsigned char\)1>\(.*\)", h_shr1, "BigInt::shift_right_in_word<1>")


def digit_spec(C, window=4):
    """the signed digit the recoding must emit for the current value c: 0 if c is even, else the residue of c modulo 2^(window+1)
    in (-2^window, 2^window]"""
    m = z3.Extract(window, 0, C)
    m8 = z3.ZeroExt(7 - window, m)
    return z3.If(z3.Extract(0, 0, C) == 0, z3.BitVecVal(0, 8), z3.If(z3.UGT(m8, 1 << window), m8 - (2 << window), m8))


def ob_wnaf_code(bits, window, mode):
    """One iteration of the recoding loop, executed from the loop header with an arbitrary state:
         mode 'first': i = 0, any c != 0                       (the state of the first iteration: c = scalar)
         mode 'later': any i in [1, bits], any c != 0 with c <= 2^(bits-1) + 8   (implied by the invariant for i >= 1: lemma B2)
       VCs: the digit written is digit_spec(c) and goes to wnaf[i] (no other byte of the buffer changes), c' = (c - u)/2 EXACTLY over
       the integers (no carry/borrow of the multi-word update lost), the index becomes i+1, the loop is left iff c' = 0 and then
       wnaf_size = i+1."""
    prog = prog_for()
    fname = prog.find1(WN + r"WnafScalar<%d, %du>::from_bigint\(.*\)" % (bits, window))
    nb = bits // 8
    csize = max(nb, 16)
    I = eir.Interp(prog)
    I.solver.set("timeout", 120000)
    I.keep_after_lifetime_end = True
    log = []
    install_bigint(I, bits, log)
    S = z3.BitVec("scalar", bits)
    C = z3.BitVec("c", bits)
    A0 = z3.BitVec("a0", 8)
    Iv = z3.BitVecVal(0, 64) if mode == "first" else z3.BitVec("i", 64)
    I.assumptions = [C != 0]
    if mode == "later":
        I.assumptions += [z3.UGE(Iv, 1), z3.ULE(Iv, bits), z3.ULE(C, z3.BitVecVal((1 << (bits - 1)) + (1 << (window - 1)), bits))]
    cut = loopcut.Cutter(I, fname)
    phis = loopcut.header_phis(cut.fn, cut.header)
    if len(phis) != 1:
        raise Inconclusive("from_bigint loop header has %d phis (expected the index only)" % len(phis))
    state = {}
    nbuf = bits + 1
    old = [z3.BitVec("w%d" % j, 8) for j in range(nbuf)]
    szoff = ((nbuf + 3) // 4) * 4

    def havoc(regs):
        cobj, aobj = state.get("c"), state.get("a")
        if cobj is None:
            raise Inconclusive("could not identify the loop-carried BigInt object of from_bigint")
        regs[phis[0].res] = eir.simp(Iv)
        for k in range(nb // 8):
            I.store_cell(cobj, 8 * k, 8, eir.simp(z3.Extract(64 * k + 63, 64 * k, C)))
        if aobj is not None:          # the scratch operand of the add-back (a variant may update the low word directly and have none)
            I.store_cell(aobj, 0, 1, A0)
        for j in range(nbuf):
            I.store_cell(state["this"], j, 1, old[j])
    cut.havoc = havoc
    real = I.call_named

    def call_named(name, args, site=None):
        d = I.prog.demangled.get(name, "")
        if "::copy<" in d and "c" not in state:
            state["c"] = args[0].obj
        if d.endswith("::clear()") and "a" not in state:
            state["a"] = args[0].obj
        return real(name, args, site)
    I.call_named = call_named

    def once():
        cut.reset()
        del log[:]
        state.clear()
        this = Obj("wnaf", szoff + 4, "arg", 4)
        state["this"] = this
        sc = Obj("scalar", csize, "arg", 16, True)
        for k in range(nb // 8):
            sc.cells[8 * k] = (8, eir.simp(z3.Extract(64 * k + 63, 64 * k, S)))
        try:
            I.call_named(fname, [Ptr(this, 0), Ptr(sc, 0)])
            return "exit", None, this, state.get("c")
        except eir.LoopCut as lc:
            return "cut", lc.regs, this, state.get("c")
    nq = 0
    npaths = 0
    for path, (kind, regs, this, cobj) in I.explore(once, 256):
        npaths += 1
        if cut.visits == 0:
            continue            # scalar == 0: entry guard, covered by the base obligation
        pc = list(I.assumptions) + list(path.pc)
        u_spec = digit_spec(C, window)
        Cn = eir.as_bv(I.load_bytes(cobj, 0, nb), bits)
        W = bits + 16
        exact = (z3.ZeroExt(W - bits, C) - z3.SignExt(W - 8, u_spec) == z3.ZeroExt(W - bits, Cn) + z3.ZeroExt(W - bits, Cn))
        buf = []
        for j in range(nbuf):
            cell = this.cells.get(j)
            if cell is None or cell[0] != 1:
                raise Inconclusive("wnaf buffer byte %d is not a byte cell after the step" % j)
            buf.append(eir.as_bv(cell[1], 8) == z3.If(Iv == j, u_spec, old[j]))
        vcs = [("digit-store", z3.And(*buf), "the digit buffer is not updated as wnaf[i] = digit(c) (wrong digit, wrong position or another entry changed)"),
               ("exact", exact, "the step does not consume exactly the low digit: c - u != 2c' (a carry/borrow of the multi-word update is lost)")]
        if kind == "cut":
            vcs.append(("index", eir.as_bv(regs[phis[0].res], 64) == Iv + 1, "loop index is not incremented by one"))
            vcs.append(("continue", Cn != 0, "loop continues although c' = 0"))
        else:
            szc = this.cells.get(szoff)
            if szc is None:
                raise Violation("wnaf<%d>:size-not-written" % bits, "from_bigint<%d> returns without writing wnaf_size" % bits, {"bits": bits})
            vcs.append(("size", z3.ZeroExt(32, eir.as_bv(szc[1], 32)) == Iv + 1, "wnaf_size != number of digits written"))
            vcs.append(("exit-zero", Cn == 0, "loop left with c' != 0"))
        for nm, vc, msg in vcs:
            s = I.solver
            s.push()
            try:
                for a in pc:
                    s.add(a)
                s.add(z3.Not(vc))
                r = s.check()
                nq += 1
                if r == z3.unknown:
                    raise Inconclusive("solver unknown on %s (%s)" % (nm, mode))
                if r == z3.sat:
                    m = s.model()
                    # prefer a model whose state is reached by a real scalar (c * 2^i fits the width), so that it can be replayed natively
                    s.push()
                    Wd = bits + 64
                    s.add(z3.LShR(z3.ZeroExt(64, C), z3.BitVecVal(bits, Wd) - z3.ZeroExt(Wd - 64, eir.as_bv(Iv, 64))) == 0)
                    if s.check() == z3.sat:
                        m = s.model()
                    s.pop()
                    cv = m.eval(C, model_completion=True).as_long()
                    iv = m.eval(Iv, model_completion=True).as_long()
                    # the scalar c * 2^i reaches exactly this state after i zero digits (when it fits the width): a native witness
                    wit = cv << iv if (cv << iv) < (1 << bits) else None
                    raise Violation("wnaf<%d>:%s:%s" % (bits, nm, mode),
                                    "WnafScalar<%d,%d>::from_bigint, iteration with i=%d, c=%#x: %s" % (bits, window, iv, cv, msg),
                                    {"bits": bits, "window": window, "i": iv, "c": hex(cv), "scalar": hex(wit) if wit is not None else None,
                                     "reachable_directly": wit is not None})
            finally:
                s.pop()
    if npaths < 3:
        raise Inconclusive("only %d paths through the loop body" % npaths)
    return {"queries": nq, "paths": npaths, "functions": [prog.demangled[fname].replace("embedded_pairing::", "")[:120]],
            "sample": "one loop iteration from an arbitrary state (%s): %d paths" % (mode, npaths)}


def ob_wnaf_lemmas(bits, window, i_lo, i_hi):
    """arithmetic of the recoding, over the integers (QF_LIA/NIA with constants), for each loop index i and ghost t in [0,4]:
         Inv(i,c,t): c >= 1, 2^t | c, 31*|c*2^i - S| <= 15*2^(t+i), 0 <= S < 2^bits
       B1  Inv(i,c,t) and c' = (c - u(c))/2 >= 1  =>  i < bits and Inv(i+1, c', t')   (t' = 4 if u != 0 else max(t-1,0))
           (so a non-zero c never reaches index bits+1: the buffer wnaf[bits+1] suffices)
       B2  Inv(i,c,t) and i >= 1  =>  c <= 2^(bits-1) + 8   (the precondition of the 'later' code contract)"""
    nq = 0
    w = window
    UM = (1 << w) - 1                  # largest digit magnitude
    DEN = (2 << w) - 1                 # |c*2^i - S| <= UM*2^(t+i)/DEN
    for i in range(i_lo, i_hi):
        P = 1 << i
        for t in range(w + 1):
            c, S, q, m, k = z3.Ints("c S q m k")
            s = z3.Solver()
            s.set("timeout", 60000)
            inv = [c >= 1, c == (1 << t) * k, 0 <= S, S < (1 << bits), c < (1 << bits),
                   DEN * (c * P - S) <= UM * (1 << t) * P, DEN * (S - c * P) <= UM * (1 << t) * P]
            s.add(*inv)
            s.add(c == (2 << w) * q + m, m >= 0, m <= (2 << w) - 1)
            odd = (m % 2 == 1)
            u = z3.If(odd, z3.If(m > (1 << w), m - (2 << w), m), 0)
            c2 = z3.Int("c2")
            s.add(2 * c2 == c - u)
            for t2, guard in ((w, u != 0), (max(t - 1, 0), u == 0)):
                k2 = z3.Int("k2")
                P2 = 2 * P
                inv2 = z3.And(DEN * (c2 * P2 - S) <= UM * (1 << t2) * P2, DEN * (S - c2 * P2) <= UM * (1 << t2) * P2,
                              z3.Exists([k2], c2 == (1 << t2) * k2) if False else (c2 % (1 << t2) == 0))
                goal = z3.And(i < bits, inv2) if True else inv2
                s.push()
                s.add(c2 >= 1, guard, z3.Not(goal))
                r = s.check()
                nq += 1
                if r != z3.unsat:
                    mdl = s.model() if r == z3.sat else None
                    raise (Violation("wnaf<%d>:lemma-B1:i=%d" % (bits, i), "recoding invariant is not inductive at i=%d, t=%d (model %s)" % (i, t, mdl),
                                     {"bits": bits, "i": i, "t": t}) if r == z3.sat else Inconclusive("unknown on lemma B1 i=%d" % i))
                s.pop()
            if i >= 1:
                s.push()
                s.add(c > (1 << (bits - 1)) + (1 << (w - 1)))
                r = s.check()
                nq += 1
                if r != z3.unsat:
                    raise Inconclusive("lemma B2 fails or unknown at i=%d t=%d" % (i, t))
                s.pop()
    return {"queries": nq, "paths": 0, "functions": ["wNAF recoding arithmetic (no code: lemmas connecting the per-iteration code contract to exactness and the buffer bound)"],
            "sample": "lemmas B1, B2 for i in %d..%d, t in 0..%d" % (i_lo, i_hi - 1, w)}


def ob_wnaf_base(bits, window):
    """base case and entry guard: at the first arrival at the loop header i = 0, c = scalar, a = 0 (so Inv(0, scalar, 0) holds whenever
    scalar != 0); for scalar = 0 the function returns with wnaf_size = 0"""
    prog = prog_for()
    fname = prog.find1(WN + r"WnafScalar<%d, %du>::from_bigint\(.*\)" % (bits, window))
    nb = bits // 8
    I = eir.Interp(prog)
    log = []
    install_bigint(I, bits, log)
    S = z3.BitVec("scalar", bits)
    cut = loopcut.Cutter(I, fname)
    phis = loopcut.header_phis(cut.fn, cut.header)
    seen = {}

    def on_entry(regs):
        seen["i"] = regs[phis[0].res]
        raise eir.LoopCut(cut.fn, cut.header, None, regs)
    cut.on_entry = on_entry
    objs = {}
    real = I.call_named

    def call_named(name, args, site=None):
        d = I.prog.demangled.get(name, "")
        if "::copy<" in d and "c" not in objs:
            objs["c"] = args[0].obj
        if d.endswith("::clear()") and "a" not in objs:
            objs["a"] = args[0].obj
        return real(name, args, site)
    I.call_named = call_named

    def once():
        cut.reset()
        objs.clear()
        seen.clear()
        this = Obj("wnaf", ((bits + 1 + 3) // 4) * 4 + 4, "arg", 4)
        sc = Obj("scalar", max(nb, 16), "arg", 16, True)
        for k in range(nb // 8):
            sc.cells[8 * k] = (8, eir.simp(z3.Extract(64 * k + 63, 64 * k, S)))
        try:
            I.call_named(fname, [Ptr(this, 0), Ptr(sc, 0)])
            return "exit", this
        except eir.LoopCut:
            return "header", this
    n = 0
    for path, (kind, this) in I.explore(once, 8):
        n += 1
        s = I.solver
        if kind == "header":
            cv = eir.as_bv(I.load_bytes(objs["c"], 0, nb), bits)
            vc = z3.And(cv == S, S != 0, eir.as_bv(seen["i"], 64) == 0)
            if "a" in objs:
                vc = z3.And(vc, eir.as_bv(I.load_bytes(objs["a"], 0, nb), bits) == 0)
        else:
            szc = this.cells.get(((bits + 1 + 3) // 4) * 4)
            vc = z3.And(S == 0, eir.as_bv(szc[1], 32) == 0) if szc else z3.BoolVal(False)
        s.push()
        for c in path.pc:
            s.add(c)
        s.add(z3.Not(vc))
        r = s.check()
        s.pop()
        if r != z3.unsat:
            raise Violation("wnaf<%d>:base" % bits, "from_bigint<%d>: loop entry state is not (i=0, c=scalar, a=0) / zero scalar not handled" % bits, {"bits": bits})
    # ground: Inv(0, s, 0) is implied by s != 0
    s = z3.Solver()
    # Inv(0, scalar, 0) holds trivially: c*2^0 - scalar = 0
    return {"queries": n + 1, "paths": n, "functions": [prog.demangled[fname].replace("embedded_pairing::", "")[:120]], "sample": "entry state and Inv(0, scalar, 0)"}


# ---------------------------------------------------------------------------------------------------------------
def replay_wnaf(res):
    """native replay: multiply_wnaf(G1 generator, scalar) against multiply_doubleadd for the model's scalar (only for counterexamples whose
    state is that of the first iteration, c = scalar; models of later iterations need not be reachable)"""
    ce = res.counterexample or {}
    if not ce.get("reachable_directly") or ce.get("bits") not in (64, 128, 256, 512):
        return None
    from engine import replay
    out = replay.run(["wnafcmp %d %s" % (ce["bits"], ce["scalar"][2:])])
    ce["native_replay"] = out[0]
    return out[0].startswith("DIFF")


WIDTHS = ((64, 2), (128, 4), (256, 4), (512, 4))


def register(chk):
    for bits, w in WIDTHS:
        chk.add("wnaf<%d,%d>:base" % (bits, w), ob_wnaf_base, bits, w)
        chk.add("wnaf<%d,%d>:iteration:first" % (bits, w), ob_wnaf_code, bits, w, "first")
        chk.add("wnaf<%d,%d>:iteration:later" % (bits, w), ob_wnaf_code, bits, w, "later")
        step = 64
        for lo in range(0, bits + 1, step):
            chk.add("wnaf<%d,%d>:lemmas:i=%d..%d" % (bits, w, lo, min(lo + step, bits + 1) - 1), ob_wnaf_lemmas, bits, w, lo, min(lo + step, bits + 1))
    import c06_loops
    c06_loops.register(chk)


def include_in(chk):
    """this check's obligations registered inside a check of a layer above (framework.Check.include)"""
    sys.path.insert(0, os.path.dirname(os.path.abspath(__file__)))
    prog_for()
    import c06_loops
    c06_loops.prog()
    import c07
    c07.prog()
    chk.replayer = replay_wnaf
    register(chk)


def main(argv=None):
    chk = Check("C06", "proof", argv)
    chk.replayer = replay_wnaf
    sys.path.insert(0, os.path.dirname(os.path.abspath(__file__)))
    prog_for()
    import c06_loops
    c06_loops.prog()
    register(chk)
    chk.explanation = ("WnafScalar::from_bigint is lowered to IR from the current tree; its recoding loop is cut at the header and one iteration is "
                       "executed symbolically from an arbitrary state (BigInt word operations replaced by their bit-vector specifications, proved by "
                       "C02); z3 decides the per-iteration contract for all values, and integer lemmas connect it to exactness and the buffer bound.")
    chk.bounds = ["widths (bits, window) = (64,2), (128,4), (256,4), (512,4): every scalar of the width; loop handled by induction (no unwinding bound)",
                  "NOT covered yet unless listed among the obligations: GLV / powers-of-x decompositions, table multiplication loops, endomorphism formulas"]
    chk.trusted = ["BigInt<bits> word operations meet their bit-vector specifications (C02)", "clang -O1 IR vs -Ofast build (replay uses shipped flags)", "z3"]
    chk.assumptions = ["later iterations: c <= 2^(bits-1) + 2^(w-1), implied by the invariant (lemma B2)"]
    # lower layers whose specifications this check relies on: their obligations are part of this check's claim (framework.Check.include)
    for dep in ['C02', 'C03', 'C04', 'C05', 'C18', 'C19', 'C20']:
        chk.include(dep)
    chk.run()
    chk.finish()


if __name__ == "__main__":
    main()
