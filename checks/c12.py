"""C12 - WKD-IBE: keys open only matching ciphertexts; hidden slots cannot be filled (DESIGN.md section 5, C12).

All statements are about the residual  decrypt(ct, key) - message  as a polynomial in the formal symbols (generic-group sense, T9):
  match      for a well-formed key and a ciphertext list equal to the key's fixed pattern (entries with or without the omit marker - encryption
             must bind every listed attribute) the residual is zero                                  (positive control, also in C11)
  mismatch   if the ciphertext list differs from the key's fixed pattern in some slot modulo r (another value, a value for a slot the key
             leaves free or hides, or a missing value) the residual is NOT zero: 'all residual coefficients vanish mod r' together with
             'the slot differs mod r' is unsatisfiable
  hidden     starting from a well-formed key that hides slot i, no qualifykey / nondelegable_qualifykey / adjust_nondelegable call - with ANY
             list over the slots, including lists that try to give slot i a value - yields a key that decrypts a ciphertext in which slot i is set
  malleable  replacing a, b or c of a ciphertext by an independent element, or changing a value of its list, changes the decryption result
"""
import sys
import os
import itertools
sys.path.insert(0, os.path.dirname(os.path.dirname(os.path.abspath(__file__))))
sys.path.insert(0, os.path.dirname(os.path.abspath(__file__)))

import z3
import wkd
from wkd import World
from c11 import run_paths, stats
from engine import eir
from engine.dom_grp import Poly, GE, SV, R_ORDER
from engine.eir import Ptr, Obj, is_conc
from engine.framework import Check, Violation, Inconclusive


def residual_zero_formula(W, got, msg):
    return W.G.equal_formula(got, msg)


def solve(W, pc, conds):
    s = z3.Solver()
    s.set("timeout", 60000)
    for c in W.G.constraints + list(pc) + list(conds):
        s.add(c)
    r = s.check()
    W.G.queries += 1
    if r == z3.unknown:
        raise Inconclusive("solver unknown on a residual query")
    return r, (s.model() if r == z3.sat else None)


def encrypt_decrypt(W, key, ct_entries, tamper=None):
    """runs encrypt(msg, ct_entries) and decrypt with `key` (dict of polys); returns [(path, residual-is-zero formula, result poly)]"""
    L = W.L
    f_enc, f_dec = W.fn("encrypt"), W.fn("decrypt")
    msg = W.G.sym("msg")

    def once():
        ct = Obj("ct", L.C_size, "arg", 16)
        m = Obj("m", 576, "arg", 16, True)
        W.I.store_cell(m, 0, 576, GE("GT", msg))
        W.G.nsym = 100
        W.I.call_named(f_enc, [Ptr(ct, 0), Ptr(m, 0), Ptr(W.params_obj(), 0), Ptr(W.attrlist_obj(ct_entries, False, "ctattrs"), 0), W.cb])
        if tamper == "a":
            W.I.store_cell(ct, L.C_a, 576, GE("GT", W.M.read(Ptr(ct, L.C_a), "GT").p + W.G.sym("junk")))
        elif tamper == "b":
            W.I.store_cell(ct, L.C_b, 288, GE("G2", W.M.read(Ptr(ct, L.C_b), "G2").p + W.G.sym("junk")))
        elif tamper == "c":
            W.I.store_cell(ct, L.C_c, 144, GE("G1", W.M.read(Ptr(ct, L.C_c), "G1").p + W.G.sym("junk")))
        out = Obj("out", 576, "arg", 16)
        W.I.call_named(f_dec, [Ptr(out, 0), Ptr(ct, 0), Ptr(W.key_obj(key), 0)])
        return W.M.read(Ptr(out, 0), "GT").p
    res = run_paths(W, once)
    return [(path, residual_zero_formula(W, got, msg), got) for path, got in res], [W.prog.demangled[f_enc][:70], W.prog.demangled[f_dec][:70]]


CT_KINDS = {"fixed": ("same", "same-marked", "other", "missing"), "free": ("absent", "value", "marked"), "hidden": ("absent", "value", "marked")}


def ob_decrypt_match(l, pattern, ct_shape, sig):
    """ct_shape per slot: same|same-marked|other|missing (key-fixed slots), absent|value|marked (free/hidden slots).
    The list matches iff every fixed slot is 'same*' and every other slot 'absent'."""
    W = World(l, sig)
    G = W.G
    kfixed, kfree, ent, hyp = {}, [], [], []
    match = True
    for i, (st, c) in enumerate(zip(pattern, ct_shape)):
        if st == "fixed":
            idv = G.ivar("id%d" % i)
            kfixed[i] = idv
            if c in ("same", "same-marked"):
                ent.append((i, idv, c == "same-marked"))
            elif c == "other":
                nv = G.ivar("w%d" % i)
                ent.append((i, nv, False))
                hyp.append((nv - idv) % R_ORDER != 0)
                match = False
            else:
                hyp.append(idv % R_ORDER != 0)
                match = False
        else:
            if st == "free":
                kfree.append(i)
            if c in ("value", "marked"):
                nv = G.ivar("w%d" % i)
                ent.append((i, nv, c == "marked"))
                hyp.append(nv % R_ORDER != 0)
                match = False
    key = W.wf_key(kfixed, kfree, G.sym("rho"))
    res, fns = encrypt_decrypt(W, key, ent)
    tag = "%s:%s" % (",".join(pattern) or "-", ",".join(ct_shape) or "-")
    for path, f, got in res:
        if match:
            r, mdl = solve(W, path.pc, [z3.Not(f)])
            if r != z3.unsat:
                raise Violation("decrypt-match:" + tag, "a well-formed key (pattern %s) does not decrypt a ciphertext for its own pattern (%s)" % (pattern, ct_shape),
                                {"l": l, "pattern": list(pattern), "ct": list(ct_shape), "model": G.model_values(mdl)})
        else:
            r, mdl = solve(W, path.pc, [f] + hyp)
            if r != z3.unsat:
                raise Violation("decrypt-mismatch:" + tag, "a key with pattern %s decrypts a ciphertext whose list differs (%s)" % (pattern, ct_shape),
                                {"l": l, "pattern": list(pattern), "ct": list(ct_shape), "model": G.model_values(mdl)})
    return stats(W, len(res), fns)


def ob_hidden(l, pattern, hslot, step, shape, omit_all):
    """key with hidden slot hslot; apply `step` with list `shape` (per slot: absent|same|value|hide|force = a value for the hidden slot);
    then try to decrypt a ciphertext whose list is the new key's claimed pattern plus slot hslot set"""
    W = World(l, True)
    G = W.G
    L = W.L
    pfixed, pfree, entries, nfixed, nfree = {}, [], [], {}, []
    for i, (st, le) in enumerate(zip(pattern, shape)):
        if st == "fixed":
            idv = G.ivar("id%d" % i)
            pfixed[i] = idv
            nfixed[i] = idv
            if le == "same":
                entries.append((i, idv))
        elif st == "free":
            pfree.append(i)
            if le == "value":
                nv = G.ivar("n%d" % i)
                entries.append((i, nv))
                nfixed[i] = nv
            elif le == "hide":
                entries.append((i, None))
            elif not omit_all:
                nfree.append(i)
        else:
            if le == "hide":
                entries.append((i, None))
            elif le == "force":
                fv = G.ivar("force%d" % i)
                entries.append((i, fv))
    rho = G.sym("rho")
    fname = W.fn(step)
    f_enc, f_dec = W.fn("encrypt"), W.fn("decrypt")
    target = G.ivar("target")
    hyp = [target % R_ORDER != 0]
    msg = G.sym("msg")
    # ciphertext: every slot the attacker may know plus the hidden slot set to `target`
    ct_ent = sorted([(i, v) for i, v in nfixed.items()] + [(hslot, target)])

    def once():
        G.nsym = 0
        parent = W.key_obj(W.wf_key(pfixed, pfree, rho), "parent")
        out = W.out_key_obj(l + 1)
        if step == "adjust_nondelegable":
            # sk starts as the non-delegable copy of the parent (from = parent's own pattern), adjusted to the list
            sk = W.key_obj(W.wf_key(pfixed, pfree, rho), "sk", const=False)
            arr = Obj("sk.b", L.F_size * (l + 1), "arg", 16)
            old = sk.cells[L.S_b][1]
            for off, cell in old.obj.cells.items():
                arr.cells[off] = cell
            W.I.store_cell(sk, L.S_b, 8, Ptr(arr, 0))
            frm = [(i, v) for i, v in sorted(pfixed.items())]
            W.I.call_named(fname, [Ptr(sk, 0), Ptr(parent, 0), Ptr(W.attrlist_obj(frm, False, "from"), 0), Ptr(W.attrlist_obj(entries, omit_all, "to"), 0)])
            out = sk
        else:
            args = [Ptr(out, 0), Ptr(W.params_obj(), 0), Ptr(parent, 0), Ptr(W.attrlist_obj(entries, omit_all), 0)]
            if step == "qualifykey":
                args.append(W.cb)
            W.I.call_named(fname, args)
        ct = Obj("ct", L.C_size, "arg", 16)
        m = Obj("m", 576, "arg", 16, True)
        W.I.store_cell(m, 0, 576, GE("GT", msg))
        G.nsym = 100
        W.I.call_named(f_enc, [Ptr(ct, 0), Ptr(m, 0), Ptr(W.params_obj(), 0), Ptr(W.attrlist_obj(ct_ent, False, "ctattrs"), 0), W.cb])
        res = Obj("res", 576, "arg", 16)
        out.const = True
        W.I.call_named(f_dec, [Ptr(res, 0), Ptr(ct, 0), Ptr(out, 0)])
        # also: the hidden slot must not reappear among the free slots
        k = W.read_key(out)
        return W.M.read(Ptr(res, 0), "GT").p, [i for i, _ in k["b"]]
    res = run_paths(W, once)
    tag = "%s:%s:slot%d:%s:omit=%d" % (step, ",".join(pattern), hslot, ",".join(shape), omit_all)
    for path, (got, slots) in res:
        if sorted(slots) != sorted(nfree):
            raise Violation("hidden-list:" + tag, "%s: the resulting key lists the free slots %r, the slots still free after this step are %r (a slot the list hides, "
                            "explicitly or through omit-all, can still be filled in; or a free slot was lost)" % (step, sorted(slots), sorted(nfree)),
                            {"l": l, "pattern": list(pattern), "list": list(shape), "step": step, "omit_all": omit_all})
        if hslot in slots:
            raise Violation("hidden-reappears:" + tag, "%s: the hidden slot %d is listed as free in the resulting key" % (step, hslot),
                            {"l": l, "pattern": list(pattern), "list": list(shape), "step": step})
        f = residual_zero_formula(W, got, msg)
        r, mdl = solve(W, path.pc, [f] + hyp)
        if r != z3.unsat:
            raise Violation("hidden-filled:" + tag, "%s on a key hiding slot %d yields a key that decrypts a ciphertext with that slot set" % (step, hslot),
                            {"l": l, "pattern": list(pattern), "list": list(shape), "step": step, "model": G.model_values(mdl)})
    return stats(W, len(res), [W.prog.demangled[fname][:80]])


def ob_malleable(l, pattern, what):
    W = World(l, False)
    G = W.G
    kfixed, kfree, ent = {}, [], []
    for i, st in enumerate(pattern):
        if st == "fixed":
            idv = G.ivar("id%d" % i)
            kfixed[i] = idv
            ent.append((i, idv, False))
        elif st == "free":
            kfree.append(i)
    key = W.wf_key(kfixed, kfree, G.sym("rho"))
    res, fns = encrypt_decrypt(W, key, ent, tamper=what)
    for path, f, got in res:
        r, mdl = solve(W, path.pc, [f])
        if r != z3.unsat:
            raise Violation("malleable:%s:%s" % (",".join(pattern), what), "replacing ciphertext component %s by an independent element leaves the decryption result unchanged" % what,
                            {"l": l, "pattern": list(pattern), "component": what})
    return stats(W, len(res), fns)


def hidden_shapes(pattern, hslot):
    opts = []
    for i, st in enumerate(pattern):
        if st == "fixed":
            opts.append(("same",))
        elif st == "free":
            opts.append(("absent", "value", "hide"))
        elif i == hslot:
            opts.append(("absent", "hide", "force"))
        else:
            opts.append(("absent", "hide"))
    return list(itertools.product(*opts))


def register(chk):
    maxl = 3 if chk.tier == "quick" else 4
    for l in range(0, maxl + 1):
        for pattern in wkd.parent_patterns(l):
            for ct_shape in itertools.product(*[CT_KINDS[s] for s in pattern]):
                if l == maxl and chk.tier == "quick" and sum(c in ("other", "missing", "value", "marked") for c in ct_shape) > 1:
                    continue
                chk.add("decrypt:%s:%s" % (",".join(pattern) or "-", ",".join(ct_shape) or "-"), ob_decrypt_match, l, pattern, ct_shape, False)
            for what in ("a", "b", "c"):
                chk.add("malleable:%s:%s" % (",".join(pattern) or "-", what), ob_malleable, l, pattern, what)
            for hslot, st in enumerate(pattern):
                if st != "hidden":
                    continue
                for step in ("qualifykey", "nondelegable_qualifykey", "adjust_nondelegable"):
                    for shape in hidden_shapes(pattern, hslot):
                        for omit_all in (False, True):
                            if omit_all and l == maxl and chk.tier == "quick":
                                continue
                            chk.add("hidden:%s:%s:slot%d:%s:omit=%d" % (step, ",".join(pattern), hslot, ",".join(shape), omit_all),
                                    ob_hidden, l, pattern, hslot, step, shape, omit_all)


def include_in(chk):
    """this check's obligations registered inside another check (framework.Check.include): encrypt and decrypt run on parameters, keys, lists and
    ciphertexts of exactly the documented sizes with every access checked, so they are memory-safety obligations for valid calls as well"""
    wkd.prog()
    register(chk)


def main(argv=None):
    chk = Check("C12", "proof", argv)
    wkd.prog()
    register(chk)
    chk.explanation = ("encrypt, decrypt and the delegation steps are executed symbolically from the IR over formal discrete logarithms; the decryption residual is a "
                       "polynomial whose coefficients are integer terms over the attribute values. z3 decides that the residual vanishes for matching patterns and "
                       "that 'residual = 0' is unsatisfiable together with 'the patterns differ modulo r' (generic-group sense), for all 256-bit values.")
    chk.bounds = ["key patterns {free,fixed,hidden}^l x ciphertext list shapes over l <= 3 (quick) / 4 (thorough); hidden-slot statement: one step of qualifykey / "
                  "nondelegable_qualifykey / adjust_nondelegable with every list shape incl. lists that assign the hidden slot; longer sequences follow from C11's induction "
                  "(each step returns a well-formed key whose pattern still hides the slot) for documented lists",
                  "attribute values: all integers in [0,2^256); values congruent to 0 modulo r count as unset", "negative statements in the generic-group sense (T9)"]
    chk.trusted = ["group layer specification (C01, C05-C08)", "z3"]
    # lower layers whose specifications this check relies on: their obligations are part of this check's claim (framework.Check.include)
    for dep in ['C06', 'C02', 'C03', 'C04', 'C05', 'C07', 'C01', 'C08', 'C10', 'C19', 'C20']:
        chk.include(dep)
    # objects that arrive through unmarshal are the marshalled ones (parameters and keys loaded from bytes are part of 'reachable through the API'): C15's own obligations
    chk.include("C15")
    # the statements start from an arbitrary well-formed key; that the key-producing operations return exactly such keys (the induction step
    # over delegation histories) is C11's claim, and part of this one
    chk.include("C11", only=r"^(keygen|nondelegable_keygen|resamplekey|qualifykey|nondelegable_qualifykey|adjust_nondelegable):")
    chk.run()
    chk.finish()


if __name__ == "__main__":
    main()
