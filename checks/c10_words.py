"""C10, word level: the small BigInt instantiations used by PowersOfX::random (C02 decides the 256/384-bit ones; these widths occur only here).

  BigInt<K>::multiply<64>  K = 128, 192, 256   result = a * b exactly, all K/64 words written       (affine integers, opaque 64x64 products)
  BigInt<K>::add           K = 128, 192        low K bits = (a + b) mod 2^K for EVERY content of the bytes behind the value (BigInt<192>
                                               is a 32-byte object with 24 value bytes; add works on two 16-byte dwords); K = 128: returns the carry
  BigInt<K>::copy<J>       (128,64) (192,128) (256,192)   zero extension of the J-bit value
  BigInt<64>::compare      -1 / 0 / 1 by the unsigned order of the 64-bit values
These are the specifications PowersOfX::random is composed from in checks/c10_sampling.py.
"""
import sys
import os
sys.path.insert(0, os.path.dirname(os.path.dirname(os.path.abspath(__file__))))
sys.path.insert(0, os.path.dirname(os.path.abspath(__file__)))

import z3
from engine import eir, eir_lin
from engine.dom_lin import LinCtx, LV
from engine.eir import Ptr, Obj, is_conc
from engine.framework import Violation, Inconclusive

CORE = "embedded_pairing::core::"


def c10():
    import c10 as m
    return m


def sizeof_this(P, f):
    fn = P.fn[f]
    return P.layout(fn.module).size(fn.params[0].ty.to)


def ob_mul64(K):
    m = c10()
    P = m.prog()
    f = P.find1(r"void " + CORE + r"BigInt<%d>::multiply<64>\(.*\)" % K)
    L = LinCtx(60000)
    I = eir_lin.LinInterp(P, L)
    nb = (K - 64) // 64
    a = L.var("a", 64)
    bs = [L.var("b%d" % j, 64) for j in range(nb)]
    oa = Obj("a", 16, "arg", 16, True)
    oa.cells[0] = (8, a)
    ob = Obj("b", 16 * ((K - 64 + 127) // 128), "arg", 16, True)
    for j in range(nb):
        ob.cells[8 * j] = (8, bs[j])
    out = Obj("out", sizeof_this(P, f), "arg", 16)
    I.call_named(f, [Ptr(out, 0), Ptr(oa, 0), Ptr(ob, 0)])
    if I.lin_pc or I.path.pc:
        raise Inconclusive("data-dependent branch in multiply<64>")
    got = L.const(0)
    for i in range(K // 64):
        w = I.load_bytes(out, 8 * i, 8)
        got = L.add(got, L.scale(w if isinstance(w, LV) else L.const(w), 1 << (64 * i)))
    want = L.const(0)
    for j in range(nb):
        want = L.add(want, L.scale(L.mul(a, bs[j]), 1 << (64 * j)))
    ok = L.prove(L.eq(got, want), "product identity")
    if ok is None:
        raise Inconclusive("solver unknown on the product identity")
    if not ok:
        raise Violation("BigInt<%d>::multiply<64>" % K, "BigInt<%d>::multiply<64>: the result is not a * b" % K, {"bits": K})
    return {"queries": L.queries, "solver_s": L.solver_time, "paths": 1, "functions": [m.short(P, f)],
            "sample": "identity over %d opaque 64x64 products, %d wrap quotients; all %d result words written" % (len(L.products), len(L.wraps), K // 64)}


def ob_add(K):
    m = c10()
    P = m.prog()
    f = P.find1(CORE + r"BigInt<%d>::add\(.*\)" % K)
    size = sizeof_this(P, f)
    A, Bv = z3.BitVec("a", 8 * size), z3.BitVec("b", 8 * size)       # whole objects, padding included: arbitrary
    notes = []
    res = {}
    for mode in ("defined", "padding-undefined"):
        I = eir.Interp(P)
        I.solver.set("timeout", 60000)

        def once():
            oa, ob = Obj("a", size, "arg", 16), Obj("b", size, "arg", 16, True)
            lim = size if mode == "defined" else K // 8
            for i in range(lim):
                oa.cells[i] = (1, z3.Extract(8 * i + 7, 8 * i, A))
                ob.cells[i] = (1, z3.Extract(8 * i + 7, 8 * i, Bv))
            ret = I.call_named(f, [Ptr(oa, 0), Ptr(oa, 0), Ptr(ob, 0)])           # out == a, as PowersOfX::random calls it
            return ret, oa
        try:
            n = 0
            for path, (ret, oa) in I.explore(once, 64):
                n += 1
                if mode != "defined":
                    continue
                a, b = z3.Extract(K - 1, 0, A), z3.Extract(K - 1, 0, Bv)
                s = z3.ZeroExt(1, a) + z3.ZeroExt(1, b)
                goal = eir.as_bv(I.load_bytes(oa, 0, K // 8), K) == z3.Extract(K - 1, 0, s)
                if size * 8 == K:
                    rb = z3.BoolVal(bool(ret)) if is_conc(ret) else eir.as_bool(ret)
                    goal = z3.And(goal, rb == (z3.Extract(K, K, s) == 1))
                r, mdl = m.decide(I, path.pc, [], goal, "add")
                if r == z3.sat:
                    raise Violation("BigInt<%d>::add" % K, "BigInt<%d>::add: the low %d bits are not (a + b) mod 2^%d%s" % (K, K, K, " or the carry is wrong" if size * 8 == K else ""),
                                    {"a": hex(mdl.eval(A, model_completion=True).as_long()), "b": hex(mdl.eval(Bv, model_completion=True).as_long())})
            res[mode] = (n, getattr(I, "vc_count", 0))
        except eir.MemViolation as e:
            if mode == "defined" or e.kind != "uninit":
                raise
            notes.append("A-MEM observation (for C17): with only the %d value bytes initialised the function performs a %s" % (K // 8, str(e)[:110]))
    return {"queries": res["defined"][1], "paths": res["defined"][0], "functions": [m.short(P, f)],
            "sample": "%d-byte objects, every byte symbolic (also the %d bytes behind the value); out == a; %s" % (
                size, size - K // 8, "; ".join(notes) or "no byte outside the value is read")}


def ob_copy(K, J):
    m = c10()
    P = m.prog()
    f = P.find1(r"void " + CORE + r"BigInt<%d>::copy<%d>\(.*\)" % (K, J))
    I = eir.Interp(P)
    src = Obj("src", 16 * ((J + 127) // 128), "arg", 16, True)
    bs = [z3.BitVec("s%d" % i, 8) for i in range(J // 8)]
    for i, b in enumerate(bs):
        src.cells[i] = (1, b)
    dst = Obj("dst", sizeof_this(P, f), "arg", 16)
    I.call_named(f, [Ptr(dst, 0), Ptr(src, 0)])
    for i in range(K // 8):
        v = I.load_bytes(dst, i, 1)
        ok = (isinstance(v, z3.ExprRef) and v.eq(bs[i])) if i < J // 8 else (is_conc(v) and v == 0)
        if not ok:
            raise Violation("BigInt<%d>::copy<%d>" % (K, J), "byte %d of the copy is not %s" % (i, "the source byte" if i < J // 8 else "zero"), {})
    return {"queries": 0, "paths": 1, "functions": [m.short(P, f)], "sample": "bytes 0..%d copied, %d..%d zero (term identity, no solver needed)" % (J // 8 - 1, J // 8, K // 8 - 1)}


def ob_compare64():
    m = c10()
    P = m.prog()
    f = P.find1(CORE + r"BigInt<64>::compare\(.*\)")
    I = eir.Interp(P)
    a, b = z3.BitVec("a", 64), z3.BitVec("b", 64)

    def once():
        oa, ob = Obj("a", 16, "arg", 16, True), Obj("b", 16, "arg", 16, True)
        oa.cells[0] = (8, a)
        ob.cells[0] = (8, b)
        return I.call_named(f, [Ptr(oa, 0), Ptr(ob, 0)])
    n = 0
    for path, ret in I.explore(once, 16):
        n += 1
        want = z3.If(z3.ULT(a, b), z3.BitVecVal(0xffffffff, 32), z3.If(a == b, z3.BitVecVal(0, 32), z3.BitVecVal(1, 32)))
        r, mdl = m.decide(I, path.pc, [], eir.as_bv(ret, 32) == want, "compare")
        if r == z3.sat:
            raise Violation("BigInt<64>::compare", "BigInt<64>::compare does not return the unsigned order", {"a": str(mdl.eval(a)), "b": str(mdl.eval(b))})
    return {"queries": getattr(I, "vc_count", 0), "paths": n, "functions": [m.short(P, f)], "sample": "%d paths; only the 8 value bytes are read" % n}


def register(chk):
    for K in (128, 192, 256):
        chk.add("BigInt<%d>::multiply<64>" % K, ob_mul64, K)
    for K in (128, 192):
        chk.add("BigInt<%d>::add" % K, ob_add, K)
    for K, J in ((128, 64), (192, 128), (256, 192)):
        chk.add("BigInt<%d>::copy<%d>" % (K, J), ob_copy, K, J)
    chk.add("BigInt<64>::compare", ob_compare64)
