"""C03, ARMv6-M (Thumb-1) back end: src/core/arch/armv6_m/{bigint.s,multiply.s,fp.cpp} against the same integer
specifications as every other back end (engine/wordspec.py, engine/wordspec_t1.py).

  t1:reader-crosscheck        our expansion of the GNU-as divided-syntax sources (engine/gas_macro.py), rewritten to unified
                              syntax, is assembled by clang for thumbv6m; llvm-objdump must give the same instructions, sizes
                              (all 16-bit but `bl`) and label offsets, and decode to the micro-operations the interpreter executes
  t1:interpreter-selftest     the interpreter's concrete mode agrees with python big-integer arithmetic on boundary/random operands
  t1:frame:<routine>          frame discipline of each routine (input-independent: the code is branch-free)
  t1:bigint_384_*             add / subtract / double incl. returned carry, borrow, shifted-out bit; aliasing patterns  (QF_LIA)
  t1:bigint_768_*             product / square = sum of half products                                        (D-LIN + QF_LIA lemmas)
  t1:fpbase_384_montgomery_reduce, t1:fpbase_384_multiply, t1:fpbase_384_square (fused)  T*2^384 = A + U*p, T < 2p at `bl reduce`
  t1:glue:*                   the C++ on top of the assembly, compiled for thumbv6m: fp.cpp's fpbase_384_reduce (the `bl` target) and the
                              generic FpBase<384>::add/subtract/multiply2/negate over the assembly add/subtract/double (externals replaced
                              by the specification the t1:bigint_384_* obligations prove)
There is no ARM hardware or emulator in this sandbox: counterexamples are confirmed in the interpreter's concrete mode only.

Hook-up: in checks/c03.py register():  `import c03_t1; c03_t1.register(chk)`  and after chk.bounds/trusted are set: `c03_t1.annotate(chk)`.
"""
import sys
import os
import random
import subprocess
sys.path.insert(0, os.path.dirname(os.path.dirname(os.path.abspath(__file__))))
sys.path.insert(0, os.path.dirname(os.path.abspath(__file__)))

import z3
from engine import build, eir, irparse, gas_macro, wordspec_t1 as W
from engine.eir import Ptr, Obj, MemViolation, ExecError
from engine.framework import Check, Violation, Inconclusive
from engine.wordspec import Q, R384

HARNESS = os.path.join(os.path.dirname(os.path.dirname(os.path.abspath(__file__))), "harness")
ALIASES = {"bigint_384_add": (0, 1, 2, 3), "bigint_384_subtract": (0, 1, 2, 3), "bigint_384_multiply2": (0, 1),
           "bigint_768_multiply": (0,), "bigint_768_square": (0,), "fpbase_384_montgomery_reduce": (0,),
           "fpbase_384_multiply": (0, 1, 2, 3, 4), "fpbase_384_square": (0, 1)}
_THUMB = {}
TIER = ["quick"]


# ---- reader, interpreter, frame ------------------------------------------------------------------------------------
def ob_reader():
    prog = W.program()
    d = build.workdir("t1_crosscheck")
    try:
        info = gas_macro.crosscheck(prog, d)
    except gas_macro.AsmSyntaxError as e:
        raise Violation("t1:reader-crosscheck", "reader and clang's assembler disagree: %s" % e, {"backend": "t1"})
    want = set(W.PREFIX + k for k in W.KINDS)
    missing = sorted(want - set(prog.labels))
    if missing:
        raise Violation("t1:reader-crosscheck:symbols", "routines missing from the assembly sources: %s" % ", ".join(missing), {"backend": "t1"})
    return {"queries": 0, "paths": 1, "functions": sorted(prog.labels),
            "sample": "%d instructions (%d bytes, every one a 16-bit ARMv6-M encoding except %d `bl`), %d labels at identical offsets; clang's "
                      "disassembly decodes to the same micro-operation as the one executed, instruction by instruction (ground comparison, no solver)" % (
                          info["instructions"], info["bytes"], sum(1 for i in prog.ins if i.mn == "bl"), info["labels"])}


def ob_selftest():
    rng = random.Random(int(os.environ.get("VERIF_SEED", "0")) + 31)
    n = 0
    nr = 12 if TIER[0] == "quick" else 100
    for kind in W.KINDS:
        pts = W.operands(kind, rng, nr)
        for alias in ALIASES[kind]:
            for a, b in pts[:14] + pts[-nr:]:
                if alias in (3, 4) or W.KINDS[kind][0] == 1:
                    b = a
                if W.KINDS[kind][2] and not W.KINDS[kind][1]:
                    a, b = a % Q, b % Q
                want, wret = W.reference(kind, a, b)
                got, r0, _ = W.run_concrete(kind, alias, a, b)
                n += 1
                if got != want or (wret is not None and r0 != wret):
                    raise Violation("t1:selftest:%s:alias=%d" % (kind, alias),
                                    "concrete execution of %s%s differs from python big-integer arithmetic: a=%#x b=%#x gives %#x (r0=%r), reference %#x (%r)" % (
                                        W.PREFIX, kind, a, b, got, r0, want, wret),
                                    {"t1_kernel": kind, "backend": "t1", "alias": alias, "a": hex(a), "b": hex(b), "got": hex(got), "want": hex(want),
                                     "replay-kind": "interpreter"})
    return {"queries": 0, "paths": n, "functions": [W.PREFIX + k for k in W.KINDS],
            "sample": "%d concrete executions (8 routines, all alias patterns, boundary + seeded random operands) agree with python big-integer arithmetic; "
                      "ground comparison, no solver; validates engine/easm_t1.py's instruction semantics only against our reading of the ARMv6-M manual" % n}


def ob_frame(kind):
    """input-independent properties of one routine (straight-line code, concrete addresses): decided by one concrete execution"""
    rng = random.Random(5)
    a, b = W.operands(kind, rng, 1)[-1]
    if W.KINDS[kind][2] and not W.KINDS[kind][1]:
        a, b = a % Q, b % Q
    _, _, X = W.run_concrete(kind, 0, a, b, tolerant=True)      # every other rule (bounds, alignment, below-sp, callee-saved, sp, lr) raises MemViolation
    bad = lambda e: e[0].startswith("stray") or e[0] == "entry-value-used-as-data"
    stray = [e for e in X.events if bad(e)]
    notes = [e for e in X.events if not bad(e)]
    # Stray reads (a non-argument register, a word of the caller's frame) are not a violation of C03: the functional obligations run with those
    # words arbitrary (tolerant mode) and prove the result independent of them, the memory read is the caller's live stack.  They are reported as
    # an observation in the evidence (DESIGN.md 0.4, observation S14: three dead instructions in bigint_768_multiply copied from the fused routine).
    notes = notes + [("observation:" + e[0],) + tuple(e[1:]) for e in stray]
    return {"queries": 0, "paths": 1, "functions": [W.PREFIX + kind],
            "sample": "%d instructions: word-aligned accesses inside operand objects / own frame / stack arguments, nothing below sp, sp, r4-r11 and return address "
                      "restored%s" % (X.steps, "; notes: " + "; ".join("%s at %s (%s)" % (e[0], e[2], "entry sp%+d" % e[1] if isinstance(e[1], int) else e[1]) for e in notes) if notes else "")}


# ---- kernels ---------------------------------------------------------------------------------------------------
def ob_simple(kind, alias):
    return W.t1_simple(kind, alias)


def ob_multiply(square):
    return W.t1_multiply(square)


def ob_montgomery(kind, alias):
    return W.t1_montgomery(kind, alias)


# ---- C++ glue compiled for thumbv6m ----------------------------------------------------------------------------------
def thumb_prog():
    if "prog" not in _THUMB:
        d = build.workdir("t1_glue_ir")
        mods = []
        for src in (os.path.join(HARNESS, "inst_t1.cpp"), os.path.join(build.REPO, "src/core/arch/armv6_m/fp.cpp")):
            out = os.path.join(d, os.path.basename(src)[:-4] + ".ll")
            cmd = ["clang++-14", "--target=thumbv6m-none-eabi", "-ffreestanding", "-isystem", os.path.join(HARNESS, "stub_include"),
                   "-I" + os.path.join(build.REPO, "include")] + build.IRFLAGS + [build.HOOK_DEFINE, src, "-o", out]
            r = subprocess.run(cmd, capture_output=True, text=True)
            if r.returncode != 0:
                raise RuntimeError("clang (thumbv6m) failed on %s:\n%s" % (src, r.stderr[-1500:]))
            mods.append(irparse.parse_module(out))
        _THUMB["prog"] = eir.Program(mods)
    return _THUMB["prog"]


GLUE_OPS = {"add": 2, "subtract": 2, "multiply2": 1, "negate": 1, "reduce": 1}


def ob_glue(op, alias):
    import c02
    prog = thumb_prog()
    N, W8 = 384, 392
    I = eir.Interp(prog)
    I.solver.set("timeout", 120000)
    I.noalias_fatal = False
    a = z3.BitVec("a", N)
    b = z3.BitVec("b", N) if GLUE_OPS[op] == 2 and alias != 3 else a
    za, zb, zp = z3.ZeroExt(8, a), z3.ZeroExt(8, b), z3.BitVecVal(Q, W8)
    I.assumptions = [z3.ULT(za, z3.BitVecVal(2 * Q, W8))] if op == "reduce" else [z3.ULT(a, z3.BitVecVal(Q, N)), z3.ULT(b, z3.BitVecVal(Q, N))]
    if op == "add":
        want = z3.If(z3.UGE(za + zb, zp), za + zb - zp, za + zb)
    elif op == "subtract":
        want = z3.If(z3.ULT(za, zb), za - zb + zp, za - zb)
    elif op == "multiply2":
        want = z3.If(z3.UGE(za + za, zp), za + za - zp, za + za)
    elif op == "negate":
        want = z3.If(za == 0, za, zp - za)
    else:
        want = z3.If(z3.UGE(za, zp), za - zp, za)
    want = z3.Extract(N - 1, 0, want)
    used = set()

    def rd(I_, p):
        return eir.as_bv(I_.load_bytes(p.obj, p.off, 48), N)

    def wr(I_, p, v):
        v = eir.simp(v)
        for i in range(12):
            I_.store_cell(p.obj, p.off + 4 * i, 4, (v >> (32 * i)) & 0xffffffff if eir.is_conc(v) else eir.simp(z3.Extract(32 * i + 31, 32 * i, v)))

    def ext(I_, name, args, site):
        # the assembly routines, by the specification proved for them by t1:bigint_384_{add,subtract,multiply2}
        k = name.replace(W.PREFIX, "")
        used.add(k)
        if k == "bigint_384_add":
            s_ = z3.ZeroExt(1, rd(I_, args[1])) + z3.ZeroExt(1, rd(I_, args[2]))
            wr(I_, args[0], z3.Extract(N - 1, 0, s_))
            return eir.simp(z3.Extract(N, N, s_) == 1)
        if k == "bigint_384_subtract":
            x, y = rd(I_, args[1]), rd(I_, args[2])
            wr(I_, args[0], x - y)
            return eir.simp(z3.ULT(x, y))
        if k == "bigint_384_multiply2":
            x = rd(I_, args[1])
            wr(I_, args[0], x << 1)
            return eir.simp(z3.ZeroExt(31, z3.Extract(N - 1, N - 1, x)))
        raise ExecError("unsupported", "call to external function " + name)
    I.external_handler = ext

    def obj(name, value, const=False, align=8):
        o = Obj(name, 48, "arg", align, const)
        for i in range(12):
            o.cells[4 * i] = (4, (value >> (32 * i)) & 0xffffffff if isinstance(value, int) else eir.simp(z3.Extract(32 * i + 31, 32 * i, value)))
        return o
    if op == "reduce":
        fname = W.REDUCE

        def once():
            oa = obj("tmp+48", a, True, 4)       # as the assembly passes it: 4 mod 8 (see t1:frame notes)
            op_, ores = obj("p", Q, True), Obj("res", 48, "arg", 8)
            I.call_named(fname, [Ptr(ores, 0), Ptr(oa, 0), Ptr(op_, 0)])
            return I.load_bytes(ores, 0, 48)
    else:
        fname = prog.find1(c02.NS + r"FpBase<384>::%s\(.*\)" % op)

        def once():
            oa = obj("a", a)
            ob = None
            if GLUE_OPS[op] == 2:
                ob = oa if alias == 3 else obj("b", b)
            op_ = obj("p", Q, True)
            ores = oa if alias in (1, 3) else (ob if alias == 2 else Obj("res", 48, "arg", 8))
            for o in (oa, ob):
                if o is not None and o is not ores:
                    o.const = True
            I.call_named(fname, [Ptr(ores, 0), Ptr(oa, 0)] + ([Ptr(ob, 0)] if ob is not None else []) + [Ptr(op_, 0)])
            return I.load_bytes(ores, 0, 48)
    key = "t1:glue:fpbase_384_%s:alias=%d" % (op, alias)
    n = c02.check_all_paths(I, once, lambda out: out == want, key, "FpBase<384>::%s (thumbv6m IR over the assembly kernels)" % op,
                            {"a": a, "b": b}, {"t1_kernel": "fpbase_384_" + op, "backend": "t1", "alias": alias})
    return c02.stats(I, n, [fname if op == "reduce" else c02.cname(prog, fname)],
                     "%d paths of the thumbv6m IR, result == (a %s b) mod p as %d-bit vectors (QF_BV); assembly externals used by specification: %s" % (
                         n, op, W8, ", ".join(sorted(used)) or "none"))


# ---- registration ----------------------------------------------------------------------------------------------------
def register(chk):
    TIER[0] = chk.tier
    try:
        W.program()               # expanded once in the parent; workers inherit it
        thumb_prog()
    except Exception as e:        # reported by every obligation that needs it
        print("c03_t1: front end problem: %s" % str(e)[:300], file=sys.stderr)
    chk.add("t1:reader-crosscheck", ob_reader)
    chk.add("t1:interpreter-selftest", ob_selftest)
    for kind in W.KINDS:
        chk.add("t1:frame:%s" % kind, ob_frame, kind)
    for kind in ("bigint_384_add", "bigint_384_subtract", "bigint_384_multiply2"):
        for alias in ALIASES[kind]:
            chk.add("t1:%s:alias=%d" % (kind, alias), ob_simple, kind, alias)
    chk.add("t1:bigint_768_multiply", ob_multiply, False)
    chk.add("t1:bigint_768_square", ob_multiply, True)
    for kind in ("fpbase_384_montgomery_reduce", "fpbase_384_multiply", "fpbase_384_square"):
        for alias in ALIASES[kind]:
            chk.add("t1:%s:alias=%d" % (kind, alias), ob_montgomery, kind, alias)
    for op, nin in GLUE_OPS.items():
        for alias in ((0,) if op == "reduce" else (0, 1, 2, 3) if nin == 2 else (0, 1)):
            chk.add("t1:glue:fpbase_384_%s:alias=%d" % (op, alias), ob_glue, op, alias)


BOUNDS = ["ARMv6-M back end: all 384-bit operands (a, b < p for the fused multiply/square, 768-bit reduction inputs below p*2^384); aliasing res==a, res==b, "
          "res==a==b, a==b; branch-free code executed for its real length (no unwinding bound)",
          "ARMv6-M: Montgomery kernels are decided up to the call of fpbase_384_reduce (T*2^384 = A + U*p, T < 2p, right destination and modulus); the C++ "
          "reduce and the generic FpBase<384>::add/subtract/multiply2/negate on top of the assembly are decided on the thumbv6m IR (-O1 -fno-inline, not the "
          "shipped flags)",
          "ARMv6-M: NO hardware or emulator run - counterexamples are confirmed only in the concrete mode of engine/easm_t1.py (replay-kind=interpreter)"]
TRUSTED = ["ARMv6-M instruction semantics as implemented in engine/easm_t1.py (adds/adcs/subs/sbcs/rsbs/muls/lsls/lsrs/eors/uxth/mov/ldr/str/ldm/stm/push/pop/"
           "bl/bx, C = NOT borrow, shift carry-out, MULS/EORS leave C unchanged); cross-checked only against python big integers, not against silicon",
           "engine/gas_macro.py's reading of GNU-as macro expansion and divided syntax (cross-checked against clang's assembler for the unified rewrite); GNU as "
           "itself is not available here",
           "integer fact used for the fused kernels: a, b < p implies a*b < p*2^384 (the opaque half products do not carry it)"]


def annotate(chk):
    chk.bounds = list(chk.bounds) + BOUNDS          # (the "NOT covered: ... ARMv6-M" line of c03.py becomes obsolete with this)
    chk.trusted = list(chk.trusted) + TRUSTED


def main(argv=None):
    if not os.environ.get("VERIF_OUT"):
        print("c03_t1.py is a part of ./check C03; to run it alone set VERIF_OUT (and VERIF_WORK) to scratch directories")
        sys.exit(2)
    chk = Check("C03", "proof", argv)
    register(chk)
    chk.explanation = __doc__
    annotate(chk)
    chk.run()
    chk.finish()


if __name__ == "__main__":
    main()
