"""Shared harness of C15 (marshalling round trip / length accounting) and C17 (parsers of untrusted bytes), DESIGN.md section 5.

The C wrappers embedded_pairing_{wkdibe,lqibe}_*_{marshal,unmarshal,set_length,...} and embedded_pairing_bls12_381_{g1,g2,gt}_{marshal,unmarshal}
are executed from the IR of the current tree together with the templates they dispatch to (src/*/marshal.cpp, include/*/api.hpp).
Model of the layer below (contracts established by C09 / C04 / C01, see `install_codec`):
  Encoding<G, c>::encode(P)   writes exactly Encoding::size bytes at `this` (size from the table below, cross-checked against the IR's
                              dereferenceable(N) of `this`): ONE abstract cell holding the token Enc(G, c, P)  - bytes are an injective function of P
  Encoding<G, c>::decode      reads exactly Encoding::size bytes at `this`; on a token Enc(G, c, P) it returns true and P (decode o encode = id,
                              checked or not); on anything else the result is a fresh uninterpreted Bool: true with a fresh point, or false with
                              the output object left as it was (reading it afterwards is a read of uninitialised memory)
  Fq12::write/read_big_endian the same with a 576-byte token
  from_projective / from_affine / pairing: engine.dom_grp (identity on formal logarithms; pairing multiplies logarithms)
Group elements are formal symbols (engine.dom_grp.GE); equality of group elements is therefore syntactic (ground), not a solver query.
Integers (lengths, slot counts, the free-slot index, raw bytes) are z3 bit-vectors and every statement about them is a solver query.
"""
import os
import re
import sys
sys.path.insert(0, os.path.dirname(os.path.dirname(os.path.abspath(__file__))))

import z3
from engine import build, eir, dom_grp
from engine.dom_grp import GE, Poly, Grp
from engine.eir import Ptr, Obj, is_conc, ExecError, MemViolation
from engine.framework import Violation, Inconclusive

FILES = ["src/wkdibe/marshal.cpp", "src/wkdibe/wkdibe.cpp", "src/lqibe/marshal.cpp", "src/lqibe/lqibe.cpp", "src/bls12_381/bls12_381.cpp"]
B = "embedded_pairing::bls12_381::"
ENC_SIZE = {("G1", True): 48, ("G1", False): 96, ("G2", True): 96, ("G2", False): 192}     # C09's contract
GT_SIZE = 576
CELL = {"G1": 144, "G2": 288, "GT": 576, "G1A": 97, "G2A": 193}                            # in-memory cells of engine.dom_grp
_PROG = {}


TOWER_FILES = ["src/bls12_381/fq12.cpp", "src/bls12_381/fq6.cpp", "src/bls12_381/fq2.cpp"]


def prog(tag, files=None):
    if tag not in _PROG:
        _PROG[tag] = build.load_program("A", files=files or FILES, tag=tag)
    return _PROG[tag]


# ---------------------------------------------------------------------------------------------------------------
# interpreter: lazily symbolic buffers, alignment findings collected instead of aborting the run
# ---------------------------------------------------------------------------------------------------------------
class MInterp(eir.Interp):
    def __init__(self, program):
        eir.Interp.__init__(self, program)
        # an Obj with attribute .lazy = <name>: bytes never written are arbitrary (a fresh symbolic byte <name>[k] appears on first read)
        self.align_fatal = False
        self.align_events = []      # (function, object, offset, width, declared alignment, is_write)
        self.codec = []             # log of the intercepted encode / decode / big-endian calls

    def materialise(self, o, off, size):
        if getattr(o, "lazy", None) and is_conc(off):
            have = set()
            for co, (cs, _) in o.cells.items():
                if co < off + size and co + cs > off:
                    have.update(range(co, co + cs))
            for k in range(off, off + size):
                if k not in have:
                    o.cells[k] = (1, z3.BitVec("%s[%d]" % (o.lazy, k), 8))

    def load_bytes(self, o, off, size):
        self.materialise(o, off, size)
        return eir.Interp.load_bytes(self, o, off, size)

    def memcpy(self, dst, src, n, move=False):
        if isinstance(src, Ptr) and src.obj is not None and is_conc(n):
            self.materialise(src.obj, src.off, n)
        return eir.Interp.memcpy(self, dst, src, n, move)

    def _check_access(self, p, size, align, write):
        try:
            return eir.Interp._check_access(self, p, size, align, write)
        except MemViolation as e:
            if e.kind != "align" or self.align_fatal:
                raise
            # bounds were checked before the alignment test; record the finding and go on (C17 reports it as its own obligation)
            fn = self.callstack[-1] if self.callstack else "?"
            self.align_events.append((short_fn(fn), p.obj.name, p.off if is_conc(p.off) else str(p.off), size, align, bool(write)))


def short_fn(s):
    m = re.search(r"(\w+::\w+<(?:true|false)>)\s*$", s)
    return m.group(1) if m else s.split("::")[-1]


class Enc:
    """the Encoding::size bytes that encode() produces for a point"""
    __slots__ = ("g", "comp", "ge")

    def __init__(self, g, comp, ge):
        self.g, self.comp, self.ge = g, comp, ge

    def __repr__(self):
        return "Enc(%s,%s,%r)" % (self.g, "c" if self.comp else "u", self.ge)


class BE12:
    """the 576 bytes Fq12::write_big_endian produces"""
    __slots__ = ("ge",)

    def __init__(self, ge):
        self.ge = ge


class World:
    def __init__(self, tag):
        self.P = prog(tag)
        self.I = MInterp(self.P)
        self.I.solver.set("timeout", 120000)
        self.G = Grp()
        install_conversions(self)                      # registered first: they take precedence over dom_grp's versions of the same functions
        self.M = dom_grp.install(self.I, self.G)
        self.nfresh = 0
        install_codec(self)
        self.queries = 0

    # ---- solver
    def prove(self, pc, goal, what):
        """(holds, model): is goal implied by assumptions + pc ?"""
        s = z3.Solver()
        s.set("timeout", 120000)
        for c in list(self.I.assumptions) + list(pc):
            s.add(c)
        s.add(z3.Not(goal))
        r = s.check()
        self.queries += 1
        if r == z3.unknown:
            raise Inconclusive("solver unknown on: " + what)
        return r == z3.unsat, (s.model() if r == z3.sat else None)

    def satisfiable(self, pc, what):
        ok, _ = self.prove(pc, z3.BoolVal(False), what)
        return not ok

    def stats(self, npaths, fns, sample):
        return {"queries": self.queries + getattr(self.I, "vc_count", 0), "paths": npaths, "functions": sorted(set(fns)), "sample": sample}


def install_conversions(W):
    """from_projective / from_affine: identity on formal group elements (C05), as in engine.dom_grp, but a source object that nothing has written
    (the output of a decode that failed) is reported as a read of uninitialised memory instead of an engine limitation"""
    def conv(src, dst):
        def h(I_, name, args, site):
            p = args[1]
            if isinstance(p, Ptr) and p.obj is not None and is_conc(p.off) and not any(
                    co < p.off + CELL[src] and co + cs > p.off for co, (cs, _) in p.obj.cells.items()):
                raise MemViolation("uninit", "%s reads %s+%d, which nothing has written (output of a failed decode?)" % (short_fn(I_.callstack[-1]) if I_.callstack else name, p.obj.name, p.off))
            W.M.write(args[0], dst, W.M.read(p, src))
        return h
    for g, PR, AR in (("G1", dom_grp.P1, dom_grp.A1), ("G2", dom_grp.P2, dom_grp.A2)):
        W.I.add_intercept(r"void " + PR + r"::from_affine<.*>\(.*\)", conv(g + "A", g), g + "::from_affine")
        W.I.add_intercept(AR + r"::from_projective\(.*\)", conv(g, g + "A"), g + "A::from_projective")


def install_codec(W):
    I, M, G = W.I, W.M, W.G
    rx = re.compile(r"Encoding<%s(G[12])Affine, (true|false)>::(encode|decode)" % B)

    def parse(name):
        m = rx.search(I.prog.demangled[name])
        g, comp = m.group(1), m.group(2) == "true"
        size = ENC_SIZE[(g, comp)]
        d = I.prog.fn[name].params[0].attrs.get("dereferenceable")
        if d != size:
            raise Inconclusive("Encoding<%sAffine,%s> is %r bytes in the IR, C09's contract says %d" % (g, comp, d, size))
        return g, comp, size

    def region(p, size):
        """the abstract token stored exactly at [p, p+size), or None"""
        if not is_conc(p.off):
            raise ExecError("unsupported", "codec call at a symbolic buffer offset")
        c = p.obj.cells.get(p.off)
        return c[1] if c is not None and c[0] == size and isinstance(c[1], (Enc, BE12)) else None

    def put(p, size, tok):
        try:
            I.store_cell(p.obj, p.off, size, tok)
        except ExecError as e:
            if e.kind == "abstract-bytes":
                raise MemViolation("clobber", "an encoded element at %s+%d is partially overwritten by a later element" % (p.obj.name, p.off))
            raise

    def h_encode(I_, name, args, site):
        g, comp, size = parse(name)
        ge = M.read(args[1], g + "A")
        I_._check_access(args[0], size, 1, True)
        region(args[0], size)
        put(args[0], size, Enc(g, comp, ge))
        I_.codec.append(("encode", g, comp, args[0].obj, args[0].off, None, 1))

    def h_decode(I_, name, args, site):
        g, comp, size = parse(name)
        I_._check_access(args[0], size, 1, False)
        tok = region(args[0], size)
        if isinstance(tok, Enc) and tok.g == g and tok.comp == comp:
            ge, res = tok.ge, 1
        else:
            # arbitrary bytes: the outcome is a free Boolean (the path forks here); a failed decode guarantees nothing about the output object
            W.nfresh += 1
            ge, res = GE(g, Poly.sym("dec%d" % W.nfresh)), z3.Bool("decode_ok!%d" % W.nfresh)
        I_.codec.append(("decode", g, comp, args[0].obj, args[0].off, args[2], res))
        if not I_.branch(res):
            return 0
        M.write(args[1], g + "A", ge)
        return 1
    I.add_intercept(B + r"Encoding<.*>::encode\(.*\)", h_encode, "Encoding::encode")
    I.add_intercept(B + r"Encoding<.*>::decode\(.*\) const", h_decode, "Encoding::decode")

    def h_write12(I_, name, args, site):
        ge = M.read(args[0], "GT")
        I_._check_access(args[1], GT_SIZE, 1, True)
        region(args[1], GT_SIZE)
        put(args[1], GT_SIZE, BE12(ge))
        I_.codec.append(("write12", "GT", None, args[1].obj, args[1].off, None, 1))

    def h_read12(I_, name, args, site):
        I_._check_access(args[1], GT_SIZE, 1, False)
        tok = region(args[1], GT_SIZE)
        if isinstance(tok, BE12):
            ge = tok.ge
        else:
            W.nfresh += 1
            ge = GE("GT", Poly.sym("gt%d" % W.nfresh))
        M.write(args[0], "GT", ge)
        I_.codec.append(("read12", "GT", None, args[1].obj, args[1].off, None, 1))
    I.add_intercept(B + r"Fq12::write_big_endian\(.*\) const", h_write12, "Fq12::write_big_endian")
    I.add_intercept(B + r"Fq12::read_big_endian\(.*\)", h_read12, "Fq12::read_big_endian")


# ---------------------------------------------------------------------------------------------------------------
# object kinds: C++ struct, fields carried by the wire format, C wrappers
# ---------------------------------------------------------------------------------------------------------------
class Kind:
    """fields: (label, struct field index, cell kind[, 'sig' = only present with signature support])"""

    def __init__(self, name, prefix, struct, fields, var=None, nocomp=False, ndec=None):
        self.name, self.prefix, self.struct, self.fields, self.var, self.nocomp = name, prefix, struct, fields, var, nocomp
        self.ndec = ndec        # number of decode calls of an accepting unmarshal: f(l, sig)

    def fn(self, what):
        return self.prefix + "_" + what

    def layout(self, P):
        for m in P.modules:
            t = m.types.get(self.struct)
            if t is not None:
                lay = P.layout(m)
                return lay, lay.resolve(t)
        raise Inconclusive("IR has no type " + self.struct)

    def size(self, P):
        lay, t = self.layout(P)
        return lay.size(t)

    def off(self, P, idx):
        lay, t = self.layout(P)
        return lay.field_offset(t, idx)[0]


W_ = "struct.embedded_pairing::wkdibe::"
L_ = "struct.embedded_pairing::lqibe::"
# var = (index of l, index of signatures, index of the array pointer, element struct, element cell kind)
KINDS = [
    Kind("wkdibe.params", "embedded_pairing_wkdibe_params", W_ + "Params",
         [("g", 0, "G2"), ("g1", 1, "G2"), ("g2", 2, "G1"), ("g3", 3, "G1"), ("pairing", 4, "GT"), ("hsig", 5, "G1", "sig")],
         var=(9, 6, 8, None), ndec=lambda l, s: 4 + s + l),
    Kind("wkdibe.secretkey", "embedded_pairing_wkdibe_secretkey", W_ + "SecretKey",
         [("a0", 0, "G1"), ("a1", 1, "G2"), ("bsig", 5, "G1", "sig")], var=(2, 3, 6, W_ + "FreeSlot"), ndec=lambda l, s: 2 + s + l),
    Kind("wkdibe.ciphertext", "embedded_pairing_wkdibe_ciphertext", W_ + "Ciphertext", [("a", 0, "GT"), ("b", 1, "G2"), ("c", 2, "G1")], ndec=lambda l, s: 2),
    Kind("wkdibe.signature", "embedded_pairing_wkdibe_signature", W_ + "Signature", [("a0", 0, "G1"), ("a1", 1, "G2")], ndec=lambda l, s: 2),
    Kind("wkdibe.masterkey", "embedded_pairing_wkdibe_masterkey", W_ + "MasterKey", [("g2alpha", 0, "G1")], ndec=lambda l, s: 1),
    Kind("lqibe.params", "embedded_pairing_lqibe_params", L_ + "Params", [("p", 0, "G2"), ("sp", 1, "G2")], ndec=lambda l, s: 2),
    Kind("lqibe.id", "embedded_pairing_lqibe_id", L_ + "ID", [("q", 0, "G1A")], ndec=lambda l, s: 1),
    Kind("lqibe.masterkey", "embedded_pairing_lqibe_masterkey", L_ + "MasterKey", [("s", 0, "RAW32")], ndec=lambda l, s: 0),
    Kind("lqibe.secretkey", "embedded_pairing_lqibe_secretkey", L_ + "SecretKey", [("sq", 0, "G1A")], ndec=lambda l, s: 1),
    Kind("lqibe.ciphertext", "embedded_pairing_lqibe_ciphertext", L_ + "Ciphertext", [("rp", 0, "G2A")], ndec=lambda l, s: 1),
]
BLS_KINDS = [
    Kind("bls12_381.g1", "embedded_pairing_bls12_381_g1", "struct.embedded_pairing::bls12_381::G1Affine", [("a", 0, "G1A")], ndec=lambda l, s: 1),
    Kind("bls12_381.g2", "embedded_pairing_bls12_381_g2", "struct.embedded_pairing::bls12_381::G2Affine", [("a", 0, "G2A")], ndec=lambda l, s: 1),
    Kind("bls12_381.gt", "embedded_pairing_bls12_381_gt", "struct.embedded_pairing::bls12_381::Fq12", [("a", 0, "GT")], nocomp=True, ndec=lambda l, s: 0),
]
BY_NAME = {k.name: k for k in KINDS + BLS_KINDS}


def grp_of(ck):
    return ck[:2]


def field_ptrs(W, kind, obj, l, sig):
    """[(label, cell kind, Ptr)] of every group-element field the wire format carries for the shape (l, sig), incl. the slot array"""
    P = W.P
    out = []
    for f in kind.fields:
        if len(f) > 3 and not sig:
            continue
        out.append((f[0], f[2], Ptr(obj, kind.off(P, f[1]))))
    if kind.var:
        arrp = obj.cells[kind.off(P, kind.var[2])][1]
        stride = elem_stride(W, kind)
        for i in range(l):
            out.append(("%s[%d]" % ("b" if kind.var[3] else "h", i), "G1", Ptr(arrp.obj, arrp.off + stride * i)))
    return out


def elem_stride(W, kind):
    if kind.var[3] is None:
        return CELL["G1"]
    return Kind("slot", "", kind.var[3], []).size(W.P)


def idx_off(W, kind):
    return Kind("slot", "", kind.var[3], []).off(W.P, 1)


def new_dest(W, kind, name="out"):
    """an uninitialised destination object of exactly sizeof(struct); variable-length kinds hold a stale slot count from an earlier use"""
    o = Obj(name, kind.size(W.P), "arg", 16)
    stale = None
    if kind.var:
        stale = z3.BitVec(name + ".stale_l", 32)
        W.I.store_cell(o, kind.off(W.P, kind.var[0]), 4, stale)
    o.written = False
    return o, stale


def attach_array(W, kind, o, l):
    """slot array of exactly l elements, as the bindings allocate it after set_length"""
    arr = Obj(o.name + ".slots", elem_stride(W, kind) * l, "arg", 16)
    W.I.store_cell(o, kind.off(W.P, kind.var[2]), 8, Ptr(arr, 0))
    return arr


def build_obj(W, kind, l, sig, comp, name="obj"):
    """an object with formal group elements; returns (obj, description dict)"""
    I, P = W.I, W.P
    o = Obj(name, kind.size(P), "arg", 16)
    desc = {"l": l, "sig": sig, "idx": [], "raw": None, "el": {}}
    if kind.var:
        I.store_cell(o, kind.off(P, kind.var[0]), 4, l)
        I.store_cell(o, kind.off(P, kind.var[1]), 1, int(sig))
        attach_array(W, kind, o, l)
    for label, ck, p in field_ptrs(W, kind, o, l, True):
        if ck == "RAW32":
            desc["raw"] = z3.BitVec(name + "." + label, 256)
            I.store_cell(p.obj, p.off, 32, desc["raw"])
            continue
        pol = Poly.sym(name + "." + label)
        if kind.name == "wkdibe.params" and label == "pairing" and comp:
            pol = Poly.sym(name + ".g2") * Poly.sym(name + ".g1")        # setup's post-condition: pairing = e(g2, g1)
        desc["el"][label] = pol
        I.store_cell(p.obj, p.off, CELL[ck], GE(grp_of(ck), pol))
        if kind.var and kind.var[3] and label.startswith("b["):
            ix = z3.BitVec("%s.%s.idx" % (name, label), 32)
            desc["idx"].append(ix)
            I.store_cell(p.obj, p.off + idx_off(W, kind), 4, ix)
    for ob in set([o] + [p.obj for _, _, p in field_ptrs(W, kind, o, l, True)]):
        ob.const = True
    return o, desc


def read_obj(W, kind, o, l, sig):
    I = W.I
    got = {"el": {}, "idx": [], "raw": None}
    for label, ck, p in field_ptrs(W, kind, o, l, sig):
        if ck == "RAW32":
            got["raw"] = I.load_bytes(p.obj, p.off, 32)
            continue
        got["el"][label] = W.M.read(p, ck).p
        if kind.var and kind.var[3] and label.startswith("b["):
            got["idx"].append(I.load_bytes(p.obj, p.off + idx_off(W, kind), 4))
    if kind.var:
        got["l"] = I.load_bytes(o, kind.off(W.P, kind.var[0]), 4)
        got["sig"] = I.load_bytes(o, kind.off(W.P, kind.var[1]), 1)
    return got


def call(W, kind, what, *args):
    return W.I.call_named(kind.fn(what), list(args))


def c_marshal(W, kind, buf, o, comp):
    return call(W, kind, "marshal", Ptr(buf, 0), Ptr(o, 0), *([] if kind.nocomp else [int(comp)]))


def c_unmarshal(W, kind, o, buf, comp, checked):
    return call(W, kind, "unmarshal", Ptr(o, 0), Ptr(buf, 0), *([] if kind.nocomp else [int(comp), int(checked)]))


def fixed_length(W, kind, comp):
    """the library's own marshalled length of a fixed-size kind (C function, or the exported size constants for g1/g2/gt)"""
    if kind.name.startswith("bls12_381"):
        g = kind.name[-2:]
        nm = "embedded_pairing_bls12_381_%s_marshalled_%ssize" % (g, "" if g == "gt" else ("compressed_" if comp else "uncompressed_"))
        v = W.I.load_bytes(W.I.global_obj(nm), 0, 8)
    else:
        v = call(W, kind, "get_marshalled_length", int(comp))
    if not is_conc(v):
        raise Inconclusive("marshalled length of %s is not a constant" % kind.name)
    return v


def uncovered(buf, size):
    """byte offsets of [0, size) that no cell of the buffer covers (i.e. that were never written)"""
    cov = bytearray(size)
    for co, (cs, _) in buf.cells.items():
        for k in range(max(co, 0), min(co + cs, size)):
            cov[k] = 1
    return [k for k in range(size) if not cov[k]]


def guarded(name, fn, *args):
    """an access through / arithmetic on an IR `undef` (a local that is used before it is assigned) is a finding, not an engine limitation"""
    try:
        return fn(*args)
    except MemViolation:
        raise
    except ExecError as e:
        if "undef" in str(e):
            raise Violation(name + ":undef", "the code uses an uninitialised value (undef in the IR of the current tree): %s" % e, None)
        raise


def forms(kind):
    return (False,) if kind.nocomp else (True, False)


def fname(comp):
    return "compressed" if comp else "uncompressed"


def model_ints(mdl, *terms):
    out = {}
    for t in terms:
        if t is not None and not is_conc(t):
            out[str(t)] = mdl.eval(t, model_completion=True).as_long()
    return out


# ---------------------------------------------------------------------------------------------------------------
# the 576-byte token is justified here: the REAL Fq12 -> Fq6 -> Fq2 big-endian I/O over Fq::read/write_big_endian (48 bytes each, C02)
# ---------------------------------------------------------------------------------------------------------------
class FqSym:
    def __init__(self, name):
        self.name = name


class FqBytes:
    """the 48 bytes Fq::write_big_endian produces for a field element"""
    def __init__(self, v):
        self.v = v


def fq12_io(tag, symbolic_n):
    """symbolic_n False: write_big_endian into an exact 576-byte buffer writes 12 x 48 bytes, every coefficient exactly once (injective given C02), and
    read_big_endian brings every coefficient back.  symbolic_n True: read_big_endian on an n-byte buffer (n >= 576 symbolic) of arbitrary bytes
    stays inside it, and the value read can be written into an exact 576-byte buffer."""
    P = prog(tag + "_tower", TOWER_FILES)
    I = MInterp(P)
    key = "fq12-io"

    def h_w(I_, name, args, site):
        I_._check_access(args[0], 48, 1, False)
        I_._check_access(args[1], 48, 1, True)
        c = args[0].obj.cells.get(args[0].off)
        if c is None or not isinstance(c[1], FqSym):
            raise MemViolation("uninit", "Fq::write_big_endian of something that is not a field element at %r" % (args[0],))
        I_.store_cell(args[1].obj, args[1].off, 48, FqBytes(c[1]))

    def h_r(I_, name, args, site):
        I_._check_access(args[1], 48, 1, False)
        I_._check_access(args[0], 48, 1, True)
        c = args[1].obj.cells.get(args[1].off) if is_conc(args[1].off) else None
        v = c[1].v if c is not None and c[0] == 48 and isinstance(c[1], FqBytes) else FqSym("read@%s" % (args[1].off,))
        I_.store_cell(args[0].obj, args[0].off, 48, v)
    I.add_intercept(B + r"Fq::write_big_endian\(.*\) const", h_w, "Fq::write_big_endian")
    I.add_intercept(B + r"Fq::read_big_endian\(.*\)", h_r, "Fq::read_big_endian")
    fw = P.find1(B + r"Fq12::write_big_endian\(.*\) const")
    fr = P.find1(B + r"Fq12::read_big_endian\(.*\)")
    src = Obj("a", GT_SIZE, "arg", 16)
    for i in range(12):
        src.cells[48 * i] = (48, FqSym("a%d" % i))
    src.const = True
    try:
        if not symbolic_n:
            buf = Obj("buf", GT_SIZE, "arg", 1)
            I.call_named(fw, [Ptr(src, 0), Ptr(buf, 0)])
            miss = uncovered(buf, GT_SIZE)
            names = sorted(cv.v.name for co, (cs, cv) in buf.cells.items() if isinstance(cv, FqBytes) and cs == 48 and co % 48 == 0)
            if miss or names != sorted("a%d" % i for i in range(12)):
                raise Violation(key + ":write", "Fq12::write_big_endian does not write each of the 12 coefficients exactly once into 12 x 48 bytes (unwritten: %r, written: %r)" % (miss[:4], names), None)
            buf.const = True
            out = Obj("out", GT_SIZE, "arg", 16)
            I.call_named(fr, [Ptr(out, 0), Ptr(buf, 0)])
            bad = [i for i in range(12) if out.cells.get(48 * i, (0, None))[1] is not src.cells[48 * i][1]]
            if bad:
                raise Violation(key + ":read", "Fq12::read_big_endian(write_big_endian(a)) differs from a in coefficients %r" % bad, None)
        else:
            n = z3.BitVec("n", 64)
            I.assumptions = [z3.UGE(n, GT_SIZE), z3.ULE(n, 1 << 20)]
            buf = Obj("buf", n, "arg", 1, True)
            out = Obj("out", GT_SIZE, "arg", 16)
            I.call_named(fr, [Ptr(out, 0), Ptr(buf, 0)])
            buf2 = Obj("buf2", GT_SIZE, "arg", 1)
            I.call_named(fw, [Ptr(out, 0), Ptr(buf2, 0)])
            if uncovered(buf2, GT_SIZE):
                raise Violation(key + ":rewrite", "the value read cannot be written back into 576 bytes", None)
    except MemViolation as e:
        raise Violation("%s:%s" % (key, e.kind), "Fq12 big-endian I/O: %s" % e, None)
    return {"queries": getattr(I, "vc_count", 0), "paths": 1, "functions": [P.demangled[fw], P.demangled[fr]],
            "sample": "real Fq12/Fq6/Fq2 read/write_big_endian over 48-byte Fq tokens; 12 coefficients"}
