"""C06 tiers (i) decompositions and (ii) group loops (DESIGN.md section 5, C06).

Group elements are integer multiples [e]P of one formal base point P (e a python int or a z3 Int term); the group operations of C05 are
intercepted by their specification (add: +, multiply2: *2, negate: *-1, copy/set/from_affine: identity, G1::endomorphism: *lambda,
G2::frobenius_map(.,1): *x  - the two eigenvalue facts are T7, pinned on the generators natively).  Data-dependent loops are cut at their
header and one iteration is decided from an arbitrary state satisfying  `not found_one => E = 0`; the digit / bit read in that iteration is
a symbolic value (digit strings are z3 arrays, so a read at the wrong index is visible).

  fill_table           table[i] = [2i+1]P                                               (run in full, concrete)
  wnaf_table_multiply  E' = 2E + wnaf[i-1]; index decremented; exit after index 0        => result = [sum wnaf[j] 2^j]P
  multiply_endomorphism(5 args)  E' = 2E + s0*d0*[i<size0] + s1*lambda*d1*[i<size1]     => [+-c0 +- lambda*c1]P
  multiply_frobenius(PowersOfX)  E' = 2E + sum_j d_j*[i<size_j]*|x|^j                     => [sum c_j |x|^j]P
  multiply_doubleadd_restrict    E' = 2E + bit_i
  glv                  decompose_lambda over affine integer words (QF_LIA): for EVERY 256-bit k (also k >= r, which the caller passes
                       unreduced) +-c0 +- c1*lambda = k (mod r), c0, c1 < 2^256
  dispatch             G1::multiply -> multiply_endomorphism; G2::multiply -> multiply_frobenius o decompose; 128/512-bit -> w-NAF
  eigen                G1::endomorphism = (beta x, y, z) with beta^3 = 1, beta != 1; lambda^2 + lambda + 1 = 0 (mod r); natively [lambda]G = endomorphism(G),
                       [x]G2 = frobenius_map(G2, 1) on the generators (T7 pin)
"""
import sys
import os
import re
sys.path.insert(0, os.path.dirname(os.path.dirname(os.path.abspath(__file__))))
sys.path.insert(0, os.path.dirname(os.path.abspath(__file__)))

import subprocess
import z3
from engine import build, eir, eir_lin, loopcut, irparse
from engine.dom_lin import LinCtx, LV
from engine.eir import Ptr, Obj, is_conc, ExecError, MemViolation
from engine.framework import Violation, Inconclusive

B = "embedded_pairing::bls12_381::"
CORE = "embedded_pairing::core::"
R_ORDER = 0x73eda753299d7d483339d80809a1d80553bda402fffe5bfeffffffff00000001
Q = 0x1a0111ea397fe69a4b1ba7b6434bacd764774b84f38512bf6730d2a0f6b0f6241eabfffeb153ffffb9feffffffffaaab
X = 0xd201000000010000
LAMBDA = 0x73eda753299d7d483339d80809a1d804a7780001fffcb7fcfffffffe00000001
HARNESS = os.path.join(os.path.dirname(os.path.dirname(os.path.abspath(__file__))), "harness")
_PROG = {}
PROJ = r"(?:%sProjective<%sFq2?>|%sG[12])" % (B, B, B)
AFF = r"(?:%sAffine<.*?>|%sG[12]Affine)" % (B, B)


def prog():
    if "p" not in _PROG:
        lls = build.emit_ir("A", files=["src/bls12_381/curve.cpp", "src/bls12_381/curve_fast_multiply.cpp", "src/bls12_381/fr.cpp"], tag="c06_loops")
        out = os.path.join(build.WORK, "c06_loops", "inst_curve.ll")
        cmd = ["clang++-14", "-I" + os.path.join(build.REPO, "include")] + build.IRFLAGS + [build.HOOK_DEFINE, os.path.join(HARNESS, "inst_curve.cpp"), "-o", out]
        r = subprocess.run(cmd, capture_output=True, text=True)
        if r.returncode != 0:
            raise RuntimeError("clang failed on inst_curve.cpp:\n" + r.stderr[-2000:])
        mods = [irparse.parse_module(p) for p in list(lls.values()) + [out]]
        _PROG["p"] = eir.Program(mods)
        _PROG["p"].demangle_all()
    return _PROG["p"]


class Mul:
    """[e]P"""
    __slots__ = ("e",)

    def __init__(self, e):
        self.e = e

    def __repr__(self):
        return "[%s]P" % (str(self.e)[:40],)


def group_size(p_or_name):
    return 288


def install_group(I, log):
    """group layer over multiples of a formal base point; sizes are taken from the callee's parameter type (dereferenceable attribute)"""
    def size_of(name, idx):
        prm = I.prog.fn[name].params[idx]
        return prm.attrs.get("dereferenceable")

    def rd(p, size):
        tab = getattr(p.obj, "odd_table", None)
        if not is_conc(p.off) and isinstance(tab, list):
            # several tables in one object: the one addressed is the one whose range the offset must lie in
            off = eir.as_bv(p.off, 64)
            hit = [t for t in tab if not I.feasible(z3.Not(z3.And(z3.UGE(off, t[0]), z3.ULT(off, t[0] + t[1] * t[2]))))]
            tab = hit[0] if len(hit) == 1 else None
            if tab is None:
                raise ExecError("unsupported", "table access that is not confined to one table")
        if not is_conc(p.off) and tab is not None:
            # table of odd multiples (contents verified concretely by the harness): entry k holds [m*(2k+1)]P; a symbolic index is kept symbolic
            base, stride, entries, mult = tab
            off = eir.as_bv(p.off, 64)
            rel = off - base
            I.check_vc(z3.And(z3.URem(rel, z3.BitVecVal(stride, 64)) == 0, z3.ULT(z3.UDiv(rel, z3.BitVecVal(stride, 64)), entries)), "oob", "table index outside the table")
            k = z3.BV2Int(z3.UDiv(rel, z3.BitVecVal(stride, 64)))
            return (2 * k + 1) * mult
        if not is_conc(p.off):
            p = Ptr(p.obj, I.concretize(p.off, 64, 16))
        I._check_access(p, size, 1, False)
        c = p.obj.cells.get(p.off)
        if c is not None and isinstance(c[1], Mul):
            return c[1].e
        # raw constant: Projective::zero (z == 0) / Affine::zero (infinity set)
        if size in (144, 288):
            fs = size // 3
            z = I.load_bytes(p.obj, p.off + 2 * fs, fs)
            if is_conc(z) and z == 0:
                return 0
        if I.unwritten(p.obj, p.off, size):
            raise MemViolation("uninit", "read of an uninitialised group element at %r" % (p,))
        raise ExecError("abstract-bytes", "group element expected at %r" % (p,))

    def wr(p, size, e):
        I._check_access(p, size, 1, True)
        I.store_cell(p.obj, p.off, size, Mul(e))
    I.g_rd, I.g_wr = rd, wr

    def un(f):
        def h(I_, name, args, site):
            wr(args[0], size_of(name, 0), f(rd(args[1], size_of(name, 1))))
            log.append((I_.prog.demangled[name].split("(")[0].split("::")[-1],))
        return h

    def h_add(I_, name, args, site):
        wr(args[0], size_of(name, 0), rd(args[1], size_of(name, 1)) + rd(args[2], size_of(name, 2)))
        log.append(("add",))
    I.add_intercept(PROJ + r"::copy\(.*\)", un(lambda e: e), "copy")
    I.add_intercept(r"(?:void )?" + PROJ + r"::set(?:<.*>)?\(.*\)", un(lambda e: e), "set")
    I.add_intercept(r"(?:void )?" + PROJ + r"::from_affine(?:<.*>)?\(.*\)", un(lambda e: e), "from_affine")
    I.add_intercept(PROJ + r"::multiply2\(.*\)", un(lambda e: 2 * e), "multiply2")
    I.add_intercept(PROJ + r"::negate\(.*\)", un(lambda e: -e), "negate")
    I.add_intercept(r"(?:void )?" + PROJ + r"::add(?:<.*>)?\(.*\)", h_add, "add")
    I.add_intercept(B + r"G1::endomorphism\(.*\)", un(lambda e: e * LAMBDA), "endomorphism")

    def h_is_zero(I_, name, args, site):
        """[e]P is the identity exactly when r | e (P is a point of order r: the formal base point is not the identity)"""
        d = I_.prog.demangled[name]
        e = rd(args[0], 288 if "Fq2" in d or "G2" in d.split("(")[0] else 144)
        if isinstance(e, int):
            return int(e % R_ORDER == 0)
        return I_.branch(e % R_ORDER == 0) and 1 or 0
    I.add_intercept(PROJ + r"::is_zero\(\) const", h_is_zero, "is_zero")

    def h_frob(I_, name, args, site):
        if not is_conc(args[2]) or args[2] != 1:
            raise ExecError("unsupported", "G2::frobenius_map with power %r" % (args[2],))
        wr(args[0], 288, rd(args[1], 288) * (R_ORDER - X))         # psi acts as [x] = [-|x|] on G2 (T7)
    I.add_intercept(B + r"G2::frobenius_map\(.*\)", h_frob, "G2::frobenius_map")


def as_int(v):
    return z3.IntVal(v) if isinstance(v, int) else v


def bv2int_signed8(b):
    return z3.If(z3.Extract(7, 7, b) == 1, z3.BV2Int(b) - 256, z3.BV2Int(b))


def check_vcs(pc, vcs, key, what, model_terms):
    s = z3.Solver()
    s.set("timeout", 60000)
    for c in pc:
        s.add(c)
    n = 0
    for nm, vc, msg in vcs:
        s.push()
        s.add(z3.Not(vc))
        r = s.check()
        n += 1
        if r == z3.unknown:
            s.pop()
            raise Inconclusive("solver unknown on %s (%s)" % (nm, what))
        if r == z3.sat:
            m = s.model()
            ce = {k: str(m.eval(v, model_completion=True)) for k, v in model_terms.items()}
            s.pop()
            raise Violation("%s:%s" % (key, nm), "%s, one loop iteration: %s" % (what, msg), ce)
        s.pop()
    return n


# ---------------------------------------------------------------------------------------------------------------
def ob_fill_table(rx_table, label, entries):
    P = prog()
    fname = P.find1(rx_table)
    I = eir.Interp(P)
    install_group(I, [])
    esz = P.fn[fname].params[0].attrs["dereferenceable"] // entries
    bsz = P.fn[fname].params[1].attrs["dereferenceable"]
    tab = Obj("table", esz * entries, "arg", 16)
    base = Obj("base", bsz, "arg", 16, True)
    base.cells[0] = (bsz - (15 if bsz in (112, 208) else 0), Mul(1))
    I.call_named(fname, [Ptr(tab, 0), Ptr(base, 0)])
    for k in range(entries):
        e = I.g_rd(Ptr(tab, esz * k), esz)
        if e != 2 * k + 1:
            raise Violation("fill_table:%s:%d" % (label, k), "WnafTable::fill_table (%s): entry %d is [%s]P, expected [%d]P" % (label, k, e, 2 * k + 1), {"entry": k})
    return {"queries": entries, "paths": 1, "functions": [P.demangled[fname][:110]], "sample": "table[i] = [2i+1]P for i < %d" % entries}


def ob_wnaf_table_multiply(bits, field):
    P = prog()
    fname = P.find1(r"void " + B + r"wnaf_table_multiply<" + B + r"Projective<" + B + field + r">, %d, 4u>\(.*\)" % bits)
    fn = P.fn[fname]
    I = eir.Interp(P)
    I.external_globals_symbolic = True      # field-level code inlined into the loop is followed to its stores (the table is a read-only input)
    log = []
    install_group(I, log)
    gsz = fn.params[0].attrs["dereferenceable"]
    cut = loopcut.Cutter(I, fname)
    phis = loopcut.header_phis(cut.fn, cut.header)
    lay = P.layout(fn.module)
    iphi = [p for p in phis if lay.resolve(p.ty).bits in (32, 64)]
    bphi = [p for p in phis if lay.resolve(p.ty).bits in (1, 8)]
    # the index, and optionally a "found a non-zero digit yet" flag (a variant that always doubles has none: doubling the identity is harmless,
    # and the inductive step below then holds for every accumulator value)
    if len(iphi) != 1 or len(bphi) > 1 or len(phis) != 1 + len(bphi):
        raise Inconclusive("unexpected loop-carried registers in wnaf_table_multiply: %r" % [(p.res, p.ty) for p in phis])
    has_flag = len(bphi) == 1
    ibits = lay.resolve(iphi[0].ty).bits
    E = z3.Int("E")
    Iv = z3.BitVec("i", ibits)
    found = z3.Bool("found")
    W = z3.Array("wnaf", z3.BitVecSort(64), z3.BitVecSort(8))
    size = z3.BitVec("wnaf_size", 32)
    idx = z3.ZeroExt(64 - ibits, Iv) - 1 if ibits < 64 else Iv - 1
    d8 = z3.Select(W, idx)
    dI = bv2int_signed8(d8)
    valid = z3.Or(d8 == 0, z3.And(z3.Extract(0, 0, d8) == 1, dI >= -15, dI <= 15))
    I.assumptions = [z3.UGE(Iv, 1), z3.ULE(Iv, bits + 1), z3.Implies(z3.Not(found), E == 0), valid, z3.ULE(size, bits + 1)]
    state = {}

    def on_entry(regs):
        state["entry"] = (regs[iphi[0].res], regs[bphi[0].res] if has_flag else 0, I.g_rd(Ptr(state["res"], 0), gsz))

    def havoc(regs):
        regs[iphi[0].res] = Iv
        if has_flag:
            regs[bphi[0].res] = z3.If(found, z3.BitVecVal(1, 8), z3.BitVecVal(0, 8)) if lay.resolve(bphi[0].ty).bits == 8 else found
        I.g_wr(Ptr(state["res"], 0), gsz, E)
    cut.on_entry, cut.havoc = on_entry, havoc

    def once():
        cut.reset()
        state.clear()
        res = Obj("result", gsz, "arg", 16)
        tab = Obj("table", 8 * gsz, "arg", 16, True)
        for k in range(8):
            tab.cells[gsz * k] = (gsz, Mul(2 * k + 1))
        tab.odd_table = (0, gsz, 8, 1)
        sc = Obj("wnafscalar", ((bits + 1 + 3) // 4) * 4 + 4, "arg", 4, True)
        sc.sym_array = W
        sc.cells[((bits + 1 + 3) // 4) * 4] = (4, size)
        state["res"] = res
        try:
            I.call_named(fname, [Ptr(res, 0), Ptr(tab, 0), Ptr(sc, 0)])
            return "exit", None
        except eir.LoopCut as lc:
            return "cut", lc.regs
    nq = 0
    npaths = 0
    kinds = set()
    for path, (kind, regs) in I.explore(once, 512):
        npaths += 1
        if "entry" not in state:
            # wnaf_size == 0: returns the identity without entering the loop
            e = I.g_rd(Ptr(state["res"], 0), gsz)
            nq += check_vcs(list(I.assumptions) + list(path.pc), [("empty", z3.And(size == 0, as_int(e) == 0), "empty digit string does not give the identity")],
                            "wnaf_table_multiply<%d>" % bits, "wnaf_table_multiply<%d>" % bits, {})
            continue
        kinds.add(kind)
        ei, ef, ee = state["entry"]
        pc = list(I.assumptions) + list(path.pc)
        En = as_int(I.g_rd(Ptr(state["res"], 0), gsz))
        vcs = [("entry", z3.And(eir.as_bv(ei, ibits) == (z3.SignExt(ibits - 32, size) if ibits > 32 else size), eir.as_bv(ef, 8) == 0, as_int(ee) == 0),
                "the loop is entered with (index, found, acc) other than (wnaf_size, false, identity)"),
               ("accumulate", En == 2 * E + dI, "one iteration does not give E' = 2E + digit")]
        if kind == "cut":
            ni = regs[iphi[0].res]
            vcs += [("index", eir.as_bv(ni, ibits) == Iv - 1, "index not decremented"), ("continues", Iv != 1, "loop continues past index 0")]
            if has_flag:
                nf = regs[bphi[0].res]
                nfb = eir.as_bv(nf, 8) != 0 if not isinstance(nf, z3.BoolRef) else nf
                vcs += [("flag", nfb == z3.Or(found, d8 != 0), "found flag wrong"), ("invariant", z3.Implies(z3.Not(nfb), En == 0), "invariant not preserved")]
        else:
            vcs.append(("exit", Iv == 1, "loop left before index 0"))
        nq += check_vcs(pc, vcs, "wnaf_table_multiply<%d>" % bits, "wnaf_table_multiply<%s,%d>" % (field, bits), {"i": Iv, "digit": d8, "found": found})
    if kinds != {"cut", "exit"}:
        raise Inconclusive("loop cut saw only %r" % kinds)
    return {"queries": nq, "paths": npaths, "functions": [P.demangled[fname][:120]], "sample": "one inductive step: %d paths over (found, digit sign, table entry, last index)" % npaths}


def ob_doubleadd(field):
    P = prog()
    fname = P.find1(r"void " + B + r"Projective<" + B + field + r">::multiply_doubleadd_restrict<" + B + r"Affine<.*>, " + CORE + r"BigInt<256> >\(.*\)")
    fn = P.fn[fname]
    I = eir.Interp(P)
    install_group(I, [])
    gsz = fn.params[0].attrs["dereferenceable"]
    asz = fn.params[1].attrs["dereferenceable"]
    cut = loopcut.Cutter(I, fname)
    phis = loopcut.header_phis(cut.fn, cut.header)
    lay = P.layout(fn.module)
    if len(phis) != 1:
        raise Inconclusive("unexpected loop-carried registers in multiply_doubleadd_restrict: %r" % [(p.res, p.ty) for p in phis])
    ibits = lay.resolve(phis[0].ty).bits
    E = z3.Int("E")
    Iv = z3.BitVec("i", ibits)
    hb = z3.BitVec("highest_bit", 32)
    bit = z3.Bool("bit")
    I.assumptions = [z3.ULE(Iv, 255), z3.ULE(hb, 255)]
    state = {}

    def h_bit(I_, name, args, site):
        state.setdefault("pos", []).append(args[1])
        if args[0].obj is not state["scalar"]:
            raise Violation("doubleadd:bit-source", "multiply_doubleadd_restrict reads a bit of something other than the scalar", {})
        return bit
    I.add_intercept(CORE + r"BigInt<256>::bit\(int\) const", h_bit, "BigInt<256>::bit")

    def on_entry(regs):
        state["entry"] = (regs[phis[0].res], I.g_rd(Ptr(state["res"], 0), gsz))

    def havoc(regs):
        regs[phis[0].res] = Iv
        I.g_wr(Ptr(state["res"], 0), gsz, E)
    cut.on_entry, cut.havoc = on_entry, havoc

    def once():
        cut.reset()
        state.clear()
        res = Obj("result", gsz, "arg", 16)
        base = Obj("base", asz, "arg", 16, True)
        base.cells[0] = (asz - 15, Mul(1))
        sc = Obj("scalar", 32, "arg", 16, True)
        state["res"], state["scalar"] = res, sc
        try:
            I.call_named(fname, [Ptr(res, 0), Ptr(base, 0), Ptr(sc, 0), hb])
            return "exit", None
        except eir.LoopCut as lc:
            return "cut", lc.regs
    nq = npaths = 0
    kinds = set()
    for path, (kind, regs) in I.explore(once, 64):
        npaths += 1
        kinds.add(kind)
        if "entry" not in state:
            # highest_bit is in [0, 255]: the loop body must run at least once (for bit highest_bit)
            raise Violation("doubleadd:%s:entry" % field, "multiply_doubleadd_restrict<%s> returns without entering its loop for some highest_bit in [0, 255] "
                            "(the bit at highest_bit is never examined)" % field, {})
        ei, ee = state["entry"]
        En = as_int(I.g_rd(Ptr(state["res"], 0), gsz))
        vcs = [("entry", z3.And(eir.as_bv(ei, ibits) == (z3.SignExt(ibits - 32, hb) if ibits > 32 else hb), as_int(ee) == 0), "loop entered with (index, acc) other than (highest_bit, identity)"),
               ("accumulate", En == 2 * E + z3.If(bit, 1, 0), "one iteration does not give E' = 2E + bit"),
               ("bit-position", z3.And(*[eir.as_bv(p_, 32) == (z3.Extract(31, 0, Iv) if ibits > 32 else Iv) for p_ in state.get("pos", [])] + [z3.BoolVal(len(state.get("pos", [])) == 1)]),
                "the scalar bit tested is not the one at the loop index")]
        if kind == "cut":
            vcs += [("index", eir.as_bv(regs[phis[0].res], ibits) == Iv - 1, "index not decremented"), ("continues", Iv != 0, "loop continues past index 0")]
        else:
            vcs.append(("exit", Iv == 0, "loop left before index 0"))
        nq += check_vcs(list(I.assumptions) + list(path.pc), vcs, "doubleadd:%s" % field, "multiply_doubleadd_restrict<%s>" % field, {"i": Iv, "bit": bit})
    if kinds != {"cut", "exit"}:
        raise Inconclusive("loop cut saw only %r" % kinds)
    return {"queries": nq, "paths": npaths, "functions": [P.demangled[fname][:120]], "sample": "one inductive step, %d paths" % npaths}


# ---------------------------------------------------------------------------------------------------------------
def wnaf_stub(I, arrays, sizes, maxbits, index_term=None, dmax=15, first_case=None):
    """from_bigint is replaced by 'the digit string is some valid w-NAF string' (its exactness is the recoding obligation of this check)"""
    def h(I_, name, args, site):
        k = len(arrays)
        W = z3.Array("wnaf%d" % k, z3.BitVecSort(64), z3.BitVecSort(8))
        sz = z3.BitVec("size%d" % k, 32)
        o = args[0].obj
        if not is_conc(args[0].off):
            raise ExecError("unsupported", "from_bigint target at symbolic offset")
        arrays.append((o, args[0].off, W, sz, args[1]))
        sizes.append(sz)
        # one array-backed region per WnafScalar object: element objects of an alloca array share the alloca, so the array is indexed by absolute offset
        if getattr(o, "sym_array", None) is None:
            o.sym_array = z3.Array("mem_%s" % k, z3.BitVecSort(64), z3.BitVecSort(8))
        base = args[0].off
        d = I_.prog.demangled[name]
        bits = int(d.split("WnafScalar<")[1].split(",")[0])
        szoff = ((bits + 1 + 3) // 4) * 4
        I_.store_cell(o, base + szoff, 4, sz)
        I_.assumptions.append(z3.ULE(sz, bits + 1))
        if index_term is not None:
            # the digit at the loop index is a valid w-NAF digit (contract of from_bigint: recoding obligations of this check)
            d = z3.Select(o.sym_array, z3.BitVecVal(base, 64) + index_term)
            dI = bv2int_signed8(d)
            I_.assumptions.append(z3.Or(d == 0, z3.And(z3.Extract(0, 0, d) == 1, dI >= -dmax, dI <= dmax)))
            if first_case is not None and k == 0:
                # case split on the first digit string (the four cases are exhaustive), only to spread the paths over several obligations
                inr = z3.Extract(31, 0, index_term) < sz
                I_.assumptions.append({"out": z3.Not(inr), "zero": z3.And(inr, d == 0), "pos": z3.And(inr, dI > 0), "neg": z3.And(inr, dI < 0)}[first_case])
    I.add_intercept(B + r"WnafScalar<\d+, \du>::from_bigint\(.*\)", h, "from_bigint")


def ob_endomorphism_loop(alias=False):
    """alias: the output object is the base object (p.multiply_endomorphism(p, ...))"""
    P = prog()
    fname = P.find1(B + r"G1::multiply_endomorphism\(" + B + r"G1 const&, " + CORE + r"BigInt<256> const&, bool, " + CORE + r"BigInt<256> const&, bool\)")
    fn = P.fn[fname]
    I = eir.Interp(P)
    install_group(I, [])
    arrays, sizes = [], []
    header = loopcut.find_header(fn, "multiply2")
    cut = loopcut.Cutter(I, fname, header=header)
    phis = loopcut.header_phis(cut.fn, cut.header)
    lay = P.layout(fn.module)
    iphi = [p for p in phis if lay.resolve(p.ty).bits in (32, 64)]
    bphi = [p for p in phis if lay.resolve(p.ty).bits in (1, 8)]
    if len(iphi) != 1 or len(bphi) > 1 or len(phis) != 1 + len(bphi):
        raise Inconclusive("unexpected loop-carried registers in multiply_endomorphism: %r" % [(p.res, p.ty) for p in phis])
    has_flag = len(bphi) == 1          # a variant without the found flag always doubles (harmless on the identity)
    ibits = lay.resolve(iphi[0].ty).bits
    E = z3.Int("E")
    Iv = z3.BitVec("i", ibits)
    # the loop-carried integer is either the index i itself or the count i+1 (rotated loop): read off from the IR - the header phi is
    # decremented before its first use in the count form
    hdr = cut.fn.blocks[cut.header]
    first_use = [ins for ins in hdr if ins.op != "phi"][0]
    count_form = (first_use.op == "add" and any(getattr(a, "name", None) == iphi[0].res for a in first_use.args))
    off = 1 if count_form else 0
    Ix = Iv - off                                     # the index examined in this iteration
    wnaf_stub(I, arrays, sizes, 256, z3.SignExt(64 - ibits, Ix) if ibits < 64 else Ix, 15)
    found = z3.Bool("found")
    n0, n1 = z3.Bool("c0_neg"), z3.Bool("c1_neg")
    base_assumptions = [z3.Implies(z3.Not(found), E == 0), z3.ULE(Ix, 256), z3.UGE(Iv, off)]
    state = {}

    def on_entry(regs):
        state["entry"] = (regs[iphi[0].res], regs[bphi[0].res] if has_flag else 0, I.g_rd(Ptr(state["res"], 0), 144))
        # the table must be complete here
        state["table"] = None
        for v in regs.values():
            if isinstance(v, Ptr) and v.obj is not None and v.obj.kind == "alloca" and v.obj.size == 8 * 144:
                state["table"] = [I.g_rd(Ptr(v.obj, 144 * k), 144) for k in range(8)]
                v.obj.const = True
                if state["table"] == [1, 3, 5, 7, 9, 11, 13, 15]:
                    v.obj.odd_table = (0, 144, 8, 1)

    def havoc(regs):
        regs[iphi[0].res] = Iv
        if has_flag:
            regs[bphi[0].res] = z3.If(found, z3.BitVecVal(1, 8), z3.BitVecVal(0, 8)) if lay.resolve(bphi[0].ty).bits == 8 else found
        I.g_wr(Ptr(state["res"], 0), 144, E)
    cut.on_entry, cut.havoc = on_entry, havoc

    def once():
        cut.reset()
        state.clear()
        del arrays[:]
        del sizes[:]
        I.assumptions = list(base_assumptions)
        res = Obj("result", 144, "arg", 16)
        a = res if alias else Obj("a", 144, "arg", 16, True)
        a.cells[0] = (144, Mul(1))
        c0 = Obj("c0", 32, "arg", 16, True)
        c1 = Obj("c1", 32, "arg", 16, True)
        state["res"] = res
        try:
            I.call_named(fname, [Ptr(res, 0), Ptr(a, 0), Ptr(c0, 0), n0, Ptr(c1, 0), n1])
            return "exit", None
        except eir.LoopCut as lc:
            return "cut", lc.regs
    nq = npaths = 0
    kinds = set()
    for path, (kind, regs) in I.explore(once, 4096):
        npaths += 1
        if "entry" not in state:
            # both digit strings empty: the identity is returned without entering the loop
            e = I.g_rd(Ptr(state["res"], 0), 144)
            nq += check_vcs(list(I.assumptions) + list(path.pc), [("empty", z3.And(sizes[0] == 0, sizes[1] == 0, as_int(e) == 0), "loop skipped although a digit string is non-empty")],
                            "endomorphism-loop", "G1::multiply_endomorphism", {})
            continue
        if len(arrays) != 2:
            raise Violation("endomorphism:recoding", "multiply_endomorphism recodes %d scalars, expected c0 and c1" % len(arrays), {})
        kinds.add(kind)
        if state["table"] != [1, 3, 5, 7, 9, 11, 13, 15]:
            raise Violation("endomorphism:table", "table at loop entry is %r, expected the odd multiples of the base" % (state["table"],), {})
        (o0, off0, _, s0, src0), (o1, off1, _, s1, src1) = arrays
        mem = o0.sym_array
        idx = z3.SignExt(64 - ibits, Ix) if ibits < 64 else Ix
        d0 = z3.Select(mem, z3.BitVecVal(off0, 64) + idx)
        d1 = z3.Select(o1.sym_array, z3.BitVecVal(off1, 64) + idx)
        dI0, dI1 = bv2int_signed8(d0), bv2int_signed8(d1)
        valid = lambda d8, dI: z3.Or(d8 == 0, z3.And(z3.Extract(0, 0, d8) == 1, dI >= -15, dI <= 15))
        larger = z3.If(z3.ULT(s0, s1), s1, s0)
        pc = list(I.assumptions) + list(path.pc) + [valid(d0, dI0), valid(d1, dI1), z3.ULT(z3.Extract(31, 0, Ix) if ibits > 32 else Ix, larger)]
        in0 = z3.ULT(z3.Extract(31, 0, idx), s0)
        in1 = z3.ULT(z3.Extract(31, 0, idx), s1)
        contrib = z3.If(in0, z3.If(n0, -dI0, dI0), 0) + z3.If(in1, z3.If(n1, -dI1, dI1), 0) * LAMBDA
        En = as_int(I.g_rd(Ptr(state["res"], 0), 144))
        ei, ef, ee = state["entry"]
        vcs = [("entry", z3.And(eir.as_bv(ei, ibits) == (z3.SignExt(ibits - 32, larger - 1 + off) if ibits > 32 else larger - 1 + off), eir.as_bv(ef, 8) == 0 if not isinstance(ef, z3.BoolRef) else z3.Not(ef), as_int(ee) == 0),
                "loop entered with (index, found, acc) other than (max(size0,size1) - 1, false, identity)"),
               ("accumulate", (En - (2 * E + contrib)) % R_ORDER == 0, "one iteration does not give E' = 2E +- d0 +- lambda*d1"),
               ("sources", z3.BoolVal(src0.obj.name == "c0" and src1.obj.name == "c1"), "the recoded scalars are not (c0, c1) in this order")]
        if kind == "cut":
            ni = regs[iphi[0].res]
            vcs += [("index", eir.as_bv(ni, ibits) == Iv - 1, "index not decremented"), ("continues", Ix != 0, "loop continues past index 0")]
            if has_flag:
                nf = regs[bphi[0].res]
                nfb = eir.as_bv(nf, 8) != 0 if not isinstance(nf, z3.BoolRef) else nf
                vcs += [("flag", nfb == z3.Or(found, z3.And(in0, d0 != 0), z3.And(in1, d1 != 0)), "found flag wrong"),
                        ("invariant", z3.Implies(z3.Not(nfb), En == 0), "invariant not preserved")]
        else:
            vcs.append(("exit", Ix == 0, "loop left before index 0"))
        nq += check_vcs(pc, vcs, "endomorphism-loop", "G1::multiply_endomorphism", {"i": Ix, "d0": d0, "d1": d1, "c0_neg": n0, "c1_neg": n1})
    if kinds != {"cut", "exit"}:
        raise Inconclusive("loop cut saw only %r" % kinds)
    return {"queries": nq, "paths": npaths, "functions": [P.demangled[fname][:120]], "sample": "one inductive step: %d paths over signs, digit signs, table entries" % npaths}


def ob_frobenius_loop(first_case=None, alias=False):
    P = prog()
    fname = P.find1(B + r"G2::multiply_frobenius\(" + B + r"G2 const&, " + B + r"PowersOfX const&\)")
    fn = P.fn[fname]
    I = eir.Interp(P)
    install_group(I, [])
    arrays, sizes = [], []
    header = loopcut.find_header(fn, "multiply2")
    cut = loopcut.Cutter(I, fname, header=header)
    phis = loopcut.header_phis(cut.fn, cut.header)
    lay = P.layout(fn.module)
    iphi = [p for p in phis if lay.resolve(p.ty).bits in (32, 64)]
    bphi = [p for p in phis if lay.resolve(p.ty).bits in (1, 8)]
    if len(iphi) != 1 or len(bphi) > 1 or len(phis) != 1 + len(bphi):
        raise Inconclusive("unexpected loop-carried registers in multiply_frobenius: %r" % [(p.res, p.ty) for p in phis])
    has_flag = len(bphi) == 1          # a variant without the found flag always doubles (harmless on the identity)
    ibits = lay.resolve(iphi[0].ty).bits
    E = z3.Int("E")
    Iv = z3.BitVec("i", ibits)
    wnaf_stub(I, arrays, sizes, 64, z3.SignExt(64 - ibits, Iv) if ibits < 64 else Iv, 3, first_case)
    found = z3.Bool("found")
    base_assumptions = [z3.Implies(z3.Not(found), E == 0), z3.ULE(Iv, 64)]
    state = {}

    def on_entry(regs):
        state["entry"] = (regs[iphi[0].res], regs[bphi[0].res] if has_flag else 0, I.g_rd(Ptr(state["res"], 0), 288))
        state["tables"] = None
        for v in regs.values():
            if isinstance(v, Ptr) and v.obj is not None and v.obj.kind == "alloca" and v.obj.size == 4 * 2 * 288:
                state["tables"] = [[I.g_rd(Ptr(v.obj, 288 * (2 * j + k)), 288) for k in range(2)] for j in range(4)]
                v.obj.const = True
                if all(state["tables"][j][1] % R_ORDER == 3 * state["tables"][j][0] % R_ORDER for j in range(4)):
                    v.obj.odd_table = [(576 * j, 288, 2, state["tables"][j][0]) for j in range(4)]

    def havoc(regs):
        regs[iphi[0].res] = Iv
        if has_flag:
            regs[bphi[0].res] = z3.If(found, z3.BitVecVal(1, 8), z3.BitVecVal(0, 8)) if lay.resolve(bphi[0].ty).bits == 8 else found
        I.g_wr(Ptr(state["res"], 0), 288, E)
    cut.on_entry, cut.havoc = on_entry, havoc

    def once():
        cut.reset()
        state.clear()
        del arrays[:]
        del sizes[:]
        I.assumptions = list(base_assumptions)
        res = Obj("result", 288, "arg", 16)
        a = res if alias else Obj("a", 288, "arg", 16, True)
        a.cells[0] = (288, Mul(1))
        sc = Obj("scalar", 64, "arg", 16, True)
        state["res"] = res
        try:
            I.call_named(fname, [Ptr(res, 0), Ptr(a, 0), Ptr(sc, 0)])
            return "exit", None
        except eir.LoopCut as lc:
            return "cut", lc.regs
    nq = npaths = 0
    kinds = set()
    for path, (kind, regs) in I.explore(once, 1 << 14):
        npaths += 1
        if "entry" not in state:
            # the base is [1]P (not the identity) and the four digit strings are arbitrary: the 65-step loop cannot be skipped
            try:
                got = I.g_rd(Ptr(state["res"], 0), 288)
            except ExecError:
                got = "unwritten"
            raise Violation("frobenius-loop:skipped", "G2::multiply_frobenius returns without running its loop for a base that is not the identity%s (result: %s)"
                            % (" when the result object is the base object" if alias else "", got if isinstance(got, str) else "[%s]P" % got), {"alias": alias})
        kinds.add(kind)
        if len(arrays) != 4 or [a_[4].off for a_ in arrays] != [0, 16, 32, 48] or any(a_[4].obj.name != "scalar" for a_ in arrays):
            raise Violation("frobenius:recoding", "multiply_frobenius does not recode the four digits of the scalar in order", {})
        want_tables = [[pow(X, j, R_ORDER) * (2 * k + 1) % R_ORDER for k in range(2)] for j in range(4)]
        got_tables = [[t % R_ORDER for t in row] for row in state["tables"]] if state["tables"] else None
        if got_tables != want_tables:
            raise Violation("frobenius:tables", "the four tables at loop entry are not the odd multiples of [|x|^j]P", {"got": str(got_tables)[:200]})
        idx = z3.SignExt(64 - ibits, Iv) if ibits < 64 else Iv
        pc = list(I.assumptions) + list(path.pc)
        contrib = z3.IntVal(0)
        any_nz = []
        terms = {"i": Iv}
        for j, (o, off, _, sz, src) in enumerate(arrays):
            d = z3.Select(o.sym_array, z3.BitVecVal(off, 64) + idx)
            dI = bv2int_signed8(d)
            pc.append(z3.Or(d == 0, z3.And(z3.Extract(0, 0, d) == 1, dI >= -3, dI <= 3)))
            inj = z3.Extract(31, 0, idx) < sz          # signed comparison, as in the source (int i < int wnaf_size)
            contrib = contrib + z3.If(inj, dI, 0) * pow(X, j, R_ORDER)
            any_nz.append(z3.And(inj, d != 0))
            terms["d%d" % j] = d
        En = as_int(I.g_rd(Ptr(state["res"], 0), 288))
        ei, ef, ee = state["entry"]
        vcs = [("entry", z3.And(eir.as_bv(ei, ibits) == 64, eir.as_bv(ef, 8) == 0 if not isinstance(ef, z3.BoolRef) else z3.Not(ef), as_int(ee) == 0),
                "loop entered with (index, found, acc) other than (64, false, identity)"),
               ("accumulate", (En - (2 * E + contrib)) % R_ORDER == 0, "one iteration does not give E' = 2E + sum_j d_j |x|^j")]
        if kind == "cut":
            ni = regs[iphi[0].res]
            vcs += [("index", eir.as_bv(ni, ibits) == Iv - 1, "index not decremented"), ("continues", Iv != 0, "loop continues past index 0")]
            if has_flag:
                nf = regs[bphi[0].res]
                nfb = eir.as_bv(nf, 8) != 0 if not isinstance(nf, z3.BoolRef) else nf
                vcs += [("flag", nfb == z3.Or(found, *any_nz), "found flag wrong"), ("invariant", z3.Implies(z3.Not(nfb), En == 0), "invariant not preserved")]
        else:
            vcs.append(("exit", Iv == 0, "loop left before index 0"))
        nq += check_vcs(pc, vcs, "frobenius-loop", "G2::multiply_frobenius", terms)
    if kinds != {"cut", "exit"}:
        raise Inconclusive("loop cut saw only %r" % kinds)
    return {"queries": nq, "paths": npaths, "functions": [P.demangled[fname][:120]], "sample": "one inductive step (first digit string: %s): %d paths" % (first_case or "any", npaths)}


# ---------------------------------------------------------------------------------------------------------------
def install_lin_bigint(I, L, bits):
    """BigInt<bits>::compare / add / subtract / shift_left_in_word<1> on affine words by their integer specifications (C02): whole-value
    comparison (one branch instead of one per word), results as fresh words constrained by their integer value"""
    nw = bits // 64
    BI = CORE + r"BigInt<%d>::" % bits

    def val(p):
        t = L.const(0)
        for i in range(nw):
            t = L.add(t, L.scale(I.lv(I.load_bytes(p.obj, p.off + 8 * i, 8)), 1 << (64 * i)))
        return t

    def put(p, form, tag):
        ws = [L.var("%s%d_%d" % (tag, len(L.names), i), 64) for i in range(nw)]
        tot = L.const(0)
        for i, w in enumerate(ws):
            tot = L.add(tot, L.scale(w, 1 << (64 * i)))
        L.solver.add(L.z(tot) == L.z(form))
        for i, w in enumerate(ws):
            I.store_cell(p.obj, p.off + 8 * i, 8, w)

    def h_cmp(I_, name, args, site):
        za, zb = L.z(val(args[0])), L.z(val(args[1]))
        if I_.branch(eir_lin.LinCond(za < zb)):
            return 0xffffffff
        return 0 if I_.branch(eir_lin.LinCond(za == zb)) else 1

    def h_sub(I_, name, args, site):
        a, b = val(args[1]), val(args[2])
        borrow = I_.branch(eir_lin.LinCond(L.z(a) < L.z(b)))
        put(args[0], L.add(L.sub(a, b), L.const((1 << bits) if borrow else 0)), "d")
        return int(borrow)

    def h_add(I_, name, args, site):
        a, b = val(args[1]), val(args[2])
        carry = I_.branch(eir_lin.LinCond(L.z(a) + L.z(b) >= (1 << bits)))
        put(args[0], L.sub(L.add(a, b), L.const((1 << bits) if carry else 0)), "s")
        return int(carry)

    def h_shl1(I_, name, args, site):
        a = val(args[1])
        carry = I_.branch(eir_lin.LinCond(2 * L.z(a) >= (1 << bits)))
        put(args[0], L.sub(L.scale(a, 2), L.const((1 << bits) if carry else 0)), "t")
        return int(carry)
    I.add_intercept(BI + r"compare\(.*\)", h_cmp, "BigInt::compare")
    I.add_intercept(BI + r"subtract\(.*\)", h_sub, "BigInt::subtract")
    I.add_intercept(BI + r"add\(.*\)", h_add, "BigInt::add")
    I.add_intercept(r".*" + BI + r"shift_left_in_word<\(unsigned char\)1>\(.*\)", h_shl1, "BigInt::shift_left_in_word<1>")


def glv_concrete_probe(P, fname):
    import random
    rng = random.Random(int(os.environ.get("VERIF_SEED", "0")) + 11)
    cands = [1, 2, R_ORDER - 1, R_ORDER, R_ORDER + 1, (1 << 256) - 1, 1 << 255, LAMBDA, (1 << 128) - 1, 1 << 128] + [rng.getrandbits(256) for _ in range(12)]
    for k in cands:
        I = eir.Interp(P)
        got = {}

        def h_inner(I_, name, args, site, got=got):
            rdv = lambda p: I_.load_bytes(p.obj, p.off, 32)
            got.update(c0=rdv(args[2]), n0=args[3], c1=rdv(args[4]), n1=args[5])
        I.add_intercept(B + r"G1::multiply_endomorphism\(" + B + r"G1 const&, " + CORE + r"BigInt<256> const&, bool, " + CORE + r"BigInt<256> const&, bool\)", h_inner, "inner")
        res = Obj("result", 144, "arg", 16)
        a = Obj("a", 144, "arg", 16, True)
        ko = Obj("scalar", 32, "arg", 16, True)
        for i in range(4):
            ko.cells[8 * i] = (8, (k >> (64 * i)) & ((1 << 64) - 1))
        try:
            I.call_named(fname, [Ptr(res, 0), Ptr(a, 0), Ptr(ko, 0)])
        except ExecError:
            return None
        if not got or not all(is_conc(got[x]) for x in ("c0", "c1", "n0", "n1")):
            return None
        v = (-1 if got["n0"] else 1) * got["c0"] + (-1 if got["n1"] else 1) * got["c1"] * LAMBDA
        if (v - k) % R_ORDER != 0:
            return k
    return None


def ob_glv():
    """decompose_lambda through G1::multiply_endomorphism(a, scalar): for every 256-bit scalar the five-argument routine is called with
    (c0, c0_neg, c1, c1_neg) such that +-c0 +- lambda c1 = scalar (mod r)"""
    # portable configuration: the 768-bit product of the division by r runs as C++ (C03: same function as the assembly)
    P = build.load_program("P64", files=["src/bls12_381/curve_fast_multiply.cpp", "src/bls12_381/fr.cpp"], tag="c06_glv")
    fname = P.find1(B + r"G1::multiply_endomorphism\(" + B + r"G1 const&, " + CORE + r"BigInt<256> const&\)")
    L = LinCtx(120000)
    I = eir_lin.LinInterp(P, L)
    I.lazy_feasibility = 1000
    I.hard_feasibility = True
    install_lin_bigint(I, L, 256)
    ks = [L.var("k%d" % i, 64) for i in range(4)]
    K = L.const(0)
    for i, w in enumerate(ks):
        K = L.add(K, L.scale(w, 1 << (64 * i)))
    got = {}

    def h_inner(I_, name, args, site):
        def val(p):
            t = L.const(0)
            for i in range(4):
                t = L.add(t, L.scale(I_.lv(I_.load_bytes(p.obj, p.off + 8 * i, 8)), 1 << (64 * i)))
            return t
        got["c0"], got["n0"], got["c1"], got["n1"], got["base"] = val(args[2]), args[3], val(args[4]), args[5], args[1]
    I.add_intercept(B + r"G1::multiply_endomorphism\(" + B + r"G1 const&, " + CORE + r"BigInt<256> const&, bool, " + CORE + r"BigInt<256> const&, bool\)", h_inner, "multiply_endomorphism/5")

    def once():
        got.clear()
        res = Obj("result", 144, "arg", 16)
        a = Obj("a", 144, "arg", 16, True)
        ko = Obj("scalar", 32, "arg", 16, True)
        for i in range(4):
            ko.cells[8 * i] = (8, ks[i])
        I.call_named(fname, [Ptr(res, 0), Ptr(a, 0), Ptr(ko, 0)])
        return dict(got), a
    n = 0
    for path, (g, a) in I.explore(once, 4096):
        n += 1
        if "c0" not in g:
            raise Violation("glv:no-call", "multiply_endomorphism(a, scalar) does not reach the five-argument routine", {})
        if g["base"].obj is not a:
            raise Violation("glv:base", "the five-argument routine is called with another base point", {})

        def sgn(f):
            if is_conc(f):
                return -1 if f else 1
            if isinstance(f, eir_lin.LinCond):
                return z3.If(f.z, -1, 1)
            if isinstance(f, LV):
                return z3.If(L.z(f) != 0, -1, 1)
            return z3.If(eir.as_bool(f), -1, 1)
        z0, z1, zK = L.z(g["c0"]), L.z(g["c1"]), L.z(K)
        pc = list(I.lin_pc)
        goal = z3.And((sgn(g["n0"]) * z0 + sgn(g["n1"]) * z1 * LAMBDA - zK) % R_ORDER == 0, z0 >= 0, z0 < (1 << 256), z1 >= 0, z1 < (1 << 256))
        vc = z3.Implies(z3.And(*pc) if pc else z3.BoolVal(True), goal)
        ok = L.prove_portfolio(vc, "glv", 90)
        if ok is None:
            # lazy feasibility lets paths through whose condition the solver could not refute in its short budget (more of them on a loaded
            # machine); decide the path condition before spending more on the identity
            feas = L.prove_portfolio(z3.Not(z3.And(*pc)) if pc else z3.BoolVal(False), "glv path feasibility", 90)
            if feas is True:
                continue
            ok = L.prove_portfolio(vc, "glv (retry)", 90, seeds=(101, 202, 303, 404))
        if ok is None:
            # undecided: look for a concrete counterexample by running the same IR on boundary scalars in concrete mode (a failure found
            # this way is replayed natively like a solver model); without one the obligation stays inconclusive
            bad = glv_concrete_probe(P, fname)
            if bad is not None:
                raise Violation("glv:identity", "decompose_lambda: +-c0 +- lambda*c1 is not congruent to the scalar modulo r (found by concrete execution of the IR "
                                "after the solver returned unknown)", {"scalar": hex(bad)})
            raise Inconclusive("solver unknown on the GLV identity (path %d)" % n)
        if not ok:
            env = L.model_for(z3.Not(vc)) or {}
            kv = sum(env.get("k%d" % i, 0) << (64 * i) for i in range(4))
            raise Violation("glv:identity", "decompose_lambda: +-c0 +- lambda*c1 is not congruent to the scalar modulo r", {"scalar": hex(kv)})
    if (LAMBDA * LAMBDA + LAMBDA + 1) % R_ORDER != 0:
        raise Violation("glv:lambda", "lambda^2 + lambda + 1 != 0 (mod r)", {})
    return {"queries": L.queries, "solver_s": L.solver_time, "paths": n, "functions": [P.demangled[fname][:110], "decompose_lambda"],
            "sample": "%d paths (k < r / k >= r, rounding and sign cases); products by constants linear, division by r via the reciprocal constant" % n}


def ob_compose(alias=False):
    """the wrappers around the proved pieces: wnaf_multiply = fill_table(a); from_bigint(power); wnaf_table_multiply(result, table, digits) with the table
    and the digit string in locals, completed before the result is written; multiply_wnaf forwards its operands to wnaf_multiply;
    multiply_doubleadd runs multiply_doubleadd_restrict on a private copy of the base.  alias: the result object is the base object (where the
    types allow it) - the order 'table first, result last' and the private copy are what make that safe."""
    P = prog()
    fns = []
    n = 0

    def run(fname, nargs_extra=()):
        f = P.fn[fname]
        I = eir.Interp(P)
        calls = []

        def rec(I_, name, args, site):
            d = I_.prog.demangled.get(name, name)
            if d.startswith("llvm."):
                return None
            snap = None
            if "multiply_doubleadd_restrict" in d and isinstance(args[1], Ptr):
                c = args[1].obj.cells.get(args[1].off)
                snap = c[1] if c else None
            calls.append((d, list(args), snap))
        I.add_intercept(r"(?!llvm\.|memcpy|memmove|memset).*", rec, "callee")
        sz0 = f.params[0].attrs.get("dereferenceable", 288)
        sz1 = f.params[1].attrs.get("dereferenceable", 288)
        out = Obj("result", sz0, "arg", 16)
        same_type = repr(f.params[0].ty) == repr(f.params[1].ty)
        if alias and not same_type:
            return None
        base = out if alias else Obj("base", (sz1 + 15) // 16 * 16, "arg", 16, True)     # affine points: dereferenceable(97/193), sizeof 112/208
        base.cells[0] = (sz1 - (15 if sz1 in (112, 208) else 0), Mul(1))
        sc = Obj("scalar", 64, "arg", 16, True)
        args = [Ptr(out, 0), Ptr(base, 0), Ptr(sc, 0)] + list(nargs_extra)
        I.call_function(f, args)
        return calls, args

    def same(x, y):
        return isinstance(x, Ptr) and isinstance(y, Ptr) and x.obj is y.obj and x.off == y.off
    for fname in sorted(P.fn):
        d = P.demangled.get(fname, fname)
        f = P.fn[fname]
        if f.is_decl:
            continue
        if re.match(r"void " + re.escape(B) + r"wnaf_multiply<.*>\(.*BigInt<\d+> const&\)", d):
            r = run(fname)
            if r is None:
                continue
            calls, args = r
            n += 1
            fns.append(d[:100])
            names = [c[0] for c in calls]
            ok = len(calls) == 3 and "::fill_table<" in names[0] + names[1] and "::from_bigint(" in names[0] + names[1] and "wnaf_table_multiply<" in names[2]
            if ok:
                ft = calls[0] if "::fill_table<" in names[0] else calls[1]
                fb = calls[1] if ft is calls[0] else calls[0]
                tm = calls[2]
                ok = (same(ft[1][1], args[1]) and same(fb[1][1], args[2]) and same(tm[1][0], args[0]) and same(tm[1][1], ft[1][0]) and same(tm[1][2], fb[1][0])
                      and ft[1][0].obj.kind == "alloca" and fb[1][0].obj.kind == "alloca" and ft[1][0].obj is not fb[1][0].obj)
            if not ok:
                raise Violation("compose:wnaf_multiply", "%s is not fill_table(base); from_bigint(scalar); wnaf_table_multiply(result, table, digits) on local table/digits: %r"
                                % (d[:90], [c[:60] for c in names]), {"alias": alias})
        elif re.match(r"void " + re.escape(B) + r"Projective<.*>::multiply_wnaf<.*, " + re.escape(CORE) + r"BigInt<\d+>, 4u>\(.*\)", d):
            r = run(fname)
            if r is None:
                continue
            calls, args = r
            n += 1
            fns.append(d[:100])
            ok = len(calls) == 1 and "wnaf_multiply<" in calls[0][0] and all(same(x, y) for x, y in zip(calls[0][1], args))
            if not ok:
                raise Violation("compose:multiply_wnaf", "%s does not forward (this, base, scalar) to wnaf_multiply: %r" % (d[:90], [c[0][:60] for c in calls]), {"alias": alias})
        elif re.match(r"void " + re.escape(B) + r"Projective<.*>::multiply_doubleadd<.*>\(.*\)", d):
            hb = z3.BitVec("highest_bit", 32)
            r = run(fname, [hb])
            if r is None:
                continue
            calls, args = r
            n += 1
            fns.append(d[:100])
            real = [c for c in calls if "multiply_doubleadd_restrict" in c[0]]
            ok = len(real) == 1 and same(real[0][1][0], args[0]) and same(real[0][1][2], args[2]) and z3.is_expr(real[0][1][3]) and z3.simplify(real[0][1][3] == hb).eq(z3.BoolVal(True))
            if ok:
                b = real[0][1][1]
                ok = b.obj.kind == "alloca" and b.obj is not args[0].obj and isinstance(real[0][2], Mul) and real[0][2].e == 1
            if not ok:
                raise Violation("compose:multiply_doubleadd", "%s does not run multiply_doubleadd_restrict(this, private copy of the base, scalar, highest_bit): %r"
                                % (d[:90], [(c[0][:60], c[2]) for c in calls]), {"alias": alias})
    if n < (1 if alias else 8):
        raise Inconclusive("only %d wrapper instantiations found" % n)
    return {"queries": n, "paths": n, "functions": fns[:12], "sample": "%d wrapper instantiations%s" % (n, " with result == base" if alias else "")}



def ob_dispatch():
    P = build.load_program("A", files=["src/bls12_381/bls12_381.cpp", "src/bls12_381/curve_fast_multiply.cpp", "src/lqibe/api.cpp"], tag="c06_dispatch")
    want = [
        ("G1::multiply(G1, BigInt<256>)", B + r"G1::multiply\(" + B + r"G1 const&, " + CORE + r"BigInt<256> const&\)", "multiply_endomorphism(", [0, 1, 2]),
        ("G2::multiply(G2, BigInt<256>)", B + r"G2::multiply\(" + B + r"G2 const&, " + CORE + r"BigInt<256> const&\)", "multiply_frobenius(", [0, 1, 2]),
        ("G2::multiply_frobenius(G2, BigInt<256>)", B + r"G2::multiply_frobenius\(" + B + r"G2 const&, " + CORE + r"BigInt<256> const&\)", None, None),
    ]
    fns = []
    for label, rx, callee, argmap in want:
        cands = [n for n in P.find(rx) if not P.fn[n].is_decl]
        if len(cands) != 1:
            raise Inconclusive("%s: %d definitions" % (label, len(cands)))
        I = eir.Interp(P)
        calls = []

        def rec(I_, name, args, site, calls=calls):
            calls.append((I_.prog.demangled[name], list(args)))
        I.add_intercept(B + r"G[12]::multiply_(endomorphism|frobenius)\(.*\)", rec, "mul")
        I.add_intercept(B + r"PowersOfX::decompose\(.*\)", rec, "decompose")
        args = [Ptr(Obj("arg%d" % i, 1024, "arg", 16), 0) for i in range(3)]
        I.call_function(P.fn[cands[0]], list(args))
        fns.append(P.demangled[cands[0]][:90])

        def same(x, y):
            return isinstance(x, Ptr) and isinstance(y, Ptr) and x.obj is y.obj and x.off == y.off
        if callee is not None:
            ok = len(calls) == 1 and callee in calls[0][0] and all(same(calls[0][1][i], args[j]) for i, j in enumerate(argmap))
        else:
            ok = (len(calls) == 2 and "PowersOfX::decompose" in calls[0][0] and same(calls[0][1][1], args[2]) and "multiply_frobenius(" in calls[1][0]
                  and "PowersOfX const&" in calls[1][0] and same(calls[1][1][0], args[0]) and same(calls[1][1][1], args[1]) and same(calls[1][1][2], calls[0][1][0]))
        if not ok:
            raise Violation("dispatch:" + label, "%s does not dispatch as expected: %r" % (label, [c[0][:70] for c in calls]), {})
    # cofactor-width entry points (128-bit for G1, 512-bit for G2; instantiated by harness/inst_curve.cpp): their base points are arbitrary
    # curve points, so they must go straight to a routine that does not use the order-r eigenvalue nor reduce the scalar modulo r:
    # multiply_wnaf / multiply_doubleadd of the same scalar width, on the same operands.
    P2 = prog()
    wide = [("G1::multiply<G1Affine>(BigInt<128>)", r"void " + B + r"G1::multiply<" + B + r"G1Affine>\(.*BigInt<128> const&\)", 128),
            ("G1::multiply<G1>(BigInt<128>)", r"void " + B + r"G1::multiply<" + B + r"G1>\(.*BigInt<128> const&\)", 128),
            ("G2::multiply<G2Affine>(BigInt<512>)", r"void " + B + r"G2::multiply<" + B + r"G2Affine>\(.*BigInt<512> const&\)", 512),
            ("G2::multiply<G2>(BigInt<512>)", r"void " + B + r"G2::multiply<" + B + r"G2>\(.*BigInt<512> const&\)", 512)]
    for label, rx, bits in wide:
        cands = [n for n in P2.find(rx) if not P2.fn[n].is_decl]
        if len(cands) != 1:
            raise Inconclusive("%s: %d definitions" % (label, len(cands)))
        I = eir.Interp(P2)
        calls = []
        I.add_intercept(r"(?!llvm\.|memcpy|memmove|memset).*", lambda I_, name, args, site, calls=calls: calls.append((I_.prog.demangled.get(name, name), list(args))), "callee")
        args = [Ptr(Obj("arg%d" % i, 1024, "arg", 16), 0) for i in range(3)]
        I.call_function(P2.fn[cands[0]], list(args))
        fns.append(P2.demangled[cands[0]][:90])
        real = [c for c in calls if not c[0].startswith("llvm.")]
        ok = (len(real) == 1 and ("::multiply_wnaf<" in real[0][0] or "::multiply_doubleadd<" in real[0][0]) and "BigInt<%d>" % bits in real[0][0]
              and len(real[0][1]) >= 3 and all(isinstance(x, Ptr) and x.obj is y.obj and x.off == y.off for x, y in zip(real[0][1][:3], args)))
        if not ok:
            raise Violation("dispatch:" + label, "%s (base: any curve point, scalar: any %d-bit value) does not go straight to multiply_wnaf/multiply_doubleadd of "
                            "that width on its own operands; it calls %r (the 256-bit G1/G2 multiply uses the order-r eigenvalue and is only [k]P on the order-r subgroup)"
                            % (label, bits, [c[0][:80] for c in real]), {"calls": [c[0] for c in real]})
    # 256-bit entry points with an affine base: from_affine into a local, then the eigenvalue method on that local with the caller's scalar
    naff = 0
    for grp, method in (("G1", "multiply_endomorphism("), ("G2", "multiply_frobenius(")):
        rx = B + grp + r"::multiply\(" + B + grp + r"Affine const&, " + CORE + r"BigInt<256> const&\)"
        cands = [n for n in P.find(rx) if not P.fn[n].is_decl]
        if len(cands) != 1:
            raise Inconclusive("%s::multiply(affine, BigInt<256>): %d definitions" % (grp, len(cands)))
        I = eir.Interp(P)
        calls = []
        I.add_intercept(r"(?!llvm\.|memcpy|memmove|memset).*", lambda I_, name, args, site, calls=calls: calls.append((I_.prog.demangled.get(name, name), list(args))), "callee")
        args = [Ptr(Obj("arg%d" % i, 1024, "arg", 16), 0) for i in range(3)]
        I.call_function(P.fn[cands[0]], list(args))
        fns.append(P.demangled[cands[0]][:90])
        naff += 1

        def same(x, y):
            return isinstance(x, Ptr) and isinstance(y, Ptr) and x.obj is y.obj and x.off == y.off
        ok = (len(calls) == 2 and "::from_affine<" in calls[0][0] and same(calls[0][1][1], args[1]) and calls[0][1][0].obj.kind == "alloca"
              and method in calls[1][0] and "BigInt<256> const&)" in calls[1][0] and same(calls[1][1][0], args[0]) and same(calls[1][1][1], calls[0][1][0]) and same(calls[1][1][2], args[2]))
        if not ok:
            raise Violation("dispatch:%s::multiply(affine)" % grp, "%s::multiply(%sAffine, BigInt<256>) is not from_affine(local, base); %s local, scalar): %r"
                            % (grp, grp, method, [c[0][:70] for c in calls]), {})
    return {"queries": len(want) + len(wide) + naff, "paths": len(want) + len(wide) + naff, "functions": fns, "sample": "static dispatch of the 256-bit (projective and affine base) and of the cofactor-width entry points"}


def ob_eigen():
    """beta^3 = 1, beta != 1 (so (x,y) -> (beta x, y) is an automorphism of y^2 = x^3 + 4 of order 3: its eigenvalue on the order-r subgroup is a
    primitive cube root of unity mod r, i.e. lambda or lambda^2); natively [lambda]G1 = endomorphism(G1) and [x]G2 = psi(G2) on the generators;
    G1::endomorphism writes (beta*x, y, z)"""
    P = prog()
    I = eir.Interp(P)
    names = [n for n in P.gl if "g1_endomorphism_beta" in n]
    if len(names) != 1:
        raise Inconclusive("g1_endomorphism_beta: %d candidates" % len(names))
    beta = I.load_bytes(I.global_obj(names[0]), 0, 48) * pow(1 << 384, -1, Q) % Q
    if pow(beta, 3, Q) != 1 or beta == 1:
        raise Violation("eigen:beta", "g1_endomorphism_beta is not a primitive cube root of unity in Fq", {"beta": hex(beta)})
    lam = [n for n in P.gl if "g1_endomorphism_lambda" in n]
    if lam:
        lv = I.load_bytes(I.global_obj(lam[0]), 0, 32)
        if lv != LAMBDA:
            raise Violation("eigen:lambda-constant", "g1_endomorphism_lambda differs from the eigenvalue used in this check", {"lambda": hex(lv)})
    # formula of G1::endomorphism over uninterpreted Fq multiplication
    fname = P.find1(B + r"G1::endomorphism\(.*\)")
    calls = []
    I2 = eir.Interp(P)
    FQ = r"embedded_pairing::core::Fp<384,[^>]*fq_modulus_var[^>]*>"
    I2.add_intercept(FQ + r"::multiply\(.*\)", lambda I_, n, a, s: calls.append(("mul", a)), "Fq::multiply")
    I2.add_intercept(FQ + r"::copy\(.*\)", lambda I_, n, a, s: calls.append(("copy", a)), "Fq::copy")
    out = Obj("out", 144, "arg", 16)
    a = Obj("a", 144, "arg", 16, True)
    I2.call_named(fname, [Ptr(out, 0), Ptr(a, 0)])
    ok = (len(calls) == 3 and calls[0][0] == "mul" and calls[0][1][0].off == 0 and calls[0][1][1].obj is a and calls[0][1][1].off == 0 and "beta" in calls[0][1][2].obj.name
          and sorted((c[1][0].off, c[1][1].off) for c in calls[1:]) == [(48, 48), (96, 96)] and all(c[0] == "copy" and c[1][1].obj is a for c in calls[1:]))
    if not ok:
        raise Violation("eigen:formula", "G1::endomorphism is not (beta*x, y, z)", {})
    from engine import replay
    out = replay.run(["eigen"])[0]
    if not out.startswith("OK"):
        raise Violation("eigen:native", "on the generators the endomorphisms do not act as [lambda] / [x]: " + out[:160], {})
    if (Q - (R_ORDER - X)) % R_ORDER != 0:
        raise Violation("eigen:q-mod-r", "q is not congruent to x modulo r", {})
    return {"queries": 6, "paths": 1, "functions": [P.demangled[fname][:60]], "sample": "beta^3 = 1; [lambda]G1 = phi(G1), [x]G2 = psi(G2) natively; q = x (mod r)"}


def register(chk):
    chk.add("fill_table:G1<-G1", ob_fill_table, r"void " + B + r"WnafTable<" + B + r"G1, 4u>::fill_table<" + B + r"G1>\(.*\)", "G1 from G1", 8)
    chk.add("fill_table:G1<-affine", ob_fill_table, r"void " + B + r"WnafTable<" + B + r"Projective<" + B + r"Fq>, 4u>::fill_table<" + B + r"G1Affine>\(.*\)", "G1 from affine", 8)
    chk.add("fill_table:G2<-affine", ob_fill_table, r"void " + B + r"WnafTable<" + B + r"Projective<" + B + r"Fq2>, 4u>::fill_table<" + B + r"G2Affine>\(.*\)", "G2 from affine", 8)
    chk.add("fill_table:G2<-G2:w2", ob_fill_table, r"void " + B + r"WnafTable<" + B + r"G2, 2u>::fill_table<" + B + r"G2>\(.*\)", "G2 from G2, window 2", 2)
    for bits, field in ((128, "Fq"), (256, "Fq"), (256, "Fq2"), (512, "Fq2")):
        chk.add("loop:wnaf_table_multiply:%s:%d" % (field, bits), ob_wnaf_table_multiply, bits, field)
    chk.add("loop:doubleadd:Fq", ob_doubleadd, "Fq")
    chk.add("loop:doubleadd:Fq2", ob_doubleadd, "Fq2")
    chk.add("loop:endomorphism", ob_endomorphism_loop)
    for case in ("out", "zero", "pos", "neg"):
        chk.add("loop:frobenius:first-digit-%s" % case, ob_frobenius_loop, case)
    chk.add("glv:decompose_lambda", ob_glv)
    chk.add("dispatch", ob_dispatch)
    chk.add("compose:wrappers", ob_compose)
    chk.add("eigen", ob_eigen)
    import c07
    chk.add("powersofx:decompose", c07.ob_decompose, "A")
