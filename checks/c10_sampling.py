def register(chk):
    pass
def replay(res):
    return None
