"""C10, part (4): random sampling (see checks/c10.py for the property and engine/retrycut.py for the treatment of the rejection loops).

The caller's random source is a nondeterministic stub: every call must ask for a concrete number n of bytes at a pointer with n writable
bytes (E-IR's bounds assertion) and receives n FRESH symbolic bytes.  Rejection loops are cut as retry loops; per path:
  Fr::random, Fq::random     exit: value = the last draw with the unused top bits cleared, value < modulus; retry: only if that value >= modulus
  Fq2::random                = Fq::random on c0 and on c1 (trace)
  BigInt<64>::random         exactly byte_length bytes drawn into the object
  PowersOfX::random          (affine integers, engine/eir_lin.py) exit: every digit c_j = its draw < |x|, y = sum c_j |x|^j EXACTLY (the stored
                             256-bit value equals the integer sum: no carry lost), y < r; retry: only if a digit >= |x| resp. y >= r;
                             lemma (LIA): digits -> y is injective on [0,|x|)^4; ground: r <= |x|^4 <= 2^256.  Rejection therefore yields the uniform
                             distribution on [0, r) if the source is uniform (paper step).
  G1/G2::random_generator    (uninterpreted trace) exit: result = [cofactor](x, y) for the point get_point_from_x accepted for this iteration's
                             fresh x and the fresh bit, residue test on, and Projective::is_zero(result) was evaluated false AFTER the
                             multiplication: a non-identity element of the order-r subgroup (T10)
"""
import sys
import os
sys.path.insert(0, os.path.dirname(os.path.dirname(os.path.abspath(__file__))))
sys.path.insert(0, os.path.dirname(os.path.abspath(__file__)))

import z3
from engine import eir, eir_lin, retrycut
from engine.dom_lin import LinCtx, LV
from engine.eir import Ptr, Obj, is_conc, ExecError
from engine.framework import Violation, Inconclusive

B = "embedded_pairing::bls12_381::"
CORE = "embedded_pairing::core::"
ANY = r"\(.*\)"
R_ORDER = 0x73eda753299d7d483339d80809a1d80553bda402fffe5bfeffffffff00000001
Q = 0x1a0111ea397fe69a4b1ba7b6434bacd764774b84f38512bf6730d2a0f6b0f6241eabfffeb153ffffb9feffffffffaaab
ABS_X = 0xd201000000010000
CB = eir.FnRef("get_random_bytes")


def c10():
    import c10 as m
    return m


class ByteSource:
    """the random callback over bit-vectors"""

    def __init__(self, I, inner=None):
        self.I = I
        self.draws = []
        self.inner = inner

    def __call__(self, I_, name, args, site):
        if name != "get_random_bytes":
            if self.inner is not None:
                return self.inner(I_, name, args, site)
            raise ExecError("unsupported", "call to external function " + name)
        p, n = args
        if not is_conc(n):
            raise Violation("random-source:length", "the random source is asked for a symbolic number of bytes", {})
        I_._check_access(p, n, 1, True)
        k = len(self.draws)
        bs = [z3.BitVec("rnd%d_%d" % (k, i), 8) for i in range(n)]
        for i in range(n):
            I_.store_cell(p.obj, p.off + i, 1, bs[i])
        self.draws.append((p.obj, p.off, n, bs))
        return None


# ---------------------------------------------------------------------------------------------------------------
def ob_fp_random(fld, cfg="A"):
    m = c10()
    P = m.prog(cfg)
    N, keep, p = (256, 255, R_ORDER) if fld == "Fr" else (384, 381, Q)
    nb = N // 8
    f = P.find1(B + fld + r"::random" + ANY)
    I = eir.Interp(P)
    I.solver.set("timeout", 120000)
    src = ByteSource(I, m.asm_kernels(I))
    I.external_handler = src
    rc = retrycut.RetryCut(I, [f], lambda: [this[0]])
    this = [None]

    def once():
        rc.reset()
        del src.draws[:]
        this[0] = Obj("this", nb, "arg", 16)
        try:
            I.call_named(f, [Ptr(this[0], 0), CB])
            return "exit"
        except eir.LoopCut:
            return "retry"
    pv = z3.BitVecVal(p, N)
    key = fld + "::random"
    n = ex = rt = 0
    for path, kind in I.explore(once, 256):
        n += 1
        if len(src.draws) != 1 or not (src.draws[0][0] is this[0] and src.draws[0][1] == 0 and src.draws[0][2] == nb):
            raise Violation(key + ":draw", "%s::random does not draw exactly %d bytes into the value per iteration (%r)" % (fld, nb, [(d[0].name, d[1], d[2]) for d in src.draws]), {})
        D = z3.Concat(*reversed(src.draws[0][3]))
        masked = D & z3.BitVecVal((1 << keep) - 1, N)
        if kind == "exit":
            ex += 1
            val = eir.as_bv(I.load_bytes(this[0], 0, nb), N)
            r, mdl = m.decide(I, path.pc, [], z3.And(val == masked, z3.ULT(val, pv)), "exit value")
            if r == z3.sat:
                raise Violation(key + ":range", "%s::random returns a value that is not the masked draw or is not below the modulus" % fld,
                                {"draw": hex(mdl.eval(D, model_completion=True).as_long()), "value": hex(mdl.eval(val, model_completion=True).as_long())})
        else:
            rt += 1
            # a draw that is below the modulus as it stands (unused top bits already zero) must be accepted: every value below the modulus then has
            # the same number of accepted preimages whatever mask the code applies to the unused bits (masking more or fewer of them is not a bias)
            r, mdl = m.decide(I, path.pc, [], z3.UGE(D, pv), "retry condition")
            if r == z3.sat:
                raise Violation(key + ":bias", "%s::random rejects a draw that is below the modulus (the distribution is not uniform)" % fld,
                                {"draw": hex(mdl.eval(D, model_completion=True).as_long())})
    if ex < 1 or rt < 1:
        raise Inconclusive("expected accepting and retrying paths, got %d / %d" % (ex, rt))
    m.check_pure(I, key, key)
    return {"queries": getattr(I, "vc_count", 0), "paths": n, "functions": [m.short(P, f)],
            "sample": "%d paths (%d accept, %d retry; %d back edges recognised as independent retries); draw = %d fresh symbolic bytes" % (n, ex, rt, rc.cuts, nb)}


def ob_fq2_random():
    m = c10()
    P = m.prog()
    f = P.find1(B + r"Fq2::random" + ANY)
    I = eir.Interp(P)
    calls = []
    I.add_intercept(B + r"Fq::random" + ANY, lambda I_, n, a, s: calls.append(a), "Fq::random")
    this = Obj("this", 96, "arg", 16)
    I.call_named(f, [Ptr(this, 0), CB])
    ok = len(calls) == 2 and sorted(a[0].off for a in calls) == [0, 48] and all(a[0].obj is this and a[1] is CB for a in calls)
    if not ok:
        raise Violation("Fq2::random", "Fq2::random is not Fq::random on c0 and on c1 with the caller's source", {"calls": len(calls)})
    return {"queries": 0, "paths": 1, "functions": [m.short(P, f)], "sample": "trace: Fq::random(c0), Fq::random(c1)"}


def ob_bigint_random(bits):
    m = c10()
    P = m.prog()
    f = P.find1(CORE + r"BigInt<%d>::random" % bits + ANY)
    I = eir.Interp(P)
    src = ByteSource(I)
    I.external_handler = src
    size = I.prog.layout(I.prog.fn[f].module).size(I.prog.fn[f].params[0].ty.to)
    this = Obj("this", size, "arg", 16)
    I.call_named(f, [Ptr(this, 0), CB])
    if [(d[0], d[1], d[2]) for d in src.draws] != [(this, 0, bits // 8)]:
        raise Violation("BigInt<%d>::random" % bits, "BigInt<%d>::random does not draw exactly %d bytes into the value" % (bits, bits // 8), {})
    return {"queries": 0, "paths": 1, "functions": [m.short(P, f)], "sample": "one draw of %d bytes at offset 0 of the %d-byte object" % (bits // 8, size)}


# ---------------------------------------------------------------------------------------------------------------
POWERS_OF_X_OBLIGATION = "PowersOfX::random"


class IV:
    """a BigInt object's value as an integer term (python int or z3 Int)"""
    __slots__ = ("v",)

    def __init__(self, v):
        self.v = v

    def same_as(self, o):
        return isinstance(o, IV) and (o.v is self.v or (isinstance(o.v, int) and isinstance(self.v, int) and o.v == self.v)
                                      or (isinstance(o.v, z3.ExprRef) and isinstance(self.v, z3.ExprRef) and o.v.eq(self.v)))


def ob_powersofx_random():
    """PowersOfX::random composed from the integer specifications of the BigInt operations it calls (each decided at word level:
    checks/c10_words.py, and C02 for the 256-bit add / compare): values are integer terms, the digits are fresh integers in [0, 2^64)."""
    m = c10()
    P = m.prog()
    f = P.find1(B + r"PowersOfX::random" + ANY)
    I = eir.Interp(P)
    I.solver.set("timeout", 60000)
    draws = []
    BI = CORE + r"BigInt<(\d+)>::"

    def width(name, k=1):
        import re
        return [int(x) for x in re.findall(r"BigInt<(\d+)>", I.prog.demangled[name])]

    def rd(p, bits):
        c = p.obj.cells.get(p.off)
        if c is not None and isinstance(c[1], IV):
            if c[0] != bits // 8:
                raise ExecError("spec", "a %d-bit integer is read where a %d-byte one is stored" % (bits, c[0]))
            return c[1].v
        v = I.load_bytes(p.obj, p.off, bits // 8)
        if not is_conc(v):
            raise ExecError("abstract-bytes", "symbolic raw bytes read as an integer")
        return v

    def wr(p, bits, v):
        I._check_access(p, bits // 8, 1, True)
        I.store_cell(p.obj, p.off, bits // 8, IV(v))

    def h_random(I_, name, args, site):
        if args[1] is not CB:
            raise Violation("PowersOfX::random:source", "a digit is not drawn from the caller's source", {})
        d = z3.Int("draw%d" % len(draws))
        I_.path.pc += [d >= 0, d < (1 << 64)]
        draws.append((args[0].obj, args[0].off, d))
        wr(args[0], 64, d)

    def h_compare(I_, name, args, site):
        n = width(name)[0]
        a, b = rd(args[0], n), rd(args[1], n)
        if isinstance(a, int) and isinstance(b, int):
            return 0xffffffff if a < b else (0 if a == b else 1)
        if I_.branch(a < b):
            return 0xffffffff
        return 0 if I_.branch(a == b) else 1

    def h_multiply(I_, name, args, site):
        k = width(name)[0]
        wr(args[0], k, rd(args[1], 64) * rd(args[2], k - 64))

    def h_copy(I_, name, args, site):
        k, j = width(name)[0], width(name)[-1]
        import re
        j = int(re.search(r"copy<(\d+)>", I_.prog.demangled[name]).group(1))
        wr(args[0], k, rd(args[1], j))

    def h_add(I_, name, args, site):
        k = width(name)[0]
        s = rd(args[1], k) + rd(args[2], k)
        c = s >= (1 << k)
        wr(args[0], k, z3.If(c, s - (1 << k), s) if not isinstance(s, int) else s % (1 << k))
        if k == 192:
            return z3.Bool("unspecified_carry_%d" % len(draws))      # depends on padding bytes (c10_words: BigInt<192>::add)
        return c if not isinstance(s, int) else int(s >= (1 << k))
    I.add_intercept(CORE + r"BigInt<64>::random" + ANY, h_random, "BigInt<64>::random")
    I.add_intercept(CORE + r"BigInt<(?:64|256)>::compare" + ANY, h_compare, "BigInt::compare")
    I.add_intercept(r"void " + CORE + r"BigInt<\d+>::multiply<64>" + ANY, h_multiply, "BigInt::multiply<64>")
    I.add_intercept(r"void " + CORE + r"BigInt<\d+>::copy<\d+>" + ANY, h_copy, "BigInt::copy")
    I.add_intercept(CORE + r"BigInt<(?:128|192|256)>::add" + ANY, h_add, "BigInt::add")
    fn = P.fn[f]
    lay = P.layout(fn.module)
    px_size = lay.size(fn.params[0].ty.to)
    stride = px_size // 4
    objs = [None, None]
    rc = retrycut.RetryCut(I, [f], lambda: objs)

    def once():
        rc.reset()
        del draws[:]
        objs[0] = Obj("powers", px_size, "arg", 16)
        objs[1] = Obj("y", 32, "arg", 16)
        try:
            I.call_named(f, [Ptr(objs[0], 0), Ptr(objs[1], 0), CB])
            return "exit"
        except eir.LoopCut:
            return "retry"

    def prove(pc, cond, what):
        r, mdl = m.decide(I, pc, [], cond, what, 60000)
        if r == z3.sat:
            return False, [mdl.eval(d[2], model_completion=True).as_long() for d in draws]
        return True, None

    def ce(vals):
        stream = b"".join(v.to_bytes(8, "little") for v in vals)
        return {"kind": "pxrand", "digits": [hex(v) for v in vals], "stream": stream.hex()}
    key = "PowersOfX::random"
    n = ex = rt = 0
    for path, kind in I.explore(once, 512):
        n += 1
        px, yo = objs
        pc = list(path.pc)
        for k, (o, off, v) in enumerate(draws):
            if o is not px or off != stride * k or k > 3:
                raise Violation(key + ":draw", "draw %d goes to %s+%d (expected digit %d of the result)" % (k, o.name, off, k), {})
        tot = sum(draws[j][2] * ABS_X ** j for j in range(len(draws)))
        if kind == "exit":
            ex += 1
            if len(draws) != 4:
                raise Violation(key + ":draw", "%d digits drawn on an accepting path" % len(draws), {})
            cs = [rd(Ptr(px, stride * k), 64) for k in range(4)]
            yv = rd(Ptr(yo, 0), 256)
            for k in range(4):
                ok, vals = prove(pc, z3.And(cs[k] == draws[k][2], cs[k] < ABS_X), "digit range")
                if not ok:
                    raise Violation(key + ":digit", "digit %d of the decomposed exponent is not its draw below |x|" % k, ce(vals))
            ok, vals = prove(pc, yv == tot, "y = sum c_j |x|^j")
            if not ok:
                raise Violation(key + ":sum", "the scalar returned is not sum c_j |x|^j of the digits returned (a wrong power, operand or a lost carry)", ce(vals))
            ok, vals = prove(pc, z3.And(yv >= 0, yv < R_ORDER), "y < r")
            if not ok:
                raise Violation(key + ":range", "PowersOfX::random accepts a scalar that is not below the group order r", ce(vals))
        else:
            rt += 1
            cond = draws[-1][2] >= ABS_X            # retry only if the digit just drawn is out of range, or (all four drawn) the scalar is
            if len(draws) == 4:
                cond = z3.Or(cond, tot >= R_ORDER)
            ok, vals = prove(pc, cond, "retry condition")
            if not ok:
                raise Violation(key + ":bias", "PowersOfX::random rejects an in-range draw (the distribution is not uniform)", ce(vals))
    if ex < 1 or rt < 5:
        raise Inconclusive("expected accepting paths and retries of all five loops, got %d / %d" % (ex, rt))
    for tag in ("BigInt<64>::random", "BigInt::compare", "BigInt::multiply<64>", "BigInt::copy", "BigInt::add"):
        if not I.intercept_hits.get(tag):
            raise Inconclusive("%s never reached (vacuity guard)" % tag)
    m.check_pure(I, key, key)
    return {"queries": getattr(I, "vc_count", 0), "paths": n, "functions": [m.short(P, f)],
            "sample": "%d paths (%d accept, %d retry; %d back edges recognised as independent retries); digits are integer variables in [0, 2^64)" % (n, ex, rt, rc.cuts)}


def ob_powersofx_lemmas():
    c = z3.Ints("c0 c1 c2 c3")
    d = z3.Ints("d0 d1 d2 d3")
    s = z3.Solver()
    s.set("timeout", 60000)
    for v in c + d:
        s.add(v >= 0, v < ABS_X)
    s.add(sum(c[j] * ABS_X ** j for j in range(4)) == sum(d[j] * ABS_X ** j for j in range(4)))
    s.add(z3.Or(*[c[j] != d[j] for j in range(4)]))
    r = s.check()
    if r == z3.unknown:
        raise Inconclusive("solver unknown on injectivity")
    if r == z3.sat:
        raise Violation("PowersOfX:injective", "two digit vectors give the same scalar", {"model": str(s.model())})
    if not (R_ORDER <= ABS_X ** 4 <= (1 << 256)) or R_ORDER != ABS_X ** 4 - ABS_X ** 2 + 1:
        raise Violation("PowersOfX:ground", "r <= |x|^4 <= 2^256 fails", {})
    return {"queries": 1, "paths": 0, "functions": ["(lemma) digits -> sum c_j |x|^j"],
            "sample": "LIA: injective on [0,|x|)^4; ground: r = |x|^4 - |x|^2 + 1 <= |x|^4 <= 2^256 (every y < r has digits, the sum cannot overflow)"}


# ---------------------------------------------------------------------------------------------------------------
def ob_random_generator(grp):
    m = c10()
    P = m.prog()
    deg = m.DEG[grp]
    fld = "Fq" if grp == "G1" else "Fq2"
    bits = 128 if grp == "G1" else 512
    f = P.find1(B + grp + r"::random_generator" + ANY)
    inner = P.find1(r"void " + B + r"sample_random_generator<" + B + grp + ", .*>" + ANY)
    I = eir.Interp(P)
    src = ByteSource(I)
    I.external_handler = src
    ev = []
    try:
        cof, hval = m.cofactor_obj(I, grp)
    except Inconclusive:
        cof = None            # the cofactor constant is not even referenced: no multiplication by it can be recorded below
    key = "random_generator:" + grp

    def fail(nm, msg, extra=None):
        raise Violation(key + ":" + nm, "%s::random_generator: %s" % (grp, msg), dict({"group": grp, "kind": "g1rand" if grp == "G1" else "g2rand"}, **(extra or {})))

    def tok(p, size):
        c = p.obj.cells.get(p.off)
        return c[1] if c is not None and c[0] == size and isinstance(c[1], tuple) else None

    def h_rand(I_, name, args, site):
        if args[1] is not CB:
            fail("source", "the field element is not drawn from the caller's source")
        t = ("x", len(ev))
        I_._check_access(args[0], 48 * deg, 1, True)
        I_.store_cell(args[0].obj, args[0].off, 48 * deg, t)
        ev.append(("rand", t))

    def h_gp(I_, name, args, site):
        t = tok(args[1], 48 * deg)
        ok = z3.Bool("ok%d" % len(ev))
        ev.append(("gp", args[0].obj, t, args[2], args[3], ok))
        if I_.branch(ok):
            I_._check_access(args[0], 96 * deg + 1, 1, True)
            I_.store_cell(args[0].obj, args[0].off, 96 * deg, ("pt", t, len(ev)))
            I_.store_cell(args[0].obj, args[0].off + 96 * deg, 1, 0)
            return 1
        return 0

    def h_mul(I_, name, args, site):
        t = tok(args[1], 96 * deg)
        inf = args[1].obj.cells.get(args[1].off + 96 * deg)
        if t is None or t[0] != "pt" or inf is None or inf[1] != 0:
            fail("base", "the point multiplied is not the curve point get_point_from_x produced")
        if cof is None or not (args[2].obj is cof and args[2].off == 0):
            fail("cofactor", "the scalar is not %sAffine::cofactor" % grp)
        r = ("mul", t)
        I_._check_access(args[0], 144 * deg, 1, True)
        I_.store_cell(args[0].obj, args[0].off, 144 * deg, r)
        ev.append(("mul", args[0].obj, r))

    def h_iszero(I_, name, args, site):
        t = tok(args[0], 144 * deg)
        z = z3.Bool("zero%d" % len(ev))
        ev.append(("is_zero", args[0].obj, t, z))
        return z
    def h_other_write(I_, name, args, site):
        # any other way of producing the result from the sampled point (from_affine, copy, another multiplication): recorded, the result is then not
        # "cofactor times the point" and the exit check below reports it
        I_._check_access(args[0], 144 * deg, 1, True)
        I_.store_cell(args[0].obj, args[0].off, 144 * deg, ("other", I_.prog.demangled.get(name, name)[:80]))
        ev.append(("other", args[0].obj, I_.prog.demangled.get(name, name)[:80]))
    I.add_intercept(B + fld + r"::random" + ANY, h_rand, fld + "::random")
    I.add_intercept(B + m.AFF[grp] + r"::get_point_from_x" + ANY, h_gp, "get_point_from_x")
    I.add_intercept(r"void " + B + grp + r"::multiply<" + B + grp + r"Affine>\(.*BigInt<%d> const&\)" % bits, h_mul, "multiply by cofactor")
    I.add_intercept(r"(?:void )?" + B + r"(?:Projective<" + B + fld + r">|" + grp + r")::(?:from_affine|copy|set|multiply\w*)(?:<.*>)?\(.*\)", h_other_write, "other result write")
    I.add_intercept(B + r"Projective<" + B + fld + r">::is_zero\(\) const", h_iszero, "Projective::is_zero")
    rc = retrycut.RetryCut(I, [inner], lambda: [res[0]])
    res = [None]

    def once():
        rc.reset()
        del ev[:]
        del src.draws[:]
        res[0] = Obj("result", 144 * deg, "arg", 16)
        try:
            I.call_named(f, [Ptr(res[0], 0), CB])
            return "exit"
        except eir.LoopCut:
            return "retry"
    n = ex = rt = 0
    for path, kind in I.explore(once, 64):
        n += 1
        gps = [e for e in ev if e[0] == "gp"]
        rands = [e for e in ev if e[0] == "rand"]
        if len(gps) != 1 or len(rands) != 1 or len(src.draws) != 1 or src.draws[0][2] != 1:
            fail("trace", "an iteration does not consist of one field element, one byte and one get_point_from_x (%r)" % ([e[0] for e in ev],))
        _, gobj, gx, greater, checked, ok = gps[0]
        if gx != rands[0][1]:
            fail("x", "get_point_from_x is not given the field element just drawn")
        if not (is_conc(checked) and checked == 1):
            fail("unchecked", "get_point_from_x is called without the residue test")
        # which root is taken must be decided by the byte drawn (any bit of it will do), not be constant
        gb = greater if isinstance(greater, z3.BoolRef) else (z3.BoolVal(bool(greater)) if is_conc(greater) else greater != 0)
        byte = src.draws[0][3][0]
        s_ = z3.Solver()
        s_.add(z3.substitute(gb, (byte, z3.BitVecVal(0, 8))) == z3.substitute(gb, (byte, z3.BitVecVal(255, 8))))
        both = []
        for want in (True, False):
            s2 = z3.Solver()
            s2.add(gb == want)
            both.append(s2.check() == z3.sat)
        if not all(both):
            fail("sign", "the y choice does not depend on the byte drawn (always the %s root)" % ("greater" if both[0] else "smaller"))
        last = ev[-1]
        if kind == "exit":
            ex += 1
            muls = [e for e in ev if e[0] == "mul"]
            if len(muls) != 1 or muls[0][1] is not res[0]:
                fail("result", "the result is not written by one cofactor multiplication")
            c = res[0].cells.get(0)
            if c is None or c[1] != muls[0][2]:
                fail("result", "the result object does not hold cofactor * point on return")
            tests = [e for e in ev[ev.index(muls[0]) + 1:] if e[0] == "is_zero" and e[1] is res[0] and e[2] == muls[0][2]]
            if not tests:
                fail("identity-test", "returns without testing the cofactor-cleared point for the identity: a curve point of order dividing the cofactor "
                     "(e.g. x = 0 on G1) yields the identity", {"stream": "00" * 49})
            r, _ = m.decide(I, path.pc, [], z3.Not(tests[-1][3]), "exit only if non-zero")
            if r == z3.sat:
                fail("identity", "returns although the cofactor-cleared point is the identity")
        else:
            rt += 1
            reason = None
            if last[0] == "gp":
                r, _ = m.decide(I, path.pc, [], z3.Not(last[5]), "retry after failure")
                reason = r == z3.unsat
            elif last[0] == "is_zero":
                r, _ = m.decide(I, path.pc, [], last[3], "retry on identity")
                reason = r == z3.unsat
            if not reason:
                fail("retry", "an iteration is repeated for another reason than a failed get_point_from_x or an identity result")
    if ex < 1 or rt < 2:
        raise Inconclusive("expected one accepting and two retrying paths, got %d / %d" % (ex, rt))
    m.check_pure(I, key, "random_generator")
    return {"queries": getattr(I, "vc_count", 0), "paths": n, "functions": [m.short(P, f), m.short(P, inner)],
            "sample": "%d paths (%d accept, %d retry); result = [%sAffine::cofactor](point accepted for the fresh x), tested non-identity after the multiplication" % (n, ex, rt, grp)}


# ---------------------------------------------------------------------------------------------------------------
def replay(res):
    ce = res.counterexample or {}
    kind = ce.get("kind")
    if kind == "pxrand" and ce.get("stream"):
        import natreplay
        out = natreplay.run(["pxrand " + ce["stream"]])[0]
        ce["native_replay"] = out
        return "NOT_BELOW_R" in out if res.finding_key.endswith(":range") else None
    if kind == "g1rand" and ce.get("stream"):
        import natreplay
        out = natreplay.run(["g1rand " + ce["stream"]])[0]
        ce["native_replay"] = out
        return out.startswith("IDENTITY")
    return None


def register(chk):
    chk.add("Fr::random", ob_fp_random, "Fr")
    chk.add("Fq::random", ob_fp_random, "Fq")
    chk.add("Fq2::random", ob_fq2_random)
    chk.add("BigInt<64>::random", ob_bigint_random, 64)
    chk.add(POWERS_OF_X_OBLIGATION, ob_powersofx_random)
    chk.add("PowersOfX::random:lemmas", ob_powersofx_lemmas)
    chk.add("random_generator:G1", ob_random_generator, "G1")
    chk.add("random_generator:G2", ob_random_generator, "G2")
    import c10_words
    c10_words.register(chk)
