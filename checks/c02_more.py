"""C02, obligations added after the coverage audit (tools/coverage_audit.py listed these bodies as interpreted by no check):

  Fq::read_big_endian   the 48 bytes, big-endian, with the three flag bits cleared, are handed to the Montgomery multiplication by R^2 (so the element
                        stored is (int(bytes) mod 2^381) mod q: the byte-level specification C09/C10/C15 assume)
  Fq::write_big_endian  the stored value goes through one Montgomery reduction (with zero upper half, modulus q, the right inverse word) and the
                        48 bytes written are that integer, big-endian
  Fq::compare           BigInt<384>::compare of the stored representatives
  Fq::inverse, Fp::set_zero, Fp::copy   forwarding / trivial bodies, executed
  FpBase<N>::multiply / square (generic C++: Fr in every configuration)   one full product of the two operands (resp. square of the operand) into a
                        2N-bit temporary, one Montgomery reduction of that temporary into the result with the caller's modulus and inverse word
  exponentiate<F>       (F = Fq, Fr, Fq2) runs exponentiate_restrict into a temporary distinct from both operands and copies it to the result
  BigInt<64/128/512>    add, subtract, is_zero, is_odd, shift_right_in_word<1>, clear, copy used by the 64/128/512-bit recodings (C06 assumes their
                        specifications; C02's main obligations instantiate 256/384/768 only)
"""
import sys
import os
sys.path.insert(0, os.path.dirname(os.path.dirname(os.path.abspath(__file__))))
sys.path.insert(0, os.path.dirname(os.path.abspath(__file__)))

import z3
from engine import build, eir, irparse
from engine.eir import Ptr, Obj, is_conc, ExecError
from engine.framework import Violation, Inconclusive

NS = "embedded_pairing::core::"
B = "embedded_pairing::bls12_381::"
Q = 0x1a0111ea397fe69a4b1ba7b6434bacd764774b84f38512bf6730d2a0f6b0f6241eabfffeb153ffffb9feffffffffaaab
R_ORDER = 0x73eda753299d7d483339d80809a1d80553bda402fffe5bfeffffffff00000001


def c02():
    import c02 as m
    return m


def conc_global(I, p, nbytes):
    v = I.load_bytes(p.obj, p.off, nbytes)
    return v if is_conc(v) else None


def ob_fq_read(cfg="A"):
    m = c02()
    P = m.prog_for(cfg)
    fname = P.find1(B + r"Fq::read_big_endian\(.*\)")
    I = eir.Interp(P)
    bs = [z3.BitVec("b%d" % i, 8) for i in range(48)]
    calls = []

    def h_mul(I_, name, args, site):
        a = eir.as_bv(I_.load_bytes(args[1].obj, args[1].off, 48), 384)
        calls.append((args[0], args[1], a, conc_global(I_, args[2], 48), conc_global(I_, args[3], 48), args[4]))
        for i in range(6):
            I_.store_cell(args[0].obj, args[0].off + 8 * i, 8, z3.BitVec("mont%d" % i, 64))
    I.add_intercept(NS + r"FpBase<384>::multiply\(.*\)", h_mul, "FpBase<384>::multiply")
    this = Obj("this", 48, "arg", 16)
    buf = Obj("buffer", 48, "arg", 1, True)
    for i in range(48):
        buf.cells[i] = (1, bs[i])
    I.call_named(fname, [Ptr(this, 0), Ptr(buf, 0)])
    if len(calls) != 1:
        raise Violation("Fq::read_big_endian:trace", "Fq::read_big_endian performs %d Montgomery multiplications (expected one, by R^2)" % len(calls), {})
    out, a_ptr, a, r2, p, inv = calls[0]
    R2 = pow(1 << 384, 2, Q)
    wb = 32 if cfg == "P32" else 64
    INV = (-pow(Q, -1, 1 << wb)) % (1 << wb)
    if not (out.obj is this and out.off == 0 and r2 == R2 and p == Q and is_conc(inv) and inv == INV):
        raise Violation("Fq::read_big_endian:operands", "the Montgomery multiplication in Fq::read_big_endian is not (this := x * R^2 mod q with the inverse word of q): "
                        "r2 ok=%s, modulus ok=%s, inverse word ok=%s" % (r2 == R2, p == Q, is_conc(inv) and inv == INV), {})
    want = z3.Concat(*bs) & z3.BitVecVal((1 << 381) - 1, 384)
    s = z3.Solver()
    s.set("timeout", 60000)
    s.add(a != want)
    r = s.check()
    if r == z3.sat:
        mdl = s.model()
        raise Violation("Fq::read_big_endian:value", "the integer converted to Montgomery form is not the big-endian value of the 48 bytes with the top three bits cleared",
                        {"bytes": bytes(mdl.eval(b, model_completion=True).as_long() for b in bs).hex(), "converted": hex(mdl.eval(a, model_completion=True).as_long())})
    if r != z3.unsat:
        raise Inconclusive("solver unknown")
    return {"queries": 1, "paths": 1, "functions": ["bls12_381::Fq::read_big_endian", "core::BigInt<384>::read_big_endian"],
            "sample": "x = int(bytes, big-endian) & (2^381 - 1); this := FpBase::multiply(x, R^2, q, -q^-1 mod 2^64)"}


def ob_fq_write(cfg="A"):
    m = c02()
    P = m.prog_for(cfg)
    fname = P.find1(B + r"Fq::write_big_endian\(.*\) const")
    I = eir.Interp(P)
    V = z3.BitVec("stored", 384)
    T = z3.BitVec("canonical", 384)
    calls = []

    def h_red(I_, name, args, site):
        lo = eir.as_bv(I_.load_bytes(args[1].obj, args[1].off, 48), 384)
        hi = I_.load_bytes(args[1].obj, args[1].off + 48, 48)
        calls.append((args[0], lo, hi, conc_global(I_, args[2], 48), args[3]))
        for i in range(6):
            I_.store_cell(args[0].obj, args[0].off + 8 * i, 8, eir.simp(z3.Extract(64 * i + 63, 64 * i, T)))
    I.add_intercept(NS + r"FpBase<384>::montgomery_reduce\(.*\)", h_red, "FpBase<384>::montgomery_reduce")
    this = m.bv_obj("this", 384, V, const=True)
    buf = Obj("buffer", 48, "arg", 1)
    I.call_named(fname, [Ptr(this, 0), Ptr(buf, 0)])
    wb = 32 if cfg == "P32" else 64
    INV = (-pow(Q, -1, 1 << wb)) % (1 << wb)
    if len(calls) != 1:
        raise Violation("Fq::write_big_endian:trace", "Fq::write_big_endian performs %d Montgomery reductions (expected one)" % len(calls), {})
    out, lo, hi, p, inv = calls[0]
    ok_hi = is_conc(hi) and hi == 0
    if not (ok_hi and p == Q and is_conc(inv) and inv == INV and out.obj.kind == "alloca"):
        raise Violation("Fq::write_big_endian:operands", "the Montgomery reduction in Fq::write_big_endian is not reduce(value || 0) modulo q with the inverse word of q", {})
    got = z3.Concat(*[eir.as_bv(I.load_bytes(buf, i, 1), 8) for i in range(48)])
    s = z3.Solver()
    s.set("timeout", 60000)
    s.add(z3.Or(lo != V, got != T))
    r = s.check()
    if r == z3.sat:
        raise Violation("Fq::write_big_endian:value", "the bytes written are not the big-endian bytes of the value taken out of Montgomery form", {})
    if r != z3.unsat:
        raise Inconclusive("solver unknown")
    return {"queries": 1, "paths": 1, "functions": ["bls12_381::Fq::write_big_endian", "core::BigInt<384>::write_big_endian", "core::Fp<384>::get"],
            "sample": "bytes = big-endian(montgomery_reduce(stored || 0))"}


def ob_fq_compare(cfg="A"):
    m = c02()
    P = m.prog_for(cfg)
    fname = P.find1(B + r"Fq::compare\(.*\)")
    I = eir.Interp(P)
    a, b = z3.BitVec("a", 384), z3.BitVec("b", 384)

    def once():
        return I.call_named(fname, [Ptr(m.bv_obj("a", 384, a, True), 0), Ptr(m.bv_obj("b", 384, b, True), 0)])
    n = 0
    for path, ret in I.explore(once, 64):
        n += 1
        rv = eir.as_bv(ret, 32)
        want = z3.If(z3.ULT(a, b), z3.BitVecVal(0xffffffff, 32), z3.If(a == b, z3.BitVecVal(0, 32), z3.BitVecVal(1, 32)))
        s = z3.Solver()
        for c in path.pc:
            s.add(c)
        s.add(rv != want)
        if s.check() != z3.unsat:
            raise Violation("Fq::compare", "Fq::compare is not the three-way comparison of the stored representatives", {})
    return {"queries": n, "paths": n, "functions": ["bls12_381::Fq::compare", "core::BigInt<384>::compare"], "sample": "%d paths: -1 / 0 / 1 by unsigned order of the stored values" % n}


def ob_forwarders(cfg="A"):
    """Fq::inverse -> fp_inverse(*this, a); Fp::set_zero clears the object; Fp::copy(BigInt) / copy(FpBase) copy the value"""
    m = c02()
    P = m.prog_for(cfg)
    fns = []
    # Fq::inverse
    fname = P.find1(B + r"Fq::inverse\(.*\)")
    I = eir.Interp(P)
    calls = []
    I.add_intercept(r"void " + NS + r"fp_inverse<.*>\(.*\)", lambda I_, n, a, s: calls.append((I_.prog.demangled[n], list(a))), "fp_inverse")
    this, a = Obj("this", 48, "arg", 16), Obj("a", 48, "arg", 16, True)
    I.call_named(fname, [Ptr(this, 0), Ptr(a, 0)])
    if not (len(calls) == 1 and "fp_inverse<" + B + "Fq>" in calls[0][0] and calls[0][1][0].obj is this and calls[0][1][1].obj is a):
        raise Violation("Fq::inverse:forward", "Fq::inverse does not forward (this, a) to fp_inverse<Fq>", {})
    fns.append("bls12_381::Fq::inverse")
    for N in (256, 384):
        FP = NS + r"Fp<%d, .*>" % N
        v = z3.BitVec("v", N)
        I = eir.Interp(P)
        o = m.bv_obj("x", N, v)
        I.call_named(P.find1(FP + r"::set_zero\(\)"), [Ptr(o, 0)])
        z = I.load_bytes(o, 0, N // 8)
        if not (is_conc(z) and z == 0):
            raise Violation("Fp<%d>::set_zero" % N, "Fp::set_zero does not clear the element", {})
        for rx in (FP + r"::copy\(" + NS + r"BigInt<%d> const&\)" % N, FP + r"::copy\(" + NS + r"FpBase<%d> const&\)" % N):
            cands = [n for n in P.find(rx) if not P.fn[n].is_decl]
            for fn in cands[:1]:
                I = eir.Interp(P)
                src, dst = m.bv_obj("src", N, v, True), Obj("dst", N // 8, "arg", 16)
                I.call_named(fn, [Ptr(dst, 0), Ptr(src, 0)])
                s = z3.Solver()
                s.add(eir.as_bv(I.load_bytes(dst, 0, N // 8), N) != v)
                if s.check() != z3.unsat:
                    raise Violation("Fp<%d>::copy" % N, "Fp::copy does not copy the value", {})
                fns.append(P.demangled[fn].replace("embedded_pairing::", "")[:50])
    return {"queries": 6, "paths": 6, "functions": fns, "sample": "forwarding and trivial bodies executed"}


def ob_fpbase_compose(N, op, alias=0):
    """generic FpBase<N>::multiply / square: tmp := a*b (resp. a^2) as one 2N-bit product, this := montgomery_reduce(tmp, p, inv)"""
    m = c02()
    P = m.prog_for("P64" if N == 384 else "A")       # FpBase<384> is the assembly kernel in configuration A (C03); its generic body exists in P64
    cfg = "P64" if N == 384 else "A"
    fname = P.find1(NS + r"FpBase<%d>::%s\(.*\)" % (N, op))
    I = eir.Interp(P)
    a, b = z3.BitVec("a", N), z3.BitVec("b", N)
    calls = []

    def h_prod(I_, name, args, site):
        vals = [eir.as_bv(I_.load_bytes(x.obj, x.off, N // 8), N) for x in args[1:]]
        calls.append(("prod", args[0], vals))
        for i in range(2 * N // 64):
            I_.store_cell(args[0].obj, args[0].off + 8 * i, 8, z3.BitVec("t%d" % i, 64))

    def h_red(I_, name, args, site):
        calls.append(("red", args[0], args[1], eir.as_bv(I_.load_bytes(args[2].obj, args[2].off, N // 8), N), args[3]))
        for i in range(N // 64):
            I_.store_cell(args[0].obj, args[0].off + 8 * i, 8, z3.BitVec("r%d" % i, 64))
    I.add_intercept(r"(?:void )?" + NS + r"BigInt<%d>::(?:multiply<%d>|square)\(.*\)" % (2 * N, N), h_prod, "BigInt<2N> product")
    I.add_intercept(NS + r"FpBase<%d>::montgomery_reduce\(.*\)" % N, h_red, "montgomery_reduce")
    oa = m.bv_obj("a", N, a)
    ob = oa if alias == 3 else m.bv_obj("b", N, b)
    ores = oa if alias in (1, 3) else (ob if alias == 2 else Obj("res", N // 8, "arg", 16))
    pv = z3.BitVec("p", N)
    op_ = m.bv_obj("p", N, pv, True)
    inv = z3.BitVec("inv", 64)
    args = [Ptr(ores, 0), Ptr(oa, 0)] + ([Ptr(ob, 0)] if op == "multiply" else []) + [Ptr(op_, 0), inv]
    I.call_named(fname, args)
    key = "FpBase<%d>::%s:compose:alias=%d" % (N, op, alias)
    ok = len(calls) == 2 and calls[0][0] == "prod" and calls[1][0] == "red"
    if ok:
        _, tmp, vals = calls[0]
        _, out, src, pgot, invgot = calls[1]
        want = [a, b if alias != 3 else a] if op == "multiply" else [a]
        s = z3.Solver()
        s.add(z3.Or(*([x != y for x, y in zip(vals, want)] + [pgot != pv, eir.as_bv(invgot, 64) != inv])))
        ok = (len(vals) == len(want) and s.check() == z3.unsat and tmp.obj.kind == "alloca" and src.obj is tmp.obj and src.off == tmp.off and out.obj is ores and out.off == 0)
    if not ok:
        raise Violation(key, "FpBase<%d>::%s is not 'temporary := full product of its operand(s); this := montgomery_reduce(temporary, p, inv)': %r" % (N, op, [c[0] for c in calls]), {"alias": alias})
    return {"queries": 1, "paths": 1, "functions": [P.demangled[fname].replace("embedded_pairing::", "")[:90]],
            "sample": "%s: product of the operand value(s) into a local 2N-bit temporary, one Montgomery reduction of it into the result (%s)" % (op, cfg)}


def ob_exponentiate_wrapper(fld):
    """exponentiate<F>(res, a, power): exponentiate_restrict(tmp, a, power) with tmp a local distinct from res and a, then res.copy(tmp)"""
    if fld == "Fq2":
        import c04_more
        P = c04_more.prog()
        FT, size, PW = B + "Fq2", 96, 384
    else:
        m = c02()
        P = m.prog_for("A")
        FT, size, PW = (B + "Fq", 48, 384) if fld == "Fq" else (B + "Fr", 32, 256)
    cands = [n for n in P.find(r"void " + NS + r"exponentiate<" + FT + r", " + NS + r"BigInt<%d> ?>\(.*\)" % PW) if not P.fn[n].is_decl]
    if len(cands) != 1:
        raise Inconclusive("exponentiate<%s>: %d definitions" % (fld, len(cands)))
    out = {}
    for alias in (False, True):
        I = eir.Interp(P)
        calls = []

        def rec(I_, name, args, site, calls=calls):
            calls.append((I_.prog.demangled.get(name, name), list(args)))
            if "exponentiate_restrict" in calls[-1][0]:
                I_.store_cell(args[0].obj, args[0].off, size, ("power", 1))
        I.add_intercept(r"(?!llvm\.|memcpy|memmove|memset).*", rec, "callee")
        res = Obj("res", size, "arg", 16)
        a = res if alias else Obj("a", size, "arg", 16, True)
        a.cells[0] = (size, ("base", 0))
        pw = Obj("power", PW // 8, "arg", 16, True)
        I.call_function(P.fn[cands[0]], [Ptr(res, 0), Ptr(a, 0), Ptr(pw, 0)])
        names = [c[0] for c in calls]
        ok = len(calls) >= 1 and "exponentiate_restrict<" in names[0]
        if ok:
            t = calls[0][1][0]
            ok = t.obj.kind == "alloca" and t.obj is not res and calls[0][1][1].obj is a and calls[0][1][2].obj is pw
            # the result must end up holding the temporary's value: either an explicit copy call or a memcpy the interpreter performed
            c = res.cells.get(0)
            if len(calls) == 2 and "::copy(" in names[1]:
                ok = ok and calls[1][1][0].obj is res and calls[1][1][1].obj is t.obj
            else:
                ok = ok and len(calls) == 1 and c is not None and c[1] == ("power", 1)
        if not ok:
            raise Violation("exponentiate<%s>:wrapper" % fld, "exponentiate<%s> is not 'exponentiate_restrict into a private temporary, then copy to the result'%s: %r"
                            % (fld, " (result object == base object)" if alias else "", [n[:70] for n in names]), {"alias": alias})
    return {"queries": 2, "paths": 2, "functions": [P.demangled[cands[0]].replace("embedded_pairing::", "")[:100]],
            "sample": "private temporary, then copy; also with result == base"}


def ob_small_bigint(N):
    """BigInt<N> helpers of the N-bit recoding (N = 64, 128, 512): add/subtract with carry/borrow out, is_zero, is_odd, shift_right_in_word<1>, clear, copy"""
    import c06_loops
    m = c02()
    P = m.prog_for("A") if N == 192 else c06_loops.prog()       # 192 bits (PowersOfX::random): instantiated by harness/inst_core.cpp
    BI = NS + r"BigInt<%d>::" % N
    a, b = z3.BitVec("a", N), z3.BitVec("b", N)
    nb = N // 8
    osz = 16 * ((nb + 15) // 16)                                # sizeof: the union holds whole 128-bit double words

    def obj(name, v, const=False):
        o = Obj(name, osz, "arg", 16, const)
        for i in range(N // 64):
            o.cells[8 * i] = (8, eir.simp(z3.Extract(64 * i + 63, 64 * i, v)))
        for i in range(N // 64, osz // 8):
            # BigInt<64> is a 16-byte union (its double word is 128 bits): the upper half is padding that the double-word loops of add/subtract
            # read and write; it holds whatever the caller left there (observation S15), so it is arbitrary here and only the low N bits are compared
            o.cells[8 * i] = (8, z3.BitVec("%s_pad%d" % (name, i), 64))
        return o

    def val(I, o):
        return eir.as_bv(I.load_bytes(o, 0, nb), N)
    nq = 0
    fns = []

    def prove(I, path, vc, what):
        s = z3.Solver()
        s.set("timeout", 60000)
        for c in path.pc:
            s.add(c)
        s.add(z3.Not(vc))
        r = s.check()
        if r == z3.sat:
            mdl = s.model()
            raise Violation("BigInt<%d>::%s" % (N, what), "BigInt<%d>::%s differs from its integer specification" % (N, what),
                            {"a": hex(mdl.eval(a, model_completion=True).as_long()), "b": hex(mdl.eval(b, model_completion=True).as_long())})
        if r != z3.unsat:
            raise Inconclusive("solver unknown on BigInt<%d>::%s" % (N, what))

    def flag(ret):
        return ret if isinstance(ret, z3.BoolRef) else (z3.BoolVal(bool(ret)) if is_conc(ret) else eir.as_bv(ret, 8) != 0)
    for op in ("add", "subtract"):
        cands = [n for n in P.find(BI + op + r"\(.*\)") if not P.fn[n].is_decl]
        if not cands:
            continue
        for alias in (0, 1):
            I = eir.Interp(P)

            def once(alias=alias, fn=cands[0], I=I):
                oa, ob = obj("a", a), obj("b", b, True)
                ores = oa if alias else Obj("res", osz, "arg", 16)
                ret = I.call_named(fn, [Ptr(ores, 0), Ptr(oa, 0), Ptr(ob, 0)])
                return val(I, ores), ret
            for path, (got, ret) in I.explore(once, 64):
                wide = (z3.ZeroExt(1, a) + z3.ZeroExt(1, b)) if op == "add" else (z3.ZeroExt(1, a) - z3.ZeroExt(1, b))
                vc = got == z3.Extract(N - 1, 0, wide)
                if osz * 8 == N:
                    vc = z3.And(vc, flag(ret) == (z3.Extract(N, N, wide) == 1))       # with padding the returned bit is that of the padded double word: unused by the callers
                prove(I, path, vc, "%s:alias=%d" % (op, alias))
                nq += 1
        fns.append("core::BigInt<%d>::%s" % (N, op))
    for op, spec in (("is_zero", lambda: a == 0), ("is_odd", lambda: z3.Extract(0, 0, a) == 1)):
        cands = [n for n in P.find(BI + op + r"\(\) const") if not P.fn[n].is_decl]
        if not cands:
            continue
        I = eir.Interp(P)
        for path, ret in I.explore(lambda fn=cands[0], I=I: I.call_named(fn, [Ptr(obj("a", a, True), 0)]), 64):
            prove(I, path, flag(ret) == spec(), op)
            nq += 1
        fns.append("core::BigInt<%d>::%s" % (N, op))
    cands = [n for n in P.find(r".*" + BI + r"shift_right_in_word<\(unsigned char\)1>\(.*\)") if not P.fn[n].is_decl]
    if cands:
        for alias in (0, 1):
            I = eir.Interp(P)

            def once(alias=alias, fn=cands[0], I=I):
                oa = obj("a", a)
                ores = oa if alias else Obj("res", osz, "arg", 16)
                I.call_named(fn, [Ptr(ores, 0), Ptr(oa, 0)])
                return val(I, ores)
            for path, got in I.explore(once, 8):
                prove(I, path, got == z3.LShR(a, 1), "shift_right_in_word<1>:alias=%d" % alias)
                nq += 1
        fns.append("core::BigInt<%d>::shift_right_in_word<1>" % N)
    cands = [n for n in P.find(BI + r"clear\(\)") if not P.fn[n].is_decl]
    if cands:
        I = eir.Interp(P)
        o = obj("a", a)
        I.call_named(cands[0], [Ptr(o, 0)])
        z = I.load_bytes(o, 0, nb)
        if not (is_conc(z) and z == 0):
            raise Violation("BigInt<%d>::clear" % N, "BigInt::clear does not clear the value", {})
        fns.append("core::BigInt<%d>::clear" % N)
    cands = [n for n in P.find(r"void " + BI + r"copy<%d>\(.*\)" % N) if not P.fn[n].is_decl]
    if cands:
        I = eir.Interp(P)
        src, dst = obj("src", a, True), Obj("dst", osz, "arg", 16)
        I.call_named(cands[0], [Ptr(dst, 0), Ptr(src, 0)])
        s = z3.Solver()
        s.add(val(I, dst) != a)
        if s.check() != z3.unsat:
            raise Violation("BigInt<%d>::copy" % N, "BigInt::copy<%d> does not copy the value" % N, {})
        fns.append("core::BigInt<%d>::copy<%d>" % (N, N))
    if len(fns) < 5:
        raise Inconclusive("only %d helper instantiations of BigInt<%d> found" % (len(fns), N))
    return {"queries": nq, "paths": nq, "functions": fns, "sample": "%d helpers of BigInt<%d> against their integer specifications (QF_BV)" % (len(fns), N)}


def register(chk):
    import c06_loops
    import c04_more
    c06_loops.prog()
    c04_more.prog()
    c02().prog_for("P32")          # built here (parent process) also in the quick tier: the byte-level obligations below are cheap in every configuration
    for cfg in ("A", "P64", "P32"):
        sfx = "" if cfg == "A" else ":" + cfg
        chk.add("more:Fq::read_big_endian" + sfx, ob_fq_read, cfg)
        chk.add("more:Fq::write_big_endian" + sfx, ob_fq_write, cfg)
        chk.add("more:Fq::compare" + sfx, ob_fq_compare, cfg)
    chk.add("more:forwarders", ob_forwarders)
    for N in (256, 384):
        for alias in (0, 1, 2, 3):
            chk.add("more:FpBase<%d>::multiply:compose:alias=%d" % (N, alias), ob_fpbase_compose, N, "multiply", alias)
        for alias in (0, 1):
            chk.add("more:FpBase<%d>::square:compose:alias=%d" % (N, alias), ob_fpbase_compose, N, "square", alias)
    for fld in ("Fq", "Fr", "Fq2"):
        chk.add("more:exponentiate<%s>:wrapper" % fld, ob_exponentiate_wrapper, fld)
    for N in (64, 128, 192) + ((512,) if chk.tier == "thorough" else ()):        # 512 bits: about a minute of QF_BV
        chk.add("more:BigInt<%d>:recoding helpers" % N, ob_small_bigint, N)
