"""C02, data-dependent loops of the prime fields (DESIGN.md section 5, C02): inversion, exponentiation, Legendre symbol, square root.

 fp_inverse<Fq|Fr>   the binary extended Euclid is cut into segments at the blocks that start a loop or a comparison; every segment is run from an
                     ARBITRARY state (u, v, b, c) with 1 <= u, v and b, c < p over bit-vectors (the BigInt / FpBase operations it calls are replaced by
                     their specifications, C02) and must realise one of the steps
                         halve-u: u = 2u', 2b' = b (mod p)      halve-v: v = 2v', 2c' = c (mod p)
                         sub-u:   v < u, u' = u - v, b' = b - c (mod p)      sub-v: v >= u, v' = v - u, c' = c - b (mod p)      or leave the state unchanged,
                     keep b', c' < p, lose no carry of b + p, and on exit return b if u = 1 else c; entry: (u, v, b, c) = (a, p, R^2 mod p, 0), inverse(0) = 0.
                     T2 (the same Z-linear map is applied to (u, v) and, mod p, to (b, c)) lifts this to res = a^-1 in Montgomery form.
 exponentiate_restrict<F>  loop cut (power domain a^E): E' = 2E + bit_i, bit i of the exponent, index decremented, exit after bit 0; exponentiate = the same
                     through a temporary.  Together: res = a^power for every power of the operand width.
 legendre            exponent handed to exponentiate is (p-1)/2 (computed at run time: executed concretely); result mapping {0 -> 0, 1 -> 1, else -1}
 Fq::square_root     exponent is (q+1)/4 (so the result squares to a for every square: T5)
"""
import sys
import os
sys.path.insert(0, os.path.dirname(os.path.dirname(os.path.abspath(__file__))))
sys.path.insert(0, os.path.dirname(os.path.abspath(__file__)))

import z3
from engine import eir, loopcut
from engine.eir import Ptr, Obj, is_conc, ExecError
from engine.framework import Violation, Inconclusive
import c02

NS = "embedded_pairing::core::"
B = "embedded_pairing::bls12_381::"
FLD = {"Fq": (384, c02.Q, r"(?:%sFp<384,[^>]*fq_modulus_var[^>]*>|%sFq)" % (NS, B)), "Fr": (256, c02.R_ORDER, r"(?:%sFp<256,[^>]*fr_modulus_var[^>]*>|%sFr)" % (NS, B)),
       "Fq2": (384, c02.Q, B + "Fq2")}
ELEM_SIZE = {"Fq": 48, "Fr": 32, "Fq2": 96}


def install_words(I, N, p, C, log):
    """bit-vector specifications of the BigInt<N> / Fp operations used by fp_inverse (each proved by an obligation of C02/C03)"""
    BI = NS + r"BigInt<%d>::" % N
    nb = N // 8

    def rd(ptr):
        return eir.as_bv(I.load_bytes(ptr.obj, ptr.off, nb), N)

    def wr(ptr, v):
        v = eir.simp(v)
        for k in range(nb // 8):
            I.store_cell(ptr.obj, ptr.off + 8 * k, 8, (v >> (64 * k)) & ((1 << 64) - 1) if is_conc(v) else eir.simp(z3.Extract(64 * k + 63, 64 * k, v)))
    I.w_rd, I.w_wr = rd, wr
    pv = z3.BitVecVal(p, N)
    I.add_intercept(BI + r"is_one\(\) const", lambda I_, n, a, s: eir.simp(rd(a[0]) == 1), "is_one")
    I.add_intercept(BI + r"is_zero\(\) const", lambda I_, n, a, s: eir.simp(rd(a[0]) == 0), "is_zero")
    I.add_intercept(BI + r"is_even\(\) const", lambda I_, n, a, s: eir.simp(z3.Extract(0, 0, rd(a[0])) == 0), "is_even")
    I.add_intercept(BI + r"is_odd\(\) const", lambda I_, n, a, s: eir.simp(z3.Extract(0, 0, rd(a[0])) == 1), "is_odd")

    def h_shr(I_, n, a, s):
        x = rd(a[1])
        wr(a[0], z3.LShR(x, 1))
        f = I_.prog.fn[n]
        rb = I_.prog.layout(f.module).resolve(f.ret).bits
        return eir.simp(z3.Concat(z3.Extract(0, 0, x), z3.BitVecVal(0, rb - 1)))
    I.add_intercept(r".*" + BI + r"shift_right_in_word<\(unsigned char\)1>\(.*\)", h_shr, "shift_right_in_word<1>")

    def h_add(I_, n, a, s):
        x, y = rd(a[1]), rd(a[2])
        t = z3.ZeroExt(1, x) + z3.ZeroExt(1, y)
        wr(a[0], z3.Extract(N - 1, 0, t))
        c = eir.simp(z3.Extract(N, N, t) == 1)
        log.append(("add-carry", c))
        return c

    def h_sub(I_, n, a, s):
        x, y = rd(a[1]), rd(a[2])
        wr(a[0], x - y)
        bw = eir.simp(z3.ULT(x, y))
        log.append(("sub-borrow", bw))
        return bw

    def h_cmp(I_, n, a, s):
        x, y = rd(a[0]), rd(a[1])
        return eir.simp(z3.If(z3.ULT(x, y), z3.BitVecVal(0xffffffff, 32), z3.If(x == y, z3.BitVecVal(0, 32), z3.BitVecVal(1, 32))))
    I.add_intercept(BI + r"add\(.*\)", h_add, "BigInt::add")
    I.add_intercept(BI + r"subtract\(.*\)", h_sub, "BigInt::subtract")
    I.add_intercept(BI + r"compare\(.*\)", h_cmp, "BigInt::compare")
    I.add_intercept(C + r"::is_zero\(\) const", lambda I_, n, a, s: eir.simp(rd(a[0]) == 0), "Fp::is_zero")
    I.add_intercept(C + r"::set_zero\(\)", lambda I_, n, a, s: wr(a[0], z3.BitVecVal(0, N)), "Fp::set_zero")
    I.add_intercept(C + r"::copy\(.*\)", lambda I_, n, a, s: wr(a[0], rd(a[1])), "Fp::copy")

    def h_fsub(I_, n, a, s):
        x, y = rd(a[1]), rd(a[2])
        wr(a[0], z3.If(z3.ULT(x, y), x - y + pv, x - y))          # FpBase::subtract for x, y < p (C02)
        log.append(("fsub-operands-canonical", z3.And(z3.ULT(x, pv), z3.ULT(y, pv))))
    I.add_intercept(C + r"::subtract\(.*\)", h_fsub, "Fp::subtract")


def ob_fp_inverse(fld):
    N, p, C = FLD[fld]
    prog = c02.prog_for("A")
    fname = prog.find1(r"void " + NS + r"fp_inverse<" + B + fld + r">\(.*\)")
    fn = prog.fn[fname]
    R2 = pow(1 << N, 2, p)
    pv = z3.BitVecVal(p, N)
    W = N + 8
    zx = lambda v: z3.ZeroExt(8, v)
    # ---- entry segment: run from the function entry to the first cut (the outer loop header) or to the return
    heads = sorted(loopcut.loop_bodies(fn))
    if len(heads) != 3:
        raise Inconclusive("fp_inverse has %d loops (expected outer + two halving loops)" % len(heads))
    # extra cut point: the block with the comparison (calls BigInt::compare)
    cmp_blocks = [lab for lab in fn.order if any(ins.op == "call" and hasattr(ins.extra, "name") and "compare" in ins.extra.name for ins in fn.blocks[lab])]
    cuts = set(heads) | set(cmp_blocks)
    A = z3.BitVec("a", N)
    nq = 0
    npaths = 0

    def vc(pc, goal, key, msg, model_terms):
        nonlocal nq
        s = z3.Solver()
        s.set("timeout", 120000)
        for c in pc:
            s.add(c)
        s.add(z3.Not(goal))
        r = s.check()
        nq += 1
        if r == z3.unknown:
            raise Inconclusive("solver unknown on %s" % key)
        if r == z3.sat:
            m = s.model()
            raise Violation("fp_inverse<%s>:%s" % (fld, key), "fp_inverse<%s>: %s" % (fld, msg), {k: hex(m.eval(v, model_completion=True).as_long()) for k, v in model_terms.items()})

    # entry
    I = eir.Interp(prog)
    I.solver.set("timeout", 120000)
    log = []
    install_words(I, N, p, C, log)
    I.assumptions = [z3.ULT(A, pv)]
    captured = {}

    def hook0(I_, f, block, prev, regs):
        if f is fn and block in cuts:
            raise eir.LoopCut(f, block, prev, regs)
    I.loop_hook = hook0

    def once0():
        res = Obj("res", N // 8, "arg", 16)
        a = c02.bv_obj("a", N, A, const=True)
        try:
            I.call_named(fname, [Ptr(res, 0), Ptr(a, 0)])
            return "ret", res, None
        except eir.LoopCut as lc:
            return "cut", res, lc
    entry_regs = None
    for path, (kind, res, lc) in I.explore(once0, 16):
        npaths += 1
        pc = list(I.assumptions) + list(path.pc)
        if kind == "ret":
            out = eir.as_bv(I.load_bytes(res, 0, N // 8), N)
            # either a == 0 (result 0) or a == 1*... the loop is skipped when u == 1 initially: result = b = R^2?  (checked below as an exit segment)
            s = z3.Solver()
            for c in pc:
                s.add(c)
            s.add(A != 0)
            if s.check() == z3.sat:
                # a != 0 and returned without a cut: u was 1 at once: result must be b = R2 (a = 1 is the Montgomery form of R^-1; its inverse is R = R2*1...)
                vc(pc, z3.Implies(A != 0, z3.And(A == 1, out == R2)), "entry-exit", "returns at once for a != 0 with something other than (a = 1, result = R^2 mod p)", {"a": A})
            vc(pc, z3.Implies(A == 0, out == 0), "zero", "inverse of zero is not zero", {"a": A})
            continue
        # identify the four loop-carried objects by their contents at the first cut
        objs = {}
        for v in lc.regs.values():
            if isinstance(v, Ptr) and v.obj is not None and v.obj.kind == "alloca" and v.off == 0 and v.obj.size >= N // 8:
                try:
                    val = I.load_bytes(v.obj, 0, N // 8)
                except eir.MemViolation:
                    continue
                for nm, want in (("u", A), ("v", p), ("b", R2), ("c", 0)):
                    if (is_conc(val) and is_conc(want) and val == want) or (not is_conc(val) and not is_conc(want) and z3.eq(eir.as_bv(val, N), want)):
                        objs.setdefault(nm, v.obj)
        if sorted(objs) != ["b", "c", "u", "v"] or len(set(id(o) for o in objs.values())) != 4:
            raise Violation("fp_inverse<%s>:entry-state" % fld, "fp_inverse<%s>: at the first loop the state is not (u, v, b, c) = (a, p, R^2 mod p, 0)" % fld, {})
        vc(pc, A != 0, "entry-nonzero", "the loop is entered for a = 0", {"a": A})
        captured["entry_pc"] = pc
        entry_regs = (lc.block, lc.prev, lc.regs, objs)
        captured["entry_block"] = lc.block
    if entry_regs is None:
        raise Inconclusive("fp_inverse never reaches its loop")
    block0, prev0, regs0, objs = entry_regs
    # ---- segments from every cut point, from an arbitrary state
    U, V, Bb, Cc = (z3.BitVec(n, N) for n in ("u", "v", "b", "c"))
    terms = {"u": U, "v": V, "b": Bb, "c": Cc}
    inv = [U != 0, V != 0, z3.ULT(Bb, pv), z3.ULT(Cc, pv)]
    # Per-cut parity facts are inferred, not assumed (Houdini): start from all candidates at every cut block and drop those that some
    # arrival (from the entry or from another segment run under the current candidate sets) cannot establish, until nothing changes.
    CAND = {"u-even": lambda u, v: z3.Extract(0, 0, u) == 0, "u-odd": lambda u, v: z3.Extract(0, 0, u) == 1,
            "v-even": lambda u, v: z3.Extract(0, 0, v) == 0, "v-odd": lambda u, v: z3.Extract(0, 0, v) == 1, "u-not-one": lambda u, v: u != 1}
    cinv = {c_: set(CAND) for c_ in cuts}

    def holds(pc, f):
        s_ = z3.Solver()
        s_.set("timeout", 60000)
        for c_ in pc:
            s_.add(c_)
        s_.add(z3.Not(f))
        return s_.check() == z3.unsat
    # arrival from the entry: state (a, p, R2, 0) with the entry path condition
    e_pc = captured["entry_pc"]
    for nm in list(cinv[block0]):
        if not holds(e_pc, CAND[nm](A, pv)):
            cinv[block0].discard(nm)

    def segments(start, assume):
        I2 = eir.Interp(prog)
        I2.solver.set("timeout", 120000)
        I2.keep_after_lifetime_end = True
        lg2 = []
        install_words(I2, N, p, C, lg2)
        I2.assumptions = list(inv) + [CAND[nm](U, V) for nm in sorted(assume)]
        cnt = {"n": 0}

        def hook(I_, f, block, prev, regs):
            if f is fn and block in cuts:
                cnt["n"] += 1
                if cnt["n"] > 1:
                    raise eir.LoopCut(f, block, prev, regs)
        I2.loop_hook = hook

        def once():
            cnt["n"] = 0
            del lg2[:]
            for nm, val in (("u", U), ("v", V), ("b", Bb), ("c", Cc)):
                o = objs[nm]
                o.dead = False
                I2.w_wr(Ptr(o, 0), val)
            res = regs0[fn.params[0].name].obj
            res.cells.clear()
            try:
                I2.run_from(fn, start, None, regs0)
                return "ret", res, list(lg2)
            except eir.LoopCut as lc:
                return "cut", lc.block, list(lg2)
        out = []
        for path, (kind, where, lg) in I2.explore(once, 64):
            pc = list(I2.assumptions) + list(path.pc)
            s0 = z3.Solver()
            for c_ in pc:
                s0.add(c_)
            if s0.check() != z3.sat:
                continue
            st = tuple(eir.as_bv(I2.load_bytes(objs[nm], 0, N // 8), N) for nm in ("u", "v", "b", "c"))
            outv = eir.as_bv(I2.load_bytes(where, 0, N // 8), N) if kind == "ret" else None
            out.append((pc, kind, where, lg, st, outv))
        return out
    for it in range(12):
        changed = False
        for start in sorted(cuts):
            for pc, kind, where, lg, st, outv in segments(start, cinv[start]):
                if kind == "cut":
                    for nm in list(cinv[where]):
                        if not holds(pc, CAND[nm](st[0], st[1])):
                            cinv[where].discard(nm)
                            changed = True
        if not changed:
            break
    else:
        raise Inconclusive("invariant inference did not stabilise")
    for start in sorted(cuts):
        if any(ins.op == "phi" for ins in fn.blocks[start]):
            raise Inconclusive("cut block %s has phis" % start)
        for pc, kind, where, lg, st, outv in segments(start, cinv[start]):
            npaths += 1
            u2, v2, b2, c2 = st
            same = lambda x, y: x == y
            mod_eq2 = lambda bn, bo: z3.Or(zx(bn) + zx(bn) == zx(bo), zx(bn) + zx(bn) == zx(bo) + p)         # 2*bn = bo (mod p), bn, bo < p
            sub_eq = lambda bn, x, y: z3.Or(zx(bn) == zx(x) - zx(y), zx(bn) + 0 == zx(x) - zx(y) + p)        # bn = x - y (mod p)
            shapes = z3.Or(
                z3.And(same(u2, U), same(v2, V), same(b2, Bb), same(c2, Cc)),
                z3.And(z3.Extract(0, 0, U) == 0, u2 == z3.LShR(U, 1), mod_eq2(b2, Bb), same(v2, V), same(c2, Cc)),
                z3.And(z3.Extract(0, 0, V) == 0, v2 == z3.LShR(V, 1), mod_eq2(c2, Cc), same(u2, U), same(b2, Bb)),
                z3.And(z3.ULT(V, U), u2 == U - V, sub_eq(b2, Bb, Cc), same(v2, V), same(c2, Cc)),
                z3.And(z3.UGE(V, U), v2 == V - U, sub_eq(c2, Cc, Bb), same(u2, U), same(b2, Bb)))
            tag = "segment-from-%s" % start
            vc(pc, shapes, tag + ":step", "a segment starting at block %s is none of {unchanged, halve-u, halve-v, u -= v, v -= u} applied consistently to (u,v) and (b,c)" % start, terms)
            vc(pc, z3.And(z3.ULT(b2, pv), z3.ULT(c2, pv), u2 != 0, z3.Or(v2 != 0, U == V)), tag + ":invariant", "b, c < p or u, v >= 1 is not preserved", terms)
            for nm, cond in lg:
                if nm == "add-carry":
                    vc(pc, z3.Not(cond) if not is_conc(cond) else z3.BoolVal(not cond), tag + ":carry", "the carry of b + p (or c + p) is lost", terms)
                if nm == "fsub-operands-canonical":
                    vc(pc, cond, tag + ":canonical", "Fp::subtract is called with a non-canonical operand", terms)
            if kind == "ret":
                out = outv
                vc(pc, z3.And(z3.Or(u2 == 1, v2 == 1), out == z3.If(u2 == 1, b2, c2)), tag + ":exit", "the loop is left with u, v != 1 or the result is not (u = 1 ? b : c)", terms)
    return {"queries": nq, "paths": npaths, "functions": [prog.demangled[fname][:90]],
            "sample": "entry + segments from %d cut blocks, arbitrary (u, v, b, c); inferred block invariants %s; %d paths" % (
                len(cuts), "; ".join("%s: %s" % (c_, ",".join(sorted(cinv[c_])) or "-") for c_ in sorted(cuts)), npaths)}


# ---------------------------------------------------------------------------------------------------------------
class PowE:
    __slots__ = ("e",)

    def __init__(self, e):
        self.e = e


def ob_exponentiate_loop(fld, prog=None):
    N, p, C = FLD[fld]
    prog = prog or c02.prog_for("A")
    cands = sorted(n for n in prog.find(r"void " + NS + r"exponentiate_restrict<" + C + r", " + NS + r"BigInt<%d> ?>\(.*\)" % N) if not prog.fn[n].is_decl)
    if not cands:
        raise Inconclusive("exponentiate_restrict<%s>: no definition" % fld)
    nq = npaths = 0
    for fname in cands:
        fn = prog.fn[fname]
        I = eir.Interp(prog)
        size = ELEM_SIZE[fld]
        psize = N // 8

        def rd(ptr):
            c = ptr.obj.cells.get(ptr.off)
            if c is not None and isinstance(c[1], PowE):
                return c[1].e
            if ptr.obj.kind == "global" and ptr.obj.name.endswith("3oneE"):
                return 0
            raise ExecError("abstract-bytes", "power cell expected at %r" % (ptr,))

        def wr(ptr, e):
            I._check_access(ptr, size, 1, True)
            I.store_cell(ptr.obj, ptr.off, size, PowE(e))
        I.add_intercept(C + r"::multiply\(.*\)", lambda I_, n, a, s: wr(a[0], rd(a[1]) + rd(a[2])), "multiply")
        I.add_intercept(C + r"::square\(.*\)", lambda I_, n, a, s: wr(a[0], 2 * rd(a[1])), "square")
        I.add_intercept(C + r"::copy\(.*\)", lambda I_, n, a, s: wr(a[0], rd(a[1])), "copy")
        cut = loopcut.Cutter(I, fname)
        phis = loopcut.header_phis(cut.fn, cut.header)
        lay = prog.layout(fn.module)
        iphi = [ph for ph in phis if lay.resolve(ph.ty).bits in (32, 64)]
        bphi = [ph for ph in phis if lay.resolve(ph.ty).bits in (1, 8)]
        if len(iphi) != 1 or len(bphi) != 1 or len(phis) != 2:
            raise Inconclusive("unexpected loop-carried registers in exponentiate_restrict: %r" % [(ph.res, ph.ty) for ph in phis])
        ibits = lay.resolve(iphi[0].ty).bits
        E = z3.Int("E")
        Iv = z3.BitVec("i", ibits)
        found = z3.Bool("found")
        bit = z3.Bool("bit")
        hdr = cut.fn.blocks[cut.header]
        first_use = [ins for ins in hdr if ins.op != "phi"][0]
        count_form = (first_use.op == "add" and any(getattr(a_, "name", None) == iphi[0].res for a_ in first_use.args))
        off = 1 if count_form else 0
        Ix = Iv - off
        I.assumptions = [z3.ULE(Ix, N - 1), z3.UGE(Iv, off), z3.Implies(z3.Not(found), E == 0)]
        state = {}

        def h_bit(I_, n, a, s, state=state):
            state.setdefault("pos", []).append(a[1])
            if a[0].obj is not state["power"]:
                raise Violation("exponentiate<%s>:bit-source" % fld, "exponentiate_restrict tests a bit of something other than the exponent", {})
            return bit
        I.add_intercept(NS + r"BigInt<%d>::bit\(int\) const" % N, h_bit, "bit")

        def on_entry(regs, state=state):
            state["entry"] = (regs[iphi[0].res], regs[bphi[0].res], rd(Ptr(state["res"], 0)))

        def havoc(regs, state=state):
            regs[iphi[0].res] = Iv
            regs[bphi[0].res] = z3.If(found, z3.BitVecVal(1, 8), z3.BitVecVal(0, 8)) if lay.resolve(bphi[0].ty).bits == 8 else found
            wr(Ptr(state["res"], 0), E)
        cut.on_entry, cut.havoc = on_entry, havoc

        def once(state=state):
            cut.reset()
            state.clear()
            res = Obj("res", size, "arg", 16)
            a = Obj("a", size, "arg", 16, True)
            a.cells[0] = (size, PowE(1))
            po = Obj("power", psize, "arg", 16, True)
            state["res"], state["power"] = res, po
            try:
                I.call_named(fname, [Ptr(res, 0), Ptr(a, 0), Ptr(po, 0)])
                return "exit", None
            except eir.LoopCut as lc:
                return "cut", lc.regs
        kinds = set()
        for path, (kind, regs) in I.explore(once, 64):
            npaths += 1
            kinds.add(kind)
            ei, ef, ee = state["entry"]
            En = rd(Ptr(state["res"], 0))
            En = z3.IntVal(En) if isinstance(En, int) else En
            pc = list(I.assumptions) + list(path.pc)
            s = z3.Solver()
            for c_ in pc:
                s.add(c_)
            pos_ok = z3.And(*[eir.as_bv(q_, 32) == (z3.Extract(31, 0, Ix) if ibits > 32 else Ix) for q_ in state.get("pos", [])] + [z3.BoolVal(len(state.get("pos", [])) == 1)])
            vcs = [("entry", z3.And(eir.as_bv(ei, ibits) == N - 1 + off, (eir.as_bv(ef, 8) == 0) if not isinstance(ef, z3.BoolRef) else z3.Not(ef), (z3.IntVal(ee) if isinstance(ee, int) else ee) == 0),
                    "loop entered with (index, found, acc) other than (bits-1, false, one)"),
                   ("accumulate", En == 2 * E + z3.If(bit, 1, 0), "one iteration does not give E' = 2E + bit"), ("bit-position", pos_ok, "the exponent bit tested is not the one at the loop index")]
            if kind == "cut":
                nf = regs[bphi[0].res]
                nfb = eir.as_bv(nf, 8) != 0 if not isinstance(nf, z3.BoolRef) else nf
                vcs += [("index", eir.as_bv(regs[iphi[0].res], ibits) == Iv - 1, "index not decremented"), ("flag", nfb == z3.Or(found, bit), "found flag wrong"),
                        ("invariant", z3.Implies(z3.Not(nfb), En == 0), "invariant not preserved"), ("continues", Ix != 0, "loop continues past bit 0")]
            else:
                vcs.append(("exit", Ix == 0, "loop left before bit 0"))
            for nm, g, msg in vcs:
                s.push()
                s.add(z3.Not(g))
                r = s.check()
                nq += 1
                s.pop()
                if r == z3.unknown:
                    raise Inconclusive("solver unknown on " + nm)
                if r == z3.sat:
                    raise Violation("exponentiate<%s>:%s" % (fld, nm), "exponentiate_restrict<%s>, one loop iteration: %s" % (fld, msg), {})
        if kinds != {"cut", "exit"}:
            raise Inconclusive("loop cut saw only %r" % kinds)
    return {"queries": nq, "paths": npaths, "functions": [prog.demangled[c_][:100] for c_ in cands], "sample": "one inductive step per instantiation (%d), %d paths" % (len(cands), npaths)}


def ob_exponent_users(fld):
    """exponentiate = exponentiate_restrict into a temporary then copy; legendre uses (p-1)/2 and maps {0, 1, other}; Fq::square_root uses (q+1)/4"""
    N, p, C = FLD[fld]
    prog = c02.prog_for("A")
    size = N // 8
    fns = []
    # exponentiate wrapper
    for fname in sorted(n for n in prog.find(r"void " + NS + r"exponentiate<" + C + r", " + NS + r"BigInt<%d> ?>\(.*\)" % N) if not prog.fn[n].is_decl):
        I = eir.Interp(prog)
        calls = []
        I.add_intercept(r"void " + NS + r"exponentiate_restrict<.*\)", lambda I_, n, a, s: calls.append(("restrict", list(a))), "exponentiate_restrict")
        I.add_intercept(C + r"::copy\(.*\)", lambda I_, n, a, s: calls.append(("copy", list(a))), "copy")
        args = [Ptr(Obj("arg%d" % i, size, "arg", 16), 0) for i in range(3)]
        I.call_named(fname, list(args))
        fns.append(prog.demangled[fname][:90])
        ok = (len(calls) == 2 and calls[0][0] == "restrict" and calls[0][1][0].obj.kind == "alloca" and calls[0][1][1].obj is args[1].obj and calls[0][1][2].obj is args[2].obj
              and calls[1][0] == "copy" and calls[1][1][0].obj is args[0].obj and calls[1][1][1].obj is calls[0][1][0].obj)
        if not ok:
            raise Violation("exponentiate<%s>:wrapper" % fld, "exponentiate is not exponentiate_restrict into a temporary followed by a copy", {})
    # legendre
    lname = [n for n in prog.find(C + r"::legendre\(\) const") if not prog.fn[n].is_decl]
    if len(lname) != 1:
        raise Inconclusive("legendre<%s>: %d definitions" % (fld, len(lname)))
    I = eir.Interp(prog)
    c02.asm_specs(I)
    seen = {}
    zf, of = z3.Bool("result_is_zero"), z3.Bool("result_is_one")

    def h_exp(I_, n, a, s):
        seen["power"] = I_.load_bytes(a[2].obj, a[2].off, size)
        seen["base"] = a[1]
        seen["dst"] = a[0]
    I.add_intercept(r"void " + NS + r"exponentiate<.*\)", h_exp, "exponentiate")
    I.add_intercept(C + r"::is_zero\(\) const", lambda I_, n, a, s: zf if a[0].obj is seen["dst"].obj else eir.simp(z3.BoolVal(False)), "is_zero")
    I.add_intercept(C + r"::is_one\(\) const", lambda I_, n, a, s: of, "is_one")
    this = Obj("this", size, "arg", 16, True)
    outs = []

    def once():
        return I.call_named(lname[0], [Ptr(this, 0)])
    for path, ret in I.explore(once, 8):
        outs.append((list(path.pc), ret))
    fns.append(prog.demangled[lname[0]][:90])
    if seen.get("power") != (p - 1) // 2 or seen["base"].obj is not this:
        raise Violation("legendre<%s>:exponent" % fld, "legendre raises to %r instead of (p-1)/2, or not the element itself" % (seen.get("power"),), {})
    s = z3.Solver()
    for pc, ret in outs:
        rv = eir.as_bv(ret, 32)
        s.push()
        for c_ in pc:
            s.add(c_)
        s.add(z3.Not(rv == z3.If(zf, z3.BitVecVal(0, 32), z3.If(of, z3.BitVecVal(1, 32), z3.BitVecVal(0xffffffff, 32)))))
        if s.check() != z3.unsat:
            raise Violation("legendre<%s>:mapping" % fld, "legendre does not map {0 -> 0, 1 -> 1, otherwise -1}", {})
        s.pop()
    if fld == "Fq":
        sname = prog.find1(B + r"Fq::square_root\(.*\)")
        I = eir.Interp(prog)
        seen2 = {}
        I.add_intercept(r"void " + NS + r"exponentiate(?:_restrict)?<.*\)", lambda I_, n, a, s: seen2.update(power=I_.load_bytes(a[2].obj, a[2].off, size), args=list(a)), "exponentiate")
        out, a = Obj("out", size, "arg", 16), Obj("a", size, "arg", 16, True)
        I.call_named(sname, [Ptr(out, 0), Ptr(a, 0)])
        fns.append(prog.demangled[sname][:60])
        if seen2.get("power") != (p + 1) // 4 or seen2["args"][0].obj is not out or seen2["args"][1].obj is not a or p % 4 != 3:
            raise Violation("Fq::square_root:exponent", "Fq::square_root does not compute a^((q+1)/4) into the output", {"power": hex(seen2.get("power") or 0)})
    return {"queries": len(outs) + 2, "paths": len(outs) + 2, "functions": fns, "sample": "wrapper, legendre exponent (p-1)/2 and mapping%s" % (", square_root exponent (q+1)/4" if fld == "Fq" else "")}


def ob_exponentiate_runs(fld, prog=None):
    """whole runs of exponentiate_restrict<F, BigInt<N>> in the exponent model (multiply adds exponents, square doubles them) for boundary and seeded
    exponents: 0, 1, 2, 2^(N-1), 2^N - 1, single bits at limb boundaries, random.  The inductive step (loops:exponentiate_restrict) covers every
    exponent for the loop as written; these runs also decide variants whose loop has another shape (early exits, lazily initialised accumulator)."""
    import random
    N, p, C = FLD[fld]
    prog = prog or c02.prog_for("A")
    cands = sorted(n for n in prog.find(r"void " + NS + r"exponentiate_restrict<" + C + r", " + NS + r"BigInt<%d> ?>\(.*\)" % N) if not prog.fn[n].is_decl)
    if not cands:
        raise Inconclusive("exponentiate_restrict<%s>: no definition" % fld)
    size = ELEM_SIZE[fld]
    rng = random.Random(3)
    ks = [0, 1, 2, 3, 1 << (N - 1), (1 << N) - 1, 1 << 63, 1 << 64, (1 << 64) + 1, (1 << 128) - 1] + [rng.getrandbits(N) for _ in range(3)] + [rng.getrandbits(17)]
    for fname in cands:
        for k in ks:
            I = eir.Interp(prog)

            def rd(ptr):
                c = ptr.obj.cells.get(ptr.off)
                if c is not None and isinstance(c[1], PowE):
                    return c[1].e
                if ptr.obj.kind == "global" and ptr.obj.name.endswith("3oneE"):
                    return 0
                raise ExecError("abstract-bytes", "power cell expected at %r" % (ptr,))

            def wr(ptr, e, I=I):
                I._check_access(ptr, size, 1, True)
                I.store_cell(ptr.obj, ptr.off, size, PowE(e))
            I.add_intercept(C + r"::multiply\(.*\)", lambda I_, n, a, s, wr=wr, rd=rd: wr(a[0], rd(a[1]) + rd(a[2])), "multiply")
            I.add_intercept(C + r"::square\(.*\)", lambda I_, n, a, s, wr=wr, rd=rd: wr(a[0], 2 * rd(a[1])), "square")
            I.add_intercept(C + r"::copy\(.*\)", lambda I_, n, a, s, wr=wr, rd=rd: wr(a[0], rd(a[1])), "copy")
            res = Obj("res", size, "arg", 16)
            a = Obj("a", size, "arg", 16, True)
            a.cells[0] = (size, PowE(1))
            po = Obj("power", N // 8, "arg", 16, True)

            def h_bit(I_, n, a_, s, k=k, po=po):
                if a_[0].obj is not po or not is_conc(a_[1]):
                    raise ExecError("unsupported", "bit test outside the exponent")
                pos = a_[1] if a_[1] < (1 << 31) else a_[1] - (1 << 32)
                return int(0 <= pos < N and (k >> pos) & 1)
            I.add_intercept(NS + r"BigInt<%d>::bit\(int\) const" % N, h_bit, "bit")
            I.call_named(fname, [Ptr(res, 0), Ptr(a, 0), Ptr(po, 0)])
            c = res.cells.get(0)
            if c is None or not isinstance(c[1], PowE):
                raise Violation("exponentiate<%s>:run:unwritten" % fld, "exponentiate_restrict<%s> does not write its result for the exponent %#x" % (fld, k), {"exponent": hex(k)})
            if c[1].e != k:
                raise Violation("exponentiate<%s>:run" % fld, "exponentiate_restrict<%s> returns a^%#x for the exponent %#x" % (fld, c[1].e, k), {"exponent": hex(k)})
    return {"queries": len(ks) * len(cands), "paths": len(ks) * len(cands), "functions": [prog.demangled[f][:110] for f in cands],
            "sample": "%d whole runs per instantiation: result = a^k exactly (exponent arithmetic over the integers)" % len(ks)}


def register(chk):
    for fld in ("Fq", "Fr"):
        chk.add("loops:fp_inverse<%s>" % fld, ob_fp_inverse, fld)
        chk.add("loops:exponentiate_restrict<%s>" % fld, ob_exponentiate_loop, fld)
        chk.add("loops:exponentiate_restrict<%s>:whole-runs" % fld, ob_exponentiate_runs, fld)
        chk.add("loops:exponent-users<%s>" % fld, ob_exponent_users, fld)
