"""C18, word and prime-field layers: output aliasing an input gives the same result (DESIGN.md section 5, C18).

 shifts      BigInt<N>::shift_left / shift_right (no operand is __restrict): the function is executed twice over bit-vectors, once with a distinct
             output object and once with the output being the input object, for a symbolic shift amount (word offset enumerated, bit offset symbolic);
             z3 decides that result and returned word agree for all operand values.
 exponent    core::exponentiate<F, BigInt> (the alias-safe wrapper) and the methods built on it (Fq::square_root, ...) with out == a, over uninterpreted
             field multiplication/squaring: the value stored in the output is the same uninterpreted term as with a distinct output, and no
             __restrict parameter receives the written object (interpreter assertion) - this is what separates exponentiate from exponentiate_restrict.
 inverse     fp_inverse<Fq|Fr>(res, a) with res == a: hazard freedom decided by z3's fixed-point engine over the function's control-flow graph -
             no instruction that may write through `res` reaches an instruction that may read through `a`.
(add / subtract / double / negate with res == a at the word and FpBase layers are obligations of C02/C03.)
"""
import sys
import os
sys.path.insert(0, os.path.dirname(os.path.dirname(os.path.abspath(__file__))))
sys.path.insert(0, os.path.dirname(os.path.abspath(__file__)))

import z3
from engine import build, eir, loopcut
from engine import irparse as ir
from engine.eir import Ptr, Obj, is_conc, ExecError, MemViolation
from engine.framework import Violation, Inconclusive
import c02

NS = "embedded_pairing::core::"
B = "embedded_pairing::bls12_381::"


def ob_shift(cfg, N, direction, wo):
    prog = c02.prog_for(cfg)
    fname = prog.find1(NS + r"BigInt<%d>::shift_%s\(.*\)" % (N, direction))
    a = z3.BitVec("a", N)
    wbits = 32 if cfg == "P32" else 64
    lg = 5 if cfg == "P32" else 6
    bo_n = z3.BitVec("bit_offset", lg)
    bo = z3.ZeroExt(32 - lg, bo_n)
    amt = z3.Concat(z3.BitVecVal(wo, 32 - lg), bo_n)          # amount = word_offset * wbits + bit_offset, word offset concrete
    results = {}
    for alias in (False, True):
        I = eir.Interp(prog)
        I.solver.set("timeout", 120000)
        I.assumptions = [z3.ULT(bo, wbits)]

        def once():
            oa = c02.bv_obj("a", N, a)
            ores = oa if alias else Obj("res", N // 8, "arg", 16)
            if not alias:
                oa.const = True
            ret = I.call_named(fname, [Ptr(ores, 0), Ptr(oa, 0), eir.simp(amt)])
            return c02.read_bv(I, ores, N), ret
        outs = []
        for path, (val, ret) in I.explore(once, 64):
            outs.append((list(path.pc), val, ret))
        results[alias] = (outs, I)
    # combine: for each pair of paths (distinct, alias) whose conditions are jointly satisfiable the results must agree
    nq = 0
    s = z3.Solver()
    s.set("timeout", 120000)
    s.add(z3.ULT(bo, wbits))
    # the distinct-output result is the shifted integer (this also pins which of the two results is the right one)
    amt_n = z3.ZeroExt(N - 32, amt)
    want = z3.LShR(a, amt_n) if direction == "right" else a << amt_n
    for pc1, v1, r1 in results[False][0]:
        s.push()
        for c in pc1:
            s.add(c)
        s.add(eir.as_bv(v1, N) != want)
        r = s.check()
        nq += 1
        if r == z3.sat:
            m = s.model()
            av = m.eval(a, model_completion=True).as_long()
            bv_ = m.eval(bo, model_completion=True).as_long()
            s.pop()
            raise Violation("BigInt<%d>::shift_%s:%s:word-offset=%d:value" % (N, direction, cfg, wo),
                            "BigInt<%d>::shift_%s(a, %d) into a distinct output is not a %s %d" % (N, direction, bv_ + wbits * wo, ">>" if direction == "right" else "<<", bv_ + wbits * wo),
                            {"kernel": "bigint_%d_shift_%s" % (N, direction), "backend": cfg, "a": hex(av), "amount": bv_ + wbits * wo,
                             "distinct": hex(m.eval(eir.as_bv(v1, N), model_completion=True).as_long())})
        s.pop()
        if r == z3.unknown:
            raise Inconclusive("solver unknown comparing the shift result with the shifted integer")
    for pc1, v1, r1 in results[False][0]:
        for pc2, v2, r2 in results[True][0]:
            s.push()
            for c in pc1 + pc2:
                s.add(c)
            rw = lambda r: eir.as_bv(r, wbits) if not isinstance(r, z3.BoolRef) else r
            s.add(z3.Or(eir.as_bv(v1, N) != eir.as_bv(v2, N), rw(r1) != rw(r2)))
            r = s.check()
            nq += 1
            if r == z3.sat:
                m = s.model()
                av = m.eval(a, model_completion=True).as_long()
                bv_ = m.eval(bo, model_completion=True).as_long()
                s.pop()
                raise Violation("BigInt<%d>::shift_%s:%s:word-offset=%d" % (N, direction, cfg, wo),
                                "BigInt<%d>::shift_%s(a, %d) with the output object being `a` differs from the result with a distinct output" % (N, direction, bv_ + wbits * wo),
                                {"kernel": "bigint_%d_shift_%s" % (N, direction), "backend": cfg, "a": hex(av), "amount": bv_ + wbits * wo,
                                 "distinct": hex(m.eval(eir.as_bv(v1, N), model_completion=True).as_long()), "aliased": hex(m.eval(eir.as_bv(v2, N), model_completion=True).as_long())})
            s.pop()
            if r == z3.unknown:
                raise Inconclusive("solver unknown comparing aliased and distinct shift results")
    return {"queries": nq, "paths": len(results[False][0]) + len(results[True][0]), "functions": [c02.cname(prog, fname)],
            "sample": "distinct vs aliased output, word offset %d, all bit offsets and operands" % wo}


# ---------------------------------------------------------------------------------------------------------------
class UF:
    """field elements as terms of an uninterpreted sort"""

    def __init__(self):
        self.S = z3.DeclareSort("F")
        self.mul = z3.Function("mulF", self.S, self.S, self.S)
        self.sq = z3.Function("sqF", self.S, self.S)
        self.one = z3.Const("oneF", self.S)


FP_RX = {"Fq": (r"(?:%sFp<384,[^>]*fq_modulus_var[^>]*>|%sFq)" % (NS, B), 48), "Fr": (r"(?:%sFp<256,[^>]*fr_modulus_var[^>]*>|%sFr)" % (NS, B), 32)}


def install_uf_field(I, U, fld):
    C, size = FP_RX[fld]

    def rd(p):
        I._check_access(p, size, 1, False)
        c = p.obj.cells.get(p.off)
        if c is not None and z3.is_expr(c[1]) and c[1].sort() == U.S:
            return c[1]
        if p.obj.kind == "global" and p.obj.name.endswith("3oneE"):
            return U.one
        raise ExecError("abstract-bytes", "field term expected at %r" % (p,))

    def wr(p, v):
        I._check_access(p, size, 1, True)
        I.store_cell(p.obj, p.off, size, v)
    I.add_intercept(C + r"::multiply\(.*\)", lambda I_, n, a, s: wr(a[0], U.mul(rd(a[1]), rd(a[2]))), fld + "::multiply")
    I.add_intercept(C + r"::square\(.*\)", lambda I_, n, a, s: wr(a[0], U.sq(rd(a[1]))), fld + "::square")
    I.add_intercept(C + r"::copy\(.*\)", lambda I_, n, a, s: wr(a[0], rd(a[1])), fld + "::copy")
    return rd, wr, size


def ob_exponent_alias(fld, label, rx, exponent_const=None, _depth=0):
    """label: human name; rx: regex of the function (res, a[, power]); run with out distinct and out == a, compare the uninterpreted result terms"""
    prog = c02.prog_for("A")          # inst_core.cpp instantiates the wrappers explicitly; fq.cpp / fr.cpp are part of it
    cands = sorted(n for n in prog.find(rx) if not prog.fn[n].is_decl)
    if not cands:
        raise Inconclusive("%s: no definition" % label)
    if len(cands) > 1 and _depth == 0:
        # several instantiations (F = Fp<...> and F = the derived class): every one is checked
        out = None
        for c_ in cands:
            out = ob_exponent_alias(fld, label, "(?:" + "|".join(__import__("re").escape(prog.demangled[c_]) for _ in [0]) + ")", exponent_const, 1)
        return out
    fname = cands[0]
    nparams = len(prog.fn[fname].params)
    U = UF()
    a = z3.Const("a", U.S)
    vals = {}
    hits = {}
    for alias in (False, True):
        I = eir.Interp(prog)
        rd, wr, size = install_uf_field(I, U, fld)
        oa = Obj("a", size, "arg", 16)
        oa.cells[0] = (size, a)
        ores = oa if alias else Obj("res", size, "arg", 16)
        args = [Ptr(ores, 0), Ptr(oa, 0)]
        if nparams == 3:
            bits = size * 8
            e = exponent_const if exponent_const is not None else 0xb5
            po = Obj("power", size, "arg", 16, True)
            for k in range(size // 8):
                po.cells[8 * k] = (8, (e >> (64 * k)) & ((1 << 64) - 1))
            args.append(Ptr(po, 0))
        try:
            I.call_named(fname, args)
        except MemViolation as mv:
            raise Violation("%s:out=a:%s" % (label, mv.kind), "%s with the output object being the input: %s" % (label, mv), {"function": label, "alias": alias})
        vals[alias] = rd(Ptr(ores, 0))
        hits[alias] = dict(I.intercept_hits)
    s = z3.Solver()
    s.add(vals[False] != vals[True])
    if s.check() != z3.unsat:
        raise Violation("%s:out=a:value" % label, "%s returns a different value when the output object is the input object" % label, {"function": label})
    if not hits[True]:
        raise Inconclusive("no field operation was reached")
    return {"queries": 1, "paths": 2, "functions": [prog.demangled[fname][:110]], "sample": "%s: %d multiplications/squarings, aliased == distinct" % (label, sum(hits[True].values()))}


# ---------------------------------------------------------------------------------------------------------------
def ob_hazard(fld):
    """fp_inverse<F>(res, a) with res == a: no write through `res` can be followed by a read through `a` (fixed-point reachability over the CFG)"""
    prog = c02.prog_for("A")
    cands = [n for n in prog.find(r"void " + NS + r"fp_inverse<" + B + fld + r">\(.*\)") if not prog.fn[n].is_decl]
    if len(cands) != 1:
        raise Inconclusive("fp_inverse<%s>: %d definitions" % (fld, len(cands)))
    fn = prog.fn[cands[0]]
    res_name, a_name = fn.params[0].name, fn.params[1].name
    # pointer provenance inside the function: registers derived from a parameter by gep/bitcast/phi/select
    derived = {res_name: {"res"}, a_name: {"a"}}
    changed = True
    while changed:
        changed = False
        for lab in fn.order:
            for ins in fn.blocks[lab]:
                if ins.res is None:
                    continue
                srcs = []
                if ins.op in ("getelementptr",):
                    srcs = [ins.args[0][1]]
                elif ins.op in ("bitcast",):
                    srcs = [ins.args[0]]
                elif ins.op == "phi":
                    srcs = [v for v, _ in ins.args]
                elif ins.op == "select":
                    srcs = [ins.args[1], ins.args[2]]
                tags = set()
                for v in srcs:
                    if isinstance(v, ir.Reg) and v.name in derived:
                        tags |= derived[v.name]
                if tags and not tags <= derived.get(ins.res, set()):
                    derived.setdefault(ins.res, set()).update(tags)
                    changed = True
    # instruction nodes
    nodes = []
    index = {}
    for lab in fn.order:
        for k, ins in enumerate(fn.blocks[lab]):
            index[(lab, k)] = len(nodes)
            nodes.append((lab, k, ins))

    def tags_of(v):
        return derived.get(v.name, set()) if isinstance(v, ir.Reg) else set()
    writes, reads = [], []
    for i, (lab, k, ins) in enumerate(nodes):
        if ins.op == "store":
            if "res" in tags_of(ins.args[1]):
                writes.append(i)
        elif ins.op == "load":
            if "a" in tags_of(ins.args[0]):
                reads.append(i)
        elif ins.op == "call":
            callee = ins.extra.name if isinstance(ins.extra, ir.GlobalRef) else None
            cf = prog.fn.get(callee) if callee else None
            for j, (at, av, attrs) in enumerate(ins.args):
                tg = tags_of(av)
                if not tg:
                    continue
                ro = False
                if cf is not None and j < len(cf.params):
                    ro = bool(cf.params[j].attrs.get("readonly")) or bool(cf.params[j].attrs.get("readnone"))
                d = prog.demangled.get(callee, callee or "")
                if j == 0 and d.rstrip().endswith("const"):
                    ro = True
                if callee and callee.startswith("llvm.lifetime"):
                    continue
                if "a" in tg:
                    reads.append(i)
                if "res" in tg and not ro:
                    writes.append(i)
    fp = z3.Fixedpoint()
    fp.set(engine="datalog")
    NS_ = z3.BitVecSort(16)
    succ = z3.Function("succ", NS_, NS_, z3.BoolSort())
    reach = z3.Function("reach", NS_, NS_, z3.BoolSort())
    wr_ = z3.Function("writes_res", NS_, z3.BoolSort())
    rd_ = z3.Function("reads_a", NS_, z3.BoolSort())
    hz = z3.Function("hazard", z3.BoolSort())
    for f in (succ, reach, wr_, rd_, hz):
        fp.register_relation(f)
    x, y, z = z3.Consts("x y z", NS_)
    fp.declare_var(x, y, z)
    fp.rule(reach(x, y), succ(x, y))
    fp.rule(reach(x, z), [reach(x, y), succ(y, z)])
    fp.rule(hz(), [wr_(x), rd_(y), reach(x, y)])
    nv = lambda i: z3.BitVecVal(i, 16)
    for (lab, k, ins) in nodes:
        i = index[(lab, k)]
        if k + 1 < len(fn.blocks[lab]):
            fp.fact(succ(nv(i), nv(index[(lab, k + 1)])))
        else:
            for t in loopcut.successors(fn, lab):
                fp.fact(succ(nv(i), nv(index[(t, 0)])))
    for i in writes:
        fp.fact(wr_(nv(i)))
    for i in reads:
        fp.fact(rd_(nv(i)))
    if not writes or not reads:
        raise Inconclusive("fp_inverse<%s>: found %d writes through res and %d reads through a" % (fld, len(writes), len(reads)))
    r = fp.query(hz())
    if r == z3.sat:
        raise Violation("fp_inverse<%s>:out=a:hazard" % fld, "fp_inverse<%s>(res, a): a write through res can be followed by a read through a - res == a is not safe" % fld,
                        {"writes": [nodes[i][2].text[:80] for i in writes[:3]], "reads": [nodes[i][2].text[:80] for i in reads[:3]]})
    if r != z3.unsat:
        raise Inconclusive("fixed-point engine returned %r" % r)
    return {"queries": 1, "paths": 0, "functions": [prog.demangled[cands[0]][:90]],
            "sample": "%d instructions, %d writes through res, %d reads through a: no write reaches a read (datalog reachability)" % (len(nodes), len(writes), len(reads))}


def register(chk):
    # every width the library instantiates (128, 192, 256, 384, 512, 768): the word counts 2, 3, 4, 6, 8, 12 include an odd one and the
    # 768-bit in-place shift of the GLV rounding
    for cfg, N in (("A", 256), ("P64", 384), ("A", 192), ("A", 128), ("A", 768), ("P64", 192)) + \
            ((("P32", 384), ("P32", 192), ("A", 512), ("A", 384), ("P64", 768)) if chk.tier == "thorough" else ()):
        wbits = 32 if cfg == "P32" else 64
        for d in ("left", "right"):
            for wo in range(N // wbits):
                chk.add("%s:BigInt<%d>::shift_%s:out=a:word-offset=%d" % (cfg, N, d, wo), ob_shift, cfg, N, d, wo)
    QP14 = (0x1a0111ea397fe69a4b1ba7b6434bacd764774b84f38512bf6730d2a0f6b0f6241eabfffeb153ffffb9feffffffffaaab - 3) // 4 + 1
    chk.add("Fq:exponentiate:out=a", ob_exponent_alias, "Fq", "exponentiate<Fq, BigInt<384>>", r"void " + NS + r"exponentiate<" + FP_RX["Fq"][0] + r", " + NS + r"BigInt<384> ?>\(.*\)", 0xb5c3)
    chk.add("Fq::square_root:out=a", ob_exponent_alias, "Fq", "Fq::square_root", B + r"Fq::square_root\(.*\)")
    chk.add("Fr:exponentiate:out=a", ob_exponent_alias, "Fr", "exponentiate<Fr, BigInt<256>>", r"void " + NS + r"exponentiate<" + FP_RX["Fr"][0] + r", " + NS + r"BigInt<256> ?>\(.*\)", 0xb5c3)
    chk.add("Fq:fp_inverse:out=a", ob_hazard, "Fq")
    chk.add("Fr:fp_inverse:out=a", ob_hazard, "Fr")
