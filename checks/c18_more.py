"""C18, layers above the tower and the group law: scalar multiplication, the G1/G2 endomorphisms, the target-group routines, the final
exponentiation and affine negation, each with the output object being the input object.

  differential (D-RING): G1::endomorphism, G2::frobenius_map(.,1), Affine::negate (G1, G2) are executed twice from the IR over free field
      indeterminates - output distinct / output == input - and every coordinate of the two results is compared as a polynomial identity mod q
  loop obligations re-run with result == base: G1::multiply_endomorphism (inductive step), G2::multiply_frobenius (inductive step, four digit
      cases), the w-NAF / double-and-add wrappers (table and digits completed in locals before the result is written; private copy of the base),
      Fq12::exponentiate_gt (bases and inductive step), Fq12::square_cyclotomic, Fq12::map_to_cyclotomic (C04), final_exponentiation (C01)
Everything is decided for all operand values; shapes as in the obligations reused (C06, C07, C04, C01).
"""
import sys
import os
sys.path.insert(0, os.path.dirname(os.path.dirname(os.path.abspath(__file__))))
sys.path.insert(0, os.path.dirname(os.path.abspath(__file__)))

from engine import build, eir, irparse
from engine.eir import Ptr, is_conc
from engine.framework import Violation, Inconclusive
from engine.harness import TowerHarness
from engine.tower import SIZES

B = "embedded_pairing::bls12_381::"
_PROG = {}


def prog():
    if "p" not in _PROG:
        import c06_loops
        _PROG["p"] = c06_loops.prog()
    return _PROG["p"]


def ob_struct_alias(label, fn_rx, k, ncoord, extra=(), flag_off=None):
    """run the function with a distinct output and with output == input; compare coordinate by coordinate (and the trailing flag byte)"""
    P = prog()
    H = TowerHarness(P, 0, tuple(range(0, k + 1)), 60000)
    T, tm = H.T, H.tm
    fname = H.fn(fn_rx)
    S = SIZES[k]
    size = (ncoord * S + (16 if flag_off is not None else 0))
    vals = [T.var(k, "a%d" % i) for i in range(ncoord)]
    flag = 0
    results = {}
    for alias in (False, True):
        def make_args(alias=alias):
            o = H.I.new_obj("a", size, "arg", 16)
            for i, v in enumerate(vals):
                tm.write(Ptr(o, i * S), k, v)
            if flag_off is not None:
                o.cells[flag_off] = (1, flag)
            oo = o if alias else H.I.new_obj("out", size, "arg", 16)
            if not alias:
                o.const = True

            def rb():
                return [tm.read(Ptr(oo, i * S), k) for i in range(ncoord)], (H.I.load_bytes(oo, flag_off, 1) if flag_off is not None else None)
            return [Ptr(oo, 0), Ptr(o, 0)] + list(extra), rb
        res = H.run(fname, make_args)
        if len(res) != 1:
            raise Inconclusive("%s: %d paths (expected straight-line code)" % (label, len(res)))
        results[alias] = res[0][2]
    (c0, f0), (c1, f1) = results[False], results[True]
    for i in range(ncoord):
        ok, idx, mdl = T.equal(k, c0[i], c1[i], "%s coordinate %d" % (label, i))
        if not ok:
            raise Violation("alias:%s" % label, "%s: coordinate %d of the result differs when the output object is the input object" % (label, i),
                            H.counterexample(mdl, {"coordinate": i}))
    if flag_off is not None and not (is_conc(f0) and is_conc(f1) and f0 == f1):
        raise Violation("alias:%s" % label, "%s: the flag byte of the result differs when the output object is the input object" % label, {})
    return dict(H.stats(), paths=2, sample="%s: out == a and out distinct give the same %d coordinates as polynomials over the input's indeterminates" % (label, ncoord))


def register(chk, heavy=True):
    import c06_loops
    import c07
    import c04_more
    import c01
    # build every program once in the parent: the workers are forked and inherit them (no concurrent compilation into the same directory)
    c06_loops.prog()
    c07.prog()
    c04_more.prog()
    c01.prog()
    chk.add("G1::endomorphism:out=a", ob_struct_alias, "G1::endomorphism", B + r"G1::endomorphism\(.*\)", 0, 3)
    chk.add("G2::frobenius_map:out=a", ob_struct_alias, "G2::frobenius_map(.,1)", B + r"G2::frobenius_map\(.*\)", 1, 3, (1,))
    chk.add("G1Affine::negate:out=a", ob_struct_alias, "G1Affine::negate", B + r"Affine<" + B + r"Fq, .*>::negate\(.*\)", 0, 2, (), 96)
    chk.add("G2Affine::negate:out=a", ob_struct_alias, "G2Affine::negate", B + r"Affine<" + B + r"Fq2, .*>::negate\(.*\)", 1, 2, (), 192)
    if heavy:
        chk.add("G1::multiply_endomorphism:out=a", c06_loops.ob_endomorphism_loop, True)
        for case in ("out", "zero", "pos", "neg"):
            chk.add("G2::multiply_frobenius:out=a:first-digit-%s" % case, c06_loops.ob_frobenius_loop, case, True)
    chk.add("wnaf/doubleadd wrappers:out=base", c06_loops.ob_compose, True)
    chk.add("Fq12::exponentiate_gt:bases:out=a", c07.ob_gt_bases, True)
    chk.add("Fq12::exponentiate_gt:loop:out=a", c07.ob_gt_loop, True)
    chk.add("Fq12::exponentiate_gt:whole-runs:out=a", c07.ob_gt_concrete, True)
    chk.add("Fq12::square_cyclotomic:out=a", c04_more.ob_square_cyclotomic, True)
    chk.add("Fq12::map_to_cyclotomic:out=a", c04_more.ob_map_to_cyclotomic)
    chk.add("final_exponentiation:out=a", c01.ob_final_exponent, True)
