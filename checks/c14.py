"""C14 - WKD-IBE incremental and precomputed paths equal recomputation from scratch (DESIGN.md section 5, C14).

  adjust_precomputed(precompute(from), from -> to) = precompute(to)           for every ordered pair of list shapes, all 256-bit ids
  adjust_nondelegable(nondelegable_qualifykey(parent, from), parent, from -> to) = nondelegable_qualifykey(parent, to)
                                                                               component for component (a0, a1, bsig, slot list, count),
                                                                               for an arbitrary well-formed parent key
  chains: adjusting from -> mid -> to equals adjusting from -> to (follows from the two statements above: each adjustment lands exactly
          on the from-scratch value, checked explicitly for the precomputed product)
  encrypt / sign / verify through a precomputed product = their direct forms (same randomness), resamplekey uses the product likewise
Slot shapes are enumerated (l <= 3 quick / 4 thorough); ids, randomness, keys are symbolic.
"""
import sys
import os
import itertools
sys.path.insert(0, os.path.dirname(os.path.dirname(os.path.abspath(__file__))))
sys.path.insert(0, os.path.dirname(os.path.abspath(__file__)))

import z3
import wkd
from wkd import World
from c11 import new_pattern, run_paths, stats
from engine import eir
from engine.dom_grp import Poly, GE, SV
from engine.eir import Ptr, Obj, is_conc
from engine.framework import Check, Violation, Inconclusive


def enc_entries(W, shape, tag):
    """encryption-side list: shape per slot in {absent, value, marked}.  `marked` = a value whose entry also carries the omitFromKeys marker: the marker
    concerns key derivation only; precompute, adjust_precomputed, encrypt, sign and verify use the value all the same (and must do so consistently)"""
    ent = []
    for i, s in enumerate(shape):
        if s == "value":
            ent.append((i, W.G.ivar("%s%d" % (tag, i))))
        elif s == "marked":
            ent.append((i, W.G.ivar("%s%d" % (tag, i)), True))
    return ent


def ob_adjust_precomputed(l, fshape, tshape):
    W = World(l, False)
    fe, te = enc_entries(W, fshape, "f"), enc_entries(W, tshape, "t")
    fname = W.fn("adjust_precomputed")
    key = "adjust_precomputed:from=%s:to=%s" % (",".join(fshape) or "-", ",".join(tshape) or "-")
    ce = {"l": l, "from": list(fshape), "to": list(tshape)}

    def once():
        pre = Obj("precomputed", 144, "arg", 16)
        W.I.store_cell(pre, 0, 144, GE("G1", W.attr_product({e[0]: e[1] for e in fe})))
        W.I.call_named(fname, [Ptr(pre, 0), Ptr(W.params_obj(), 0), Ptr(W.attrlist_obj(fe, False, "from"), 0), Ptr(W.attrlist_obj(te, False, "to"), 0)])
        return W.M.read(Ptr(pre, 0), "G1").p
    res = run_paths(W, once)
    want = W.attr_product({e[0]: e[1] for e in te})
    for path, got in res:
        ok, mono, mdl = W.G.equal(got, want, path.pc)
        if not ok:
            raise Violation(key, "adjust_precomputed(from=%s -> to=%s) differs from precompute(to) in the coefficient of %s" % (fshape, tshape, mono),
                            dict(ce, model=W.G.model_values(mdl), monomial=str(mono)))
    return stats(W, len(res), [W.prog.demangled[fname][:100]])


def ob_precompute(l, shape):
    W = World(l, False)
    ent = enc_entries(W, shape, "t")
    fname = W.fn("precompute")

    def once():
        pre = Obj("precomputed", 144, "arg", 16)
        W.I.call_named(fname, [Ptr(pre, 0), Ptr(W.params_obj(), 0), Ptr(W.attrlist_obj(ent, False), 0)])
        return W.M.read(Ptr(pre, 0), "G1").p
    res = run_paths(W, once)
    for path, got in res:
        ok, mono, mdl = W.G.equal(got, W.attr_product({e[0]: e[1] for e in ent}), path.pc)
        if not ok:
            raise Violation("precompute:%s" % ",".join(shape), "precompute(%s) is not g3 * prod h_i^id_i (monomial %s)" % (shape, mono), {"l": l, "list": list(shape)})
    return stats(W, len(res), [W.prog.demangled[fname][:100]])


def ob_adjust_nondelegable(l, pattern, fshape, tshape, sig, fomit=False, tomit=False):
    """sk = WF(pattern after `from`, rho) (that is what nondelegable_qualifykey(parent, from) returns: C11), adjusted to `to`"""
    W = World(l, sig)
    pfixed, pfree, fent, ffixed, ffree = new_pattern(pattern, fshape, fomit, W, "f")
    _, _, tent, tfixed, tfree = new_pattern(pattern, tshape, tomit, W, "t")
    fname = W.fn("adjust_nondelegable")
    key = "adjust_nondelegable:parent=%s:from=%s:to=%s:omit=%d%d" % (",".join(pattern), ",".join(fshape), ",".join(tshape), fomit, tomit)
    ce = {"l": l, "parent": list(pattern), "from": list(fshape), "to": list(tshape), "signatures": sig, "from_omit_all": fomit, "to_omit_all": tomit}
    rho = W.G.sym("rho")

    def once():
        parent = W.key_obj(W.wf_key(pfixed, pfree, rho), "parent")
        sk = W.key_obj(W.wf_key(ffixed, ffree, rho), "sk", const=False)
        # the slot array of sk must be able to hold the parent's free slots (the bindings allocate it from the parent's count)
        L = W.L
        arr = Obj("sk.b", L.F_size * max(len(pfree), 1), "arg", 16)
        old = sk.cells[L.S_b][1]
        for off, cell in old.obj.cells.items():
            if off < arr.size:
                arr.cells[off] = cell
        W.I.store_cell(sk, L.S_b, 8, Ptr(arr, 0))
        W.I.call_named(fname, [Ptr(sk, 0), Ptr(parent, 0), Ptr(W.attrlist_obj(fent, fomit, "from"), 0), Ptr(W.attrlist_obj(tent, tomit, "to"), 0)])
        return W.read_key(sk)
    res = run_paths(W, once)
    for path, got in res:
        W.compare_key(got, W.wf_key(tfixed, tfree, rho), path.pc, key, "adjust_nondelegable(parent=%s, from=%s -> to=%s)" % (pattern, fshape, tshape), ce)
    return stats(W, len(res), [W.prog.demangled[fname][:100]])


def ob_precomputed_forms(l, sig):
    """encrypt = encrypt_precomputed o precompute, sign = sign_precomputed o precompute, verify = verify_precomputed o precompute
    (equal outputs for equal randomness), for the list that sets every slot"""
    W = World(l, sig)
    ent = [(i, W.G.ivar("t%d" % i)) for i in range(l)]
    L = W.L
    msg = W.G.sym("msg")
    m_int = W.G.ivar("m")
    rho = W.G.sym("rho")
    fns = {n: W.fn(n) for n in ("encrypt", "encrypt_precomputed", "precompute", "sign", "sign_precomputed", "verify", "verify_precomputed")}

    def pre_obj():
        pre = Obj("precomputed", 144, "arg", 16)
        W.I.call_named(fns["precompute"], [Ptr(pre, 0), Ptr(W.params_obj(), 0), Ptr(W.attrlist_obj(ent, False), 0)])
        return pre

    def once():
        out = {}
        m = Obj("m", 576, "arg", 16, True)
        W.I.store_cell(m, 0, 576, GE("GT", msg))
        for direct in (True, False):
            W.G.nsym = 0
            ct = Obj("ct", L.C_size, "arg", 16)
            if direct:
                W.I.call_named(fns["encrypt"], [Ptr(ct, 0), Ptr(m, 0), Ptr(W.params_obj(), 0), Ptr(W.attrlist_obj(ent, False), 0), W.cb])
            else:
                W.I.call_named(fns["encrypt_precomputed"], [Ptr(ct, 0), Ptr(m, 0), Ptr(W.params_obj(), 0), Ptr(pre_obj(), 0), W.cb])
            out["ct", direct] = (W.M.read(Ptr(ct, L.C_a), "GT").p, W.M.read(Ptr(ct, L.C_b), "G2").p, W.M.read(Ptr(ct, L.C_c), "G1").p)
            if sig:
                W.G.nsym = 0
                sk = W.key_obj(W.wf_key({}, list(range(l)), rho))
                sg = Obj("sig", L.G_size, "arg", 16)
                mo = Obj("msgscalar", 32, "arg", 16, True)
                W.I.store_cell(mo, 0, 32, SV(Poly.const(m_int)))
                al = W.attrlist_obj(ent, False)
                if direct:
                    W.I.call_named(fns["sign"], [Ptr(sg, 0), Ptr(W.params_obj(), 0), Ptr(sk, 0), Ptr(al, 0), Ptr(mo, 0), W.cb])
                else:
                    W.I.call_named(fns["sign_precomputed"], [Ptr(sg, 0), Ptr(W.params_obj(), 0), Ptr(sk, 0), Ptr(al, 0), Ptr(pre_obj(), 0), Ptr(mo, 0), W.cb])
                out["sig", direct] = (W.M.read(Ptr(sg, L.G_a0), "G1").p, W.M.read(Ptr(sg, L.G_a1), "G2").p)
                if direct:
                    v = W.I.call_named(fns["verify"], [Ptr(W.params_obj(), 0), Ptr(al, 0), Ptr(sg, 0), Ptr(mo, 0)])
                else:
                    v = W.I.call_named(fns["verify_precomputed"], [Ptr(W.params_obj(), 0), Ptr(pre_obj(), 0), Ptr(sg, 0), Ptr(mo, 0)])
                out["ver", direct] = v
        return out
    res = run_paths(W, once)
    for path, out in res:
        for kind in ("ct", "sig"):
            if (kind, True) not in out:
                continue
            for a, b in zip(out[kind, True], out[kind, False]):
                ok, mono, _ = W.G.equal(a, b, path.pc)
                if not ok:
                    raise Violation("precomputed-forms:%s:l=%d" % (kind, l), "direct and precomputed %s differ (monomial %s)" % ("encryption" if kind == "ct" else "signing", mono), {"l": l})
        if ("ver", True) in out:
            a, b = out["ver", True], out["ver", False]
            fa = a if not is_conc(a) else z3.BoolVal(bool(a))
            fb = b if not is_conc(b) else z3.BoolVal(bool(b))
            s = z3.Solver()
            for c in W.G.constraints + list(path.pc):
                s.add(c)
            s.add(z3.Xor(fa, fb))
            if s.check() != z3.unsat:
                raise Violation("precomputed-forms:verify:l=%d" % l, "verify and verify_precomputed disagree", {"l": l})
            s2 = z3.Solver()
            for c in W.G.constraints + list(path.pc):
                s2.add(c)
            s2.add(z3.Not(fa))
            if s2.check() != z3.unsat:
                raise Violation("precomputed-forms:verify-accepts:l=%d" % l, "a signature made through either form is rejected", {"l": l})
    return stats(W, len(res), [W.prog.demangled[f][:80] for f in fns.values()])


# ---------------------------------------------------------------------------------------------------------------
def replay_adjust(res):
    ce = res.counterexample or {}
    from engine import replay
    model = ce.get("model") or {}
    if res.name.startswith("adjust_precomputed"):
        l = ce["l"]
        fc = "".join("v" if s == "value" else "a" for s in ce["from"]) or "-"
        tc = "".join("v" if s == "value" else "a" for s in ce["to"]) or "-"
        ids = ["%s=%s" % (k, v[2:]) for k, v in model.items() if k[0] in "ft"]
        cmd = "wkdadj %d %s %s %s" % (l, fc, tc, " ".join(ids))
    elif res.name.startswith("adjust_nondelegable") and "parent" in ce:
        l = ce["l"]
        ch = {"absent": "a", "same": "s", "value": "v", "hide": "h"}
        pc = "".join({"free": "F", "fixed": "X", "hidden": "H"}[x] for x in ce["parent"]) or "-"
        fc = "".join(ch[x] for x in ce["from"]) or "-"
        tc = "".join(ch[x] for x in ce["to"]) or "-"
        ids = ["%s=%s" % (k, v[2:]) for k, v in model.items() if k[0] in "ft" or k[:2] == "id"]
        if ce.get("from_omit_all") or ce.get("to_omit_all"):
            return None
        cmd = "wkdadjnd %d %s %s %s %s" % (l, pc, fc, tc, " ".join(ids))
    else:
        return None
    out = replay.run([cmd])[0]
    ce["native_replay"] = {"command": cmd, "native_output": out}
    return out.startswith("DIFF")


def register(chk):
    maxl = 3 if chk.tier == "quick" else 4
    for l in range(0, maxl + 1):
        shapes = list(itertools.product(("absent", "value"), repeat=l))
        # lists with a marked entry: all of them up to l = 2, one marked slot beyond
        marked = [sh for sh in itertools.product(("absent", "value", "marked"), repeat=l) if "marked" in sh and (l <= 2 or sum(x == "marked" for x in sh) == 1)]
        for s in marked:
            chk.add("precompute:l=%d:%s" % (l, ",".join(s)), ob_precompute, l, s)
            for t in (shapes + marked if l <= 2 else shapes):
                chk.add("adjust_precomputed:l=%d:from=%s:to=%s" % (l, ",".join(s), ",".join(t) or "-"), ob_adjust_precomputed, l, s, t)
                if t not in marked:
                    chk.add("adjust_precomputed:l=%d:from=%s:to=%s" % (l, ",".join(t) or "-", ",".join(s)), ob_adjust_precomputed, l, t, s)
        for s in shapes:
            chk.add("precompute:l=%d:%s" % (l, ",".join(s) or "-"), ob_precompute, l, s)
            for t in shapes:
                chk.add("adjust_precomputed:l=%d:from=%s:to=%s" % (l, ",".join(s) or "-", ",".join(t) or "-"), ob_adjust_precomputed, l, s, t)
        for sig in (False, True):
            chk.add("precomputed-forms:l=%d:sig=%d" % (l, sig), ob_precomputed_forms, l, sig)
    maxl2 = 2 if chk.tier == "quick" else 3
    for l in range(0, maxl2 + 1):
        for pattern in wkd.parent_patterns(l):
            for fs in wkd.list_shapes(pattern):
                for ts in wkd.list_shapes(pattern):
                    for fo, to_ in ((False, False), (False, True), (True, False), (True, True)):
                        if (fo or to_) and l > 1 and chk.tier == "quick" and "fixed" in pattern:
                            continue
                        chk.add("adjust_nondelegable:parent=%s:from=%s:to=%s:omit=%d%d" % (",".join(pattern) or "-", ",".join(fs) or "-", ",".join(ts) or "-", fo, to_),
                                ob_adjust_nondelegable, l, pattern, fs, ts, True, fo, to_)
    if chk.tier == "quick":
        # one slot more for the parents in which a list cursor has to pass two entries before it reaches a free slot (two slots of the parent
        # already fixed or hidden, one free): the catch-up loops of adjust_nondelegable iterate more than once only there (seed C14i)
        for pattern in wkd.parent_patterns(3):
            if sum(s == "free" for s in pattern) != 1:
                continue
            for fs in wkd.list_shapes(pattern):
                for ts in wkd.list_shapes(pattern):
                    chk.add("adjust_nondelegable:parent=%s:from=%s:to=%s:omit=00" % (",".join(pattern), ",".join(fs), ",".join(ts)),
                            ob_adjust_nondelegable, 3, pattern, fs, ts, True, False, False)


def include_in(chk):
    """this check's obligations registered inside another check (framework.Check.include): every call runs on objects of exactly the documented size,
    so they are memory-safety obligations for valid calls as well"""
    wkd.prog()
    chk.replayer = replay_adjust
    register(chk)


def main(argv=None):
    chk = Check("C14", "proof", argv)
    chk.replayer = replay_adjust
    wkd.prog()
    register(chk)
    chk.explanation = ("adjust_precomputed, adjust_nondelegable, precompute and the precomputed/direct forms of encrypt, sign, verify are executed symbolically "
                       "from the IR over formal discrete logarithms; z3 decides, for all 256-bit attribute values (including values >= r, borrow and "
                       "wrap-around of the word-level id subtraction, which is inside the query), that the adjusted value equals the from-scratch value.")
    chk.bounds = ["adjust_precomputed: every ordered pair of list shapes over l <= 3 (quick) / 4 (thorough) slots; adjust_nondelegable (quick: l <= 2, plus the l = 3 parents with exactly one free slot, without the omit-all flags): every parent pattern x "
                  "every ordered pair of documented list shapes over l <= 2 (quick) / 3 (thorough) slots; ids symbolic in [0,2^256)",
                  "chains of adjustments are covered because each adjustment is shown to land exactly on the from-scratch value",
                  "hidden list entries carry id 0 (as the Go bindings produce them)"]
    chk.trusted = ["group layer specification (C05-C08, C01)", "z3"]
    # lower layers whose specifications this check relies on: their obligations are part of this check's claim (framework.Check.include)
    for dep in ['C06', 'C02', 'C03', 'C04', 'C05', 'C07', 'C01', 'C08', 'C10', 'C19', 'C20']:
        chk.include(dep)
    # objects that arrive through unmarshal are the marshalled ones (parameters and keys loaded from bytes are part of 'reachable through the API'): C15's own obligations
    chk.include("C15")
    # the statements start from an arbitrary well-formed key; that the key-producing operations return exactly such keys (the induction step
    # over delegation histories) is C11's claim, and part of this one
    chk.include("C11", only=r"^(keygen|nondelegable_keygen|resamplekey|qualifykey|nondelegable_qualifykey):")
    # 'signatures verify' through the direct and the precomputed forms, for every list shape incl. entries carrying the omit marker: C13's positive obligations
    chk.include("C13", only=r"^pos:")
    chk.run()
    chk.finish()


if __name__ == "__main__":
    main()
