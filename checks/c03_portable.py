"""C03, portable back ends: the generic C++ templates with 64-bit words (-DDISABLE_ASM) and with 32-bit words
(-DDISABLE_ASM -U__SIZEOF_INT128__) are decided against the same integer specifications as the assembly (obligations shared
with C02: bit-vector VCs for add/sub/double/modular kernels, linear-integer VCs for product, square and Montgomery reduction)."""
import c02


def register(chk):
    for cfg in ("P64", "P32"):
        N = 384
        for op in ("add", "subtract"):
            for alias in (0, 1):
                chk.add("%s:bigint_384_%s:alias=%d" % (cfg, op, alias), c02.ob_bigint, cfg, N, op, alias)
        for alias in (0, 1):
            chk.add("%s:bigint_384_multiply2:alias=%d" % (cfg, alias), c02.ob_bigint, cfg, N, "shift_left_in_word1", alias)
        for op, nin in c02.FPBASE_OPS.items():
            for alias in (0, 1):
                if op == "reduce" and alias:
                    continue
                chk.add("%s:fpbase_384_%s:alias=%d" % (cfg, op, alias), c02.ob_fpbase, cfg, N, op, alias, False, True)      # all 384-bit operands
                if chk.tier == "thorough":
                    chk.add("%s:fpbase_384_%s:alias=%d:deep" % (cfg, op, alias), c02.ob_fpbase, cfg, N, op, alias, True)
        chk.add("%s:bigint_384_compare" % cfg, c02.ob_bigint, cfg, N, "compare", 0)
        chk.add("%s:bigint_768_multiply" % cfg, c02.ob_product, cfg, N, False)
        chk.add("%s:bigint_768_square" % cfg, c02.ob_product, cfg, N, True)
        chk.add("%s:fpbase_384_montgomery_reduce" % cfg, c02.ob_montgomery, cfg, N)
