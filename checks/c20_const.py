"""C20, read-only inputs: no library function writes through a parameter it declares as pointer / reference to const.

Two threads may hand the same object to two calls as an *input* (a precomputed table, the parameters, a key): "concurrent calls on distinct output
objects give the sequential results" therefore needs every function to leave the objects it takes by `T const&` / `T const*` untouched - also
temporarily (flip a sign and flip it back).  C++ const is erased in the IR, but the demangled signature keeps it.  Per defined function of every TU:
the values derived from such a parameter (getelementptr / bitcast / phi / select closure) must not be the address of a store, the destination of an
llvm.mem* intrinsic, the `this` of a non-const member function, or an actual argument bound to a non-const pointer / reference parameter of the callee
(callee signatures again from the demangled names; the first operand of the assembly kernels is their output).  Shallow, like C++ const itself: memory
reached through a pointer stored inside the object is not covered.  Dataflow closure, no solver."""
import re
import subprocess

from engine import irparse as ir
from engine.framework import Violation, Inconclusive


def demangle(names):
    names = list(names)
    out = subprocess.run(["llvm-cxxfilt-14"], input="\n".join(names), capture_output=True, text=True).stdout.split("\n")
    return dict(zip(names, out))


def signature(dem):
    """(list of parameter type strings, is const member) of a demangled function name; None if it has no parameter list"""
    d = dem.strip()
    cm = False
    if d.endswith(" const"):
        d, cm = d[:-6].rstrip(), True
    if not d.endswith(")"):
        return None
    depth = 0
    for i in range(len(d) - 1, -1, -1):
        c = d[i]
        if c in ")>":
            if c == ">" and i > 0 and d[i - 1] == "-":       # operator->
                continue
            depth += 1
        elif c in "(<":
            depth -= 1
            if depth == 0:
                break
    else:
        return None
    inner = d[i + 1:-1].strip()
    if inner in ("", "void"):
        return [], cm
    parts, depth, cur = [], 0, ""
    for c in inner:
        if c in "(<":
            depth += 1
        elif c in ")>":
            depth -= 1
        if c == "," and depth == 0:
            parts.append(cur.strip())
            cur = ""
        else:
            cur += c
    parts.append(cur.strip())
    return parts, cm


def is_const_ptr(t):
    t = t.replace(" ", "")
    return t.endswith("const&") or t.endswith("const*") or t.endswith("const*__restrict") or t.endswith("const&__restrict") or t.endswith("const*const")


def is_mut_ptr(t):
    t2 = t.replace(" ", "").replace("__restrict", "")
    return (t2.endswith("&") or t2.endswith("*")) and not is_const_ptr(t) and "(*)" not in t2


def param_kinds(f, dem):
    """per IR parameter: 'const' | 'mut' | None (by value / unknown)"""
    sig = signature(dem) if dem else None
    n = len(f.params)
    if sig is None:
        return None
    types, cm = sig
    extra = n - len(types)
    if extra < 0 or extra > 2:
        return None
    kinds = []
    lead = []
    for p in f.params[:extra]:
        lead.append("mut" if p.attrs.get("sret") else ("const" if cm else "mut"))
    kinds = lead + [("const" if is_const_ptr(t) else ("mut" if is_mut_ptr(t) else None)) for t in types]
    return kinds


ASM_OUT0 = re.compile(r"embedded_pairing_core_arch_")
MEMW = re.compile(r"llvm\.(memcpy|memmove|memset)\.|^(memcpy|memmove|memset)$")


def ob_const_inputs(mods):
    fns = {}
    for m in mods:
        for name, f in m.functions.items():
            if not f.is_decl or name not in fns:
                fns[name] = f
    dem = demangle(fns)
    kinds = {name: param_kinds(f, dem.get(name, name)) for name, f in fns.items()}
    nfun = nconst = 0
    for name, f in sorted(fns.items()):
        if f.is_decl or kinds[name] is None:
            continue
        ks = kinds[name]
        derived = {}
        for i, (p, k) in enumerate(zip(f.params, ks)):
            if k == "const" and isinstance(p.ty, ir.PtrTy):
                derived[p.name] = i
        if not derived:
            continue
        nfun += 1
        nconst += len(derived)
        instrs = [ins for lab in f.order for ins in f.blocks[lab]]
        changed = True
        while changed:
            changed = False
            for ins in instrs:
                if ins.res is None or ins.res in derived:
                    continue
                src = []
                if ins.op == "getelementptr":
                    src = [ins.args[0][1]]
                elif ins.op in ("bitcast", "addrspacecast"):
                    src = [ins.args[0]]
                elif ins.op == "phi":
                    src = [v for (v, lab) in ins.args]
                elif ins.op == "select":
                    src = [ins.args[1], ins.args[2]]
                for v in src:
                    if isinstance(v, ir.Reg) and v.name in derived:
                        derived[ins.res] = derived[v.name]
                        changed = True
                        break

        def bad(what, ins, v):
            d = dem.get(name, name)
            raise Violation("const-input:" + d.split("(")[0][-80:], "%s writes through its read-only parameter #%d (%s): %s" % (
                d[:160], derived[v.name], what, ins.text.strip()[:160]), {"function": d, "parameter": derived[v.name], "instruction": ins.text.strip()[:200]})
        for ins in instrs:
            if ins.op == "store":
                a = ins.args[1]
                if isinstance(a, ir.Reg) and a.name in derived:
                    bad("store", ins, a)
            elif ins.op == "call":
                callee = ins.extra.name if isinstance(ins.extra, ir.GlobalRef) else None
                if callee is None:
                    continue
                if MEMW.search(callee):
                    a = ins.args[0][1]
                    if isinstance(a, ir.Reg) and a.name in derived:
                        bad("destination of " + callee.split(".p0")[0], ins, a)
                    continue
                if callee.startswith("llvm."):
                    continue
                ck = kinds.get(callee)
                for j, (at, av, attrs) in enumerate(ins.args):
                    if not (isinstance(av, ir.Reg) and av.name in derived):
                        continue
                    if ck is not None and j < len(ck):
                        if ck[j] == "mut":
                            bad("argument %d of %s, a non-const pointer / reference or the object of a non-const member" % (j, dem.get(callee, callee).split("(")[0][-70:]), ins, av)
                    elif ASM_OUT0.match(callee) and j == 0 and "compare" not in callee:
                        bad("output operand of the assembly routine " + callee, ins, av)
    if nfun < 50:
        raise Inconclusive("only %d functions with a const pointer / reference parameter were recognised" % nfun)
    return {"queries": 0, "paths": nfun, "functions": ["%d functions of %d TUs" % (nfun, len(mods))],
            "sample": "%d const pointer / reference parameters of %d functions: no store, llvm.mem* destination, non-const member call or non-const argument binding on a value derived from them" % (nconst, nfun)}
