"""C05 - G1/G2 point arithmetic is the elliptic-curve group law (DESIGN.md section 5, C05).

The Jacobian/affine routines are executed from the IR with the base field (Fq for G1, Fq2 for G2) replaced by a
commutative ring of free indeterminates; every operand is given by a *parametrisation* of its case
(P = (x z^2, y z^3, z), -P = (x z'^2, -y z'^3, z'), identity = (X, Y, 0) ...), so that each branch of the code is decided
either by a polynomial identity or by a factor certificate over the case hypotheses, and the result is compared with the
affine chord-and-tangent law by cross-multiplied polynomial identities.  No curve equation is needed.
"""
import sys
import os
import itertools
sys.path.insert(0, os.path.dirname(os.path.dirname(os.path.abspath(__file__))))

from engine import build, eir, tower, dom_ring
from engine.eir import Ptr, is_conc, ExecError, ACond
from engine.framework import Check, Violation, Inconclusive
from engine.harness import TowerHarness
from engine.tower import SIZES, CLASS, Q, NS, RINV

B = NS + "bls12_381::"
FIELD = {0: B + "Fq", 1: B + "Fq2"}
GNAME = {0: "G1", 1: "G2"}
BVAR = {0: "g1_b_coeff_var", 1: "g2_b_coeff_var"}


def proj_t(k):
    return B + "Projective<" + FIELD[k] + ">"


def aff_t(k):
    return B + "Affine<" + FIELD[k] + ", " + B + "Fr, " + B + BVAR[k] + ">"


def const_hook(level, p, v):
    """constants seen at the Fq2 atom level: (c0, c1) raw Montgomery pairs; only c1 == 0 can be a ring constant"""
    if level == 1:
        c0 = v & ((1 << 384) - 1)
        c1 = v >> 384
        if c1 == 0 and c0 < Q:
            return ("const", c0 * RINV % Q)
    return None


class CurveHarness(TowerHarness):
    def __init__(self, prog, k, timeout_ms=60000):
        self.k = k
        self.S = SIZES[k]

        def hook(level, p, v):
            r = const_hook(level, p, v)
            if r is not None:
                return self.ring.const(r[1])
            if level == 1 and p.obj is not None and "b_coeff" in p.obj.name:
                return self.ring.var("curve_b")
            return None
        TowerHarness.__init__(self, prog, k, (k,), timeout_ms, hook)
        self.R = self.ring

    # ---- objects
    def proj_obj(self, name, coords):
        o = self.I.new_obj(name, 3 * self.S, "arg", 16)
        for i, c in enumerate(coords):
            self.tm.write(Ptr(o, i * self.S), self.k, c)
        return o

    def aff_obj(self, name, x, y, inf):
        o = self.I.new_obj(name, 2 * self.S + 16, "arg", 16)
        self.tm.write(Ptr(o, 0), self.k, x)
        self.tm.write(Ptr(o, self.S), self.k, y)
        o.cells[2 * self.S] = (1, int(inf))
        return o

    def out_proj(self):
        return self.I.new_obj("out", 3 * self.S, "arg", 16)

    def out_aff(self):
        return self.I.new_obj("out", 2 * self.S + 16, "arg", 16)

    def read_proj(self, o):
        return tuple(self.tm.read(Ptr(o, i * self.S), self.k) for i in range(3))

    def read_aff(self, o):
        inf = self.I.load_bytes(o, 2 * self.S, 1)
        if not is_conc(inf):
            raise Inconclusive("symbolic infinity flag in result")
        if inf:
            return (None, None, inf)
        return (self.tm.read(Ptr(o, 0), self.k), self.tm.read(Ptr(o, self.S), self.k), inf)


# ---- point descriptions --------------------------------------------------------------------------------------
class Pt:
    """a point in a given representation: coords (X,Y,Z) for projective / (x,y,inf) for affine, its affine value
    (x, y) as ring elements or None for the identity, and the hypotheses (non-zero elements) of its case"""
    def __init__(self, coords, affine, nonzero, desc):
        self.coords = coords
        self.affine = affine
        self.nonzero = nonzero
        self.desc = desc


def mk_proj(R, name, rep, x=None, y=None):
    """rep: 'gen' (any z != 0), 'z1' (z == 1), 'O' (z == 0, arbitrary x, y)"""
    if rep == "O":
        return Pt((R.var(name + "X"), R.var(name + "Y"), R.ZERO), None, [], name + "=O(X,Y,0)")
    x = x if x is not None else R.var(name + "x")
    y = y if y is not None else R.var(name + "y")
    if rep == "z1":
        return Pt((x, y, R.ONE), (x, y), [], name + "=(x,y,1)")
    z = R.var(name + "z")
    z2 = R.mul(z, z)
    return Pt((R.mul(x, z2), R.mul(y, R.mul(z2, z)), z), (x, y), [z], name + "=(x z^2,y z^3,z)")


def mk_aff(R, name, rep, x=None, y=None):
    if rep == "O":
        return Pt((R.var(name + "X"), R.var(name + "Y"), 1), None, [], name + "=inf")
    x = x if x is not None else R.var(name + "x")
    y = y if y is not None else R.var(name + "y")
    return Pt((x, y, 0), (x, y), [], name + "=(x,y)")


def law_add(R, p, q, relation):
    """affine chord/tangent law under the stated relation; returns affine (x3, y3) as fractions or None"""
    if p is None:
        return q
    if q is None:
        return p
    x1, y1 = p
    x2, y2 = q
    if relation == "opposite":
        return None
    if relation == "same":
        lam = R.mul(R.scale(R.mul(x1, x1), 3), R.inv_nonzero(R.scale(y1, 2)))
    else:
        lam = R.mul(R.sub(y2, y1), R.inv_nonzero(R.sub(x2, x1)))   # = e/d after cancellation
    x3 = R.sub(R.sub(R.mul(lam, lam), x1), x2)
    y3 = R.sub(R.mul(lam, R.sub(x1, x3)), y1)
    return (x3, y3)


def check_point(H, out, expected, nonzero, what, key, ce_extra):
    """out = (X,Y,Z) projective result; expected affine point or None"""
    R = H.R
    X, Y, Z = out

    def fail(msg, mdl):
        v = Violation(key, "%s: %s" % (what, msg), H.counterexample(mdl, ce_extra))
        v.info = H.stats()
        raise v
    if expected is None:
        ok, mdl = R.equal(Z, R.ZERO, what + ":Z==0")
        if not ok:
            fail("result should be the identity but z is not identically zero", mdl)
        return
    zz, mdl = R.is_zero(Z, what + ":Z")
    if zz:
        fail("result is the identity (z == 0) but a finite point is expected", None)
    if not R.factor_certificate(Z, nonzero, what + ":Z!=0"):
        raise Inconclusive("%s: cannot certify z != 0 from the case hypotheses" % what)
    x3, y3 = expected
    Z2 = R.mul(Z, Z)
    ok, mdl = R.equal(X, R.mul(x3, Z2), what + ":X")
    if not ok:
        fail("x coordinate is not that of the group-law result", mdl)
    ok, mdl = R.equal(Y, R.mul(y3, R.mul(Z2, Z)), what + ":Y")
    if not ok:
        fail("y coordinate is not that of the group-law result", mdl)


# ---- obligations ---------------------------------------------------------------------------------------------------
def pair_cases(mixed):
    """(rep_a, rep_b, relation) over all representations"""
    areps = ["gen", "z1", "O"]
    breps = ["aff", "O"] if mixed else ["gen", "z1", "O"]
    out = []
    for ra in areps:
        for rb in breps:
            if ra == "O" or rb == "O":
                out.append((ra, rb, "identity"))
            else:
                for rel in ("generic", "same", "opposite", "same-y0"):
                    out.append((ra, rb, rel))
    return out


def build_pair(R, ra, rb, rel, mixed):
    mk_b = (lambda n, r, x=None, y=None: mk_aff(R, n, "O" if r == "O" else "aff", x, y)) if mixed else (lambda n, r, x=None, y=None: mk_proj(R, n, r, x, y))
    if rel == "identity":
        a = mk_proj(R, "a", ra)
        b = mk_b("b", rb)
        return a, b, a.nonzero + b.nonzero
    if rel == "generic":
        # x2 = x1 + d, y2 = y1 + e with d != 0: keeps the difference a monomial (sparser identities for the solver)
        a = mk_proj(R, "a", ra)
        d, e = R.var("d"), R.var("e")
        b = mk_b("b", rb, R.add(a.affine[0], d), R.add(a.affine[1], e))
        return a, b, a.nonzero + b.nonzero + [d, R.const(2)]
    x = R.var("x")
    if rel == "same-y0":
        y = R.ZERO
        a = mk_proj(R, "a", ra, x, y)
        b = mk_b("b", rb, x, y)
        return a, b, a.nonzero + b.nonzero
    y = R.var("y")
    a = mk_proj(R, "a", ra, x, y)
    b = mk_b("b", rb, x, R.neg(y) if rel == "opposite" else y)
    return a, b, a.nonzero + b.nonzero + [y, R.const(2)]


def ob_add(prog, k, mixed, ra, rb, rel, alias=None):
    H = CurveHarness(prog, k)
    R = H.R
    if mixed:
        fname = H.fn(r"void " + proj_t(k) + r"::add<.*>\(" + proj_t(k) + r" const&, " + aff_t(k) + r" const&\)")
    else:
        fname = H.fn(proj_t(k) + r"::add\(" + proj_t(k) + r" const&, " + proj_t(k) + r" const&\)")
    a, b, nz = build_pair(R, ra, rb, rel, mixed)
    H.oracle.nonzero = list(nz)
    if rel == "same-y0":
        expected = None
    elif rel == "identity":
        expected = law_add(R, a.affine, b.affine, None)
    else:
        expected = law_add(R, a.affine, b.affine, rel)

    def make_args():
        oa = H.proj_obj("a", a.coords)
        ob = H.aff_obj("b", *b.coords) if mixed else H.proj_obj("b", b.coords)
        oo = oa if alias == "a" else (ob if alias == "b" else H.out_proj())
        return [Ptr(oo, 0), Ptr(oa, 0), Ptr(ob, 0)], (lambda: H.read_proj(oo))
    res = H.run(fname, make_args)
    what = "%s %sadd %s + %s [%s]%s" % (GNAME[k], "mixed " if mixed else "", a.desc, b.desc, rel, " out=" + alias if alias else "")
    key = "%s:add%s:%s:%s:%s:%s" % (GNAME[k], "_mixed" if mixed else "", ra, rb, rel, alias or "distinct")
    for path, ret, out in res:
        check_point(H, out, expected, nz, what, key, {"group": GNAME[k], "op": "add_mixed" if mixed else "add", "reps": [ra, rb],
                                                       "relation": rel, "alias": alias})
    H.require_justified()
    return dict(H.stats(), paths=len(res), sample=what)


def ob_double(prog, k, rep, y0, alias=False):
    H = CurveHarness(prog, k)
    R = H.R
    fname = H.fn(proj_t(k) + r"::multiply2\(.*\)")
    if rep == "O":
        a = mk_proj(R, "a", "O")
        nz = []
        expected = None
    else:
        x = R.var("x")
        y = R.ZERO if y0 else R.var("y")
        a = mk_proj(R, "a", rep, x, y)
        nz = a.nonzero + ([] if y0 else [y, R.const(2)])
        expected = None if y0 else law_add(R, a.affine, a.affine, "same")
    H.oracle.nonzero = list(nz)

    def make_args():
        oa = H.proj_obj("a", a.coords)
        oo = oa if alias else H.out_proj()
        return [Ptr(oo, 0), Ptr(oa, 0)], (lambda: H.read_proj(oo))
    res = H.run(fname, make_args)
    what = "%s double %s%s%s" % (GNAME[k], a.desc, " (y=0)" if y0 else "", " out=a" if alias else "")
    for path, ret, out in res:
        check_point(H, out, expected, nz, what, "%s:double:%s:%s:%s" % (GNAME[k], rep, "y0" if y0 else "y", "alias" if alias else "distinct"),
                    {"group": GNAME[k], "op": "double", "reps": [rep], "relation": "y0" if y0 else "", "alias": "a" if alias else None})
    H.require_justified()
    return dict(H.stats(), paths=len(res), sample=what)


def ob_negate(prog, k, rep, alias=False):
    H = CurveHarness(prog, k)
    R = H.R
    fname = H.fn(proj_t(k) + r"::negate\(.*\)")
    a = mk_proj(R, "a", rep)
    H.oracle.nonzero = list(a.nonzero)

    def make_args():
        oa = H.proj_obj("a", a.coords)
        oo = oa if alias else H.out_proj()
        return [Ptr(oo, 0), Ptr(oa, 0)], (lambda: H.read_proj(oo))
    res = H.run(fname, make_args)
    expected = None if a.affine is None else (a.affine[0], R.neg(a.affine[1]))
    what = "%s negate %s" % (GNAME[k], a.desc)
    for path, ret, out in res:
        check_point(H, out, expected, a.nonzero, what, "%s:negate:%s" % (GNAME[k], rep), {"group": GNAME[k], "op": "negate", "reps": [rep]})
    H.require_justified()
    return dict(H.stats(), paths=len(res), sample=what)


def ob_equal(prog, k, ra, rb, rel):
    """Projective::equal is true exactly when the two operands represent the same point"""
    H = CurveHarness(prog, k)
    R = H.R
    fname = H.fn(proj_t(k) + r"::equal\(.*\)")
    if rel == "diff-y":
        x = R.var("x")
        a = mk_proj(R, "a", ra, x, R.var("ay"))
        b = mk_proj(R, "b", rb, x, R.var("by"))
        nz = a.nonzero + b.nonzero + [R.sub(a.affine[1], b.affine[1])]
        expect = False
    else:
        a, b, nz = build_pair(R, ra, rb, "generic" if rel == "diff-x" else rel, False)
        expect = {"identity": (ra == "O" and rb == "O"), "diff-x": False, "same": True, "opposite": False}[rel]
    H.oracle.nonzero = list(nz)

    def make_args():
        oa = H.proj_obj("a", a.coords)
        ob = H.proj_obj("b", b.coords)
        return [Ptr(oa, 0), Ptr(ob, 0)], (lambda: None)
    res = H.run(fname, make_args)
    what = "%s equal(%s, %s) [%s]" % (GNAME[k], a.desc, b.desc, rel)
    for path, ret, _ in res:
        if not is_conc(ret):
            raise Inconclusive("equal returned a symbolic value")
        if bool(ret) != expect:
            raise Violation("%s:equal:%s:%s:%s" % (GNAME[k], ra, rb, rel), "%s returned %r, expected %r" % (what, bool(ret), expect),
                            {"group": GNAME[k], "op": "equal", "reps": [ra, rb], "relation": rel})
    H.require_justified()
    return dict(H.stats(), paths=len(res), sample=what)


def ob_is_zero(prog, k):
    info = None
    for rep, expect in (("gen", False), ("z1", False), ("O", True)):
        H = CurveHarness(prog, k)
        fname = H.fn(proj_t(k) + r"::is_zero\(\) const")
        a = mk_proj(H.R, "a", rep)
        H.oracle.nonzero = list(a.nonzero)
        res = H.run(fname, lambda: ([Ptr(H.proj_obj("a", a.coords), 0)], (lambda: None)))
        for path, ret, _ in res:
            if not is_conc(ret) or bool(ret) != expect:
                raise Violation("%s:is_zero:%s" % (GNAME[k], rep), "Projective::is_zero(%s) returned %r" % (a.desc, ret),
                                {"group": GNAME[k], "op": "is_zero", "reps": [rep]})
        H.require_justified()
        info = H.stats()
    return dict(info, paths=3, sample="%s Projective::is_zero on the three representations" % GNAME[k])


def ob_from_affine(prog, k, rep):
    H = CurveHarness(prog, k)
    R = H.R
    fname = H.fn(r"void " + proj_t(k) + r"::from_affine<.*>\(.*\)")
    b = mk_aff(R, "b", "O" if rep == "O" else "aff")

    def make_args():
        ob = H.aff_obj("b", *b.coords)
        oo = H.out_proj()
        return [Ptr(oo, 0), Ptr(ob, 0)], (lambda: H.read_proj(oo))
    res = H.run(fname, make_args)
    what = "%s from_affine(%s)" % (GNAME[k], b.desc)
    for path, ret, out in res:
        check_point(H, out, b.affine, [], what, "%s:from_affine:%s" % (GNAME[k], rep), {"group": GNAME[k], "op": "from_affine", "reps": [rep]})
    H.require_justified()
    return dict(H.stats(), paths=len(res), sample=what)


def ob_from_projective(prog, k, rep):
    H = CurveHarness(prog, k)
    R = H.R
    fname = H.fn(aff_t(k) + r"::from_projective\(.*\)")
    a = mk_proj(R, "a", rep)
    # case split on z: {0} (rep O), {1} (rep z1), everything else (rep gen: z != 0 and z - 1 != 0)
    H.oracle.nonzero = list(a.nonzero) + ([R.sub(a.coords[2], R.ONE)] if rep == "gen" else [])

    def make_args():
        oa = H.proj_obj("a", a.coords)
        oo = H.out_aff()
        return [Ptr(oo, 0), Ptr(oa, 0)], (lambda: H.read_aff(oo))
    res = H.run(fname, make_args)
    what = "%s Affine::from_projective(%s)" % (GNAME[k], a.desc)
    key = "%s:from_projective:%s" % (GNAME[k], rep)
    ce = {"group": GNAME[k], "op": "from_projective", "reps": [rep]}
    for path, ret, (x, y, inf) in res:
        if a.affine is None:
            if not inf:
                raise Violation(key, what + ": identity converted to a finite point", ce)
            continue
        if inf:
            raise Violation(key, what + ": finite point converted to infinity", ce)
        for got, want, nm in ((x, a.affine[0], "x"), (y, a.affine[1], "y")):
            ok, mdl = R.equal(got, want, what + ":" + nm)
            if not ok:
                raise Violation(key, what + ": affine %s is not X/Z^%d" % (nm, 2 if nm == "x" else 3), H.counterexample(mdl, ce))
    H.require_justified()
    return dict(H.stats(), paths=len(res), sample=what)


def ob_affine_misc(prog, k):
    """Affine::negate, Affine::equal, Affine::is_zero, Affine::is_on_curve"""
    nq = 0
    # negate
    for rep in ("aff", "O"):
        H = CurveHarness(prog, k)
        R = H.R
        fname = H.fn(aff_t(k) + r"::negate\(.*\)")
        b = mk_aff(R, "b", rep)

        def make_args():
            ob = H.aff_obj("b", *b.coords)
            oo = H.out_aff()
            return [Ptr(oo, 0), Ptr(ob, 0)], (lambda: H.read_aff(oo))
        for path, ret, (x, y, inf) in H.run(fname, make_args):
            if bool(inf) != (b.affine is None):
                raise Violation("%s:affine_negate:%s" % (GNAME[k], rep), "Affine::negate changes the infinity flag", {"group": GNAME[k], "op": "affine_negate"})
            if b.affine is not None:
                ok1, m1 = R.equal(x, b.affine[0], "neg.x")
                ok2, m2 = R.equal(y, R.neg(b.affine[1]), "neg.y")
                if not (ok1 and ok2):
                    raise Violation("%s:affine_negate:%s" % (GNAME[k], rep), "Affine::negate is not (x, -y)",
                                    H.counterexample(m1 or m2, {"group": GNAME[k], "op": "affine_negate"}))
        nq += H.stats()["queries"]
    # equal: all flag combinations x coordinate relations
    for infa, infb in itertools.product((0, 1), (0, 1)):
        for rel in ("same", "diff-x", "diff-y"):
            H = CurveHarness(prog, k)
            R = H.R
            fname = H.fn(aff_t(k) + r"::equal\(.*\)")
            x, y = R.var("x"), R.var("y")
            if rel == "same":
                ca, cb, nz = (x, y), (x, y), []
            elif rel == "diff-x":
                x2 = R.var("x2")
                ca, cb, nz = (x, y), (x2, R.var("y2")), [R.sub(x, x2)]
            else:
                y2 = R.var("y2")
                ca, cb, nz = (x, y), (x, y2), [R.sub(y, y2)]
            H.oracle.nonzero = nz
            if infa and infb:
                expect = True
            elif infa != infb:
                expect = False
            else:
                expect = rel == "same"

            def make_args():
                oa = H.aff_obj("a", ca[0], ca[1], infa)
                ob = H.aff_obj("b", cb[0], cb[1], infb)
                return [Ptr(oa, 0), Ptr(ob, 0)], (lambda: None)
            for path, ret, _ in H.run(fname, make_args):
                if not is_conc(ret) or bool(ret) != expect:
                    raise Violation("%s:affine_equal:%d%d:%s" % (GNAME[k], infa, infb, rel),
                                    "Affine::equal(inf=%d, inf=%d, %s) returned %r" % (infa, infb, rel, ret), {"group": GNAME[k], "op": "affine_equal"})
            H.require_justified()
            nq += H.stats()["queries"]
    # is_on_curve: the returned predicate is  y^2 == x^3 + b
    H = CurveHarness(prog, k)
    R = H.R
    fname = H.fn(aff_t(k) + r"::is_on_curve\(\) const")
    x, y = R.var("x"), R.var("y")
    bsym = R.var("curve_b") if k == 1 else R.const(4)
    captured = []

    class Cap(dom_ring.RingOracle):
        def decide(self, atom, path):
            captured.append(atom)
            return True
    H.I.oracle = Cap(R)
    H.run(fname, lambda: ([Ptr(H.aff_obj("a", x, y, 0), 0)], (lambda: None)))
    if len(captured) != 1 or captured[0][0] != "eq":
        raise Inconclusive("is_on_curve does not reduce to a single field comparison")
    lhs = R.sub(captured[0][1], captured[0][2])
    want = R.sub(R.mul(y, y), R.add(R.mul(x, R.mul(x, x)), bsym))
    ok1, m1 = R.equal(lhs, want, "on_curve")
    ok2, m2 = R.equal(lhs, R.neg(want), "on_curve(neg)")
    if not (ok1 or ok2):
        raise Violation("%s:is_on_curve" % GNAME[k], "Affine::is_on_curve does not test y^2 == x^3 + b",
                        H.counterexample(m1, {"group": GNAME[k], "op": "is_on_curve"}))
    nq += H.stats()["queries"]
    return {"queries": nq, "paths": 16, "functions": H.functions, "sample": "%s Affine::negate/equal/is_on_curve" % GNAME[k]}


def ob_constants(prog):
    """curve coefficient constants: b = 4 (G1), b' = 4(1+u) (G2) in Montgomery form; Projective::zero has z = 0; Affine::zero has infinity set"""
    I = eir.Interp(prog)
    want = 4 * tower.RMONT % Q
    g1 = I.global_obj("_ZN16embedded_pairing9bls12_38114g1_b_coeff_varE")
    g2 = I.global_obj("_ZN16embedded_pairing9bls12_38114g2_b_coeff_varE")
    v1 = I.load_bytes(g1, 0, 48)
    v2 = (I.load_bytes(g2, 0, 48), I.load_bytes(g2, 48, 48))
    if v1 != want or v2 != (want, want):
        raise Violation("constants:b", "curve coefficient constants are not 4 and 4(1+u)", {"g1_b": hex(v1), "g2_b": [hex(v2[0]), hex(v2[1])]})
    return {"queries": 2, "sample": "g1_b_coeff_var == 4, g2_b_coeff_var == 4+4u (Montgomery form)"}


def register(chk, prog):
    chk.add("constants:curve-b", ob_constants, prog)
    for k in (0, 1):
        g = GNAME[k]
        for mixed in (False, True):
            for (ra, rb, rel) in pair_cases(mixed):
                chk.add("%s:add%s:%s+%s:%s" % (g, "_mixed" if mixed else "", ra, rb, rel), ob_add, prog, k, mixed, ra, rb, rel)
        for rep in ("gen", "z1", "O"):
            chk.add("%s:double:%s" % (g, rep), ob_double, prog, k, rep, False)
            chk.add("%s:negate:%s" % (g, rep), ob_negate, prog, k, rep)
            chk.add("%s:from_affine:%s" % (g, "O" if rep == "O" else "aff"), ob_from_affine, prog, k, rep) if rep != "z1" else None
            chk.add("%s:from_projective:%s" % (g, rep), ob_from_projective, prog, k, rep)
        chk.add("%s:double:gen:y0" % g, ob_double, prog, k, "gen", True)
        chk.add("%s:is_zero" % g, ob_is_zero, prog, k)
        chk.add("%s:affine-misc" % g, ob_affine_misc, prog, k)
        for ra in ("gen", "z1", "O"):
            for rb in ("gen", "z1", "O"):
                if ra == "O" or rb == "O":
                    chk.add("%s:equal:%s,%s:identity" % (g, ra, rb), ob_equal, prog, k, ra, rb, "identity")
                else:
                    for rel in ("same", "opposite", "diff-x", "diff-y"):
                        chk.add("%s:equal:%s,%s:%s" % (g, ra, rb, rel), ob_equal, prog, k, ra, rb, rel)


def include_in(chk):
    """this check's obligations registered inside a check of a layer above (framework.Check.include)"""
    prog = build.load_program("A", files=["src/bls12_381/curve.cpp", "src/bls12_381/fq2.cpp", "src/bls12_381/fq.cpp",
                                           "src/bls12_381/curve_fast_multiply.cpp", "src/bls12_381/pairing.cpp",
                                           "src/bls12_381/bls12_381.cpp"], tag="c05")
    prog.demangle_all()
    register(chk, prog)


def main(argv=None):
    chk = Check("C05", "proof", argv)
    prog = build.load_program("A", files=["src/bls12_381/curve.cpp", "src/bls12_381/fq2.cpp", "src/bls12_381/fq.cpp",
                                           "src/bls12_381/curve_fast_multiply.cpp", "src/bls12_381/pairing.cpp",
                                           "src/bls12_381/bls12_381.cpp"], tag="c05")
    prog.demangle_all()
    register(chk, prog)
    chk.explanation = ("Projective::add (Jacobian and mixed), multiply2, negate, equal, is_zero, from_affine and Affine::from_projective, negate, "
                       "equal, is_on_curve for G1 (over Fq) and G2 (over Fq2 as a commutative ring of indeterminates) are symbolically executed "
                       "from the IR; operands are case parametrisations, branches are decided by polynomial identities or solver-checked factor "
                       "certificates, results are compared with the affine chord-and-tangent law by cross-multiplied identities mod q (z3).")
    chk.bounds = ["all curve points in every representation: cases {O+O,O+Q,P+O,P+P,P+(-P),x1!=x2, y=0} x representations {z arbitrary, z=1, z=0 with free x,y, affine}",
                  "no loops; no operand bounds"]
    chk.trusted = ["T4: chord-and-tangent formulas are the group law; on a curve x1=x2 implies y2=+-y1 (case split exhaustive)",
                   "T3: Z[x]->Fq[x] transfer", "C02/C04: base-field operations are exact", "clang -O1 vs -Ofast"]
    chk.assumptions = ["base field behaves as a commutative ring without zero divisors (C02, C04)"]
    # lower layers whose specifications this check relies on: their obligations are part of this check's claim (framework.Check.include)
    for dep in ['C02', 'C03', 'C04', 'C18', 'C19', 'C20']:
        chk.include(dep)
    chk.run()
    chk.finish()


if __name__ == "__main__":
    main()
