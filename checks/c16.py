"""C16 - LQ-IBE: decryption re-derives the encryption key, bound to the identity (DESIGN.md section 5, C16).

setup, compute_id_from_hash, MasterKey::unmarshal, keygen, encrypt, decrypt are executed from the IR of the current tree over formal
discrete logarithms (checks/lq.py); the caller's hash is an uninterpreted recorder.
  layout     SymmetricKeyHashBuffer has no padding (size = sum of its members, from the IR type) and is handed to the hash whole
  setup      post-state: params.sp = [s] params.p for the scalar s stored in the master key; params.p is a fresh generator
  positive   for EVERY 32-byte master key (the integer s in [0, 2^256) is not reduced by unmarshal), every identity hash, every requested
             length (a symbolic 64-bit value, so 0 is included) and params = (P, [s]P):  sk = keygen(msk, id) is [s]Q_id, and decrypt(ct, sk, id)
             hands the hash exactly the record encrypt handed it: same output pointer and length, same 48+96+576 bytes (token-wise), so
             the same key comes out; the same again entering through the C interface (embedded_pairing_lqibe_*)
  negative   (generic-group sense, T9; for s not congruent to 0 modulo r) the record differs in some component when the key belongs to
             another identity, to another master scalar modulo r, or the ciphertext is altered:  'all components equal' is unsatisfiable
"""
import sys
import os
sys.path.insert(0, os.path.dirname(os.path.dirname(os.path.abspath(__file__))))
sys.path.insert(0, os.path.dirname(os.path.abspath(__file__)))

import z3
import lq
from lq import World, Tok
from engine import eir
from engine.dom_grp import Poly, GE, SV, R_ORDER
from engine.eir import Ptr, Obj, is_conc
from engine.framework import Check, Violation, Inconclusive


def stats(W, n, fns, sample):
    return {"queries": W.G.queries + getattr(W.I, "vc_count", 0), "paths": n, "functions": [W.prog.demangled[f][:110] for f in fns], "sample": sample}


def model_scalars(mdl, vs):
    return {str(v): hex(mdl.eval(v, model_completion=True).as_long()) for v in vs} if mdl is not None and mdl is not True else {}


# ---------------------------------------------------------------------------------------------------------------
def ob_layout():
    W = World()
    L = W.L
    total = sum(sz for _, sz in L.buf_fields)
    off = 0
    for fo, sz in L.buf_fields:
        if fo != off:
            raise Violation("layout:padding", "SymmetricKeyHashBuffer has padding before offset %d" % fo, {"fields": L.buf_fields})
        off += sz
    if L.sizes["SymmetricKeyHashBuffer"] != total or [sz for _, sz in L.buf_fields] != [48, 96, 576]:
        raise Violation("layout:size", "SymmetricKeyHashBuffer is %d bytes, its members are %r" % (L.sizes["SymmetricKeyHashBuffer"], L.buf_fields), {})
    return {"queries": 0, "paths": 0, "functions": ["struct lqibe::SymmetricKeyHashBuffer (IR type)"],
            "sample": "ground: fields at %r, size %d = 48 + 96 + 576" % (L.buf_fields, total)}


def ob_setup():
    W = World()
    f = W.fn("setup")

    def once():
        W.G.nsym = 0
        params = Obj("params", W.L.sizes["Params"], "arg", 16)
        msk = Obj("msk", 32, "arg", 16)
        W.I.call_named(f, [Ptr(params, 0), Ptr(msk, 0), W.cb])
        return W.M.read(Ptr(params, W.L.P_p), "G2").p, W.M.read(Ptr(params, W.L.P_sp), "G2").p, W.M.read(Ptr(msk, 0), "SC").p
    n = 0
    for path, (p, sp, s) in W.I.explore(once, 16):
        n += 1
        ok, mono, _ = W.G.equal(sp, p * s, path.pc)
        if not ok:
            raise Violation("setup:sp", "setup: params.sp is not [s]params.p for the scalar stored in the master key (monomial %s)" % (mono,), {})
        gens = [m for m in p.t if len(m) == 1 and m[0][0].startswith("genG2_")]
        if len(p.t) != 1 or not gens or p.t[gens[0]] != 1:
            raise Violation("setup:p", "setup: params.p is not a freshly sampled generator (%r)" % (p,), {})
        if not (len(s.t) == 1 and list(s.t)[0][0][0].startswith("rnd")):
            raise Violation("setup:s", "setup: the master scalar is not the sampled scalar (%r)" % (s,), {})
    if not n:
        raise Inconclusive("no path through setup")
    return stats(W, n, [f], "params.sp = [s]params.p, s = the scalar PowersOfX::random returned, p = G2::random_generator")


def scenario(W):
    """objects shared by the positive and negative obligations: master key bytes, output buffer of symbolic size, symbolic requested length"""
    mb, S, s_int = W.scalar_bytes("")
    sym = Ptr(Obj("symmetric", z3.BitVec("buflen", 64), "arg", 1), 0)
    length = z3.BitVec("len", 64)
    return mb, S, s_int, sym, length


def ob_positive(c_api=False):
    W = World(c_api=c_api)
    mb, S, s_int, sym, length = scenario(W)
    hobj = W.hash_obj("a")
    fns = [W.fn(n) for n in ("compute_id_from_hash", "keygen", "encrypt", "decrypt")]
    ce0 = {"functions": ["keygen", "encrypt", "decrypt"]}

    def once():
        W.G.nsym = 0
        del W.records[:]
        W.hashed.clear()
        msk = W.unmarshal_msk(mb)
        ido = W.compute_id(hobj)
        sk = W.keygen(msk, ido)
        ct, E = W.encrypt(W.params_obj(s_int), ido, sym, length)
        ct.const = True
        D = W.decrypt(ct, sk, ido, sym, length)
        return W.g1a(ido), W.g1a(sk), W.g2a(ct), E, D
    n = 0
    for path, (q, sq, rp, E, D) in W.I.explore(once, 64):
        n += 1
        pc = list(path.pc)
        if not (len(q.t) == 1 and list(q.t)[0] == (("H0", 1),)):
            raise Violation("id:shape", "compute_id_from_hash: the identity point is not a multiple of the hashed curve point (%r)" % (q,), ce0)
        ok, mono, mdl = W.G.equal(sq, q * Poly.const(s_int), pc)
        if not ok:
            raise Violation("keygen:sk", "keygen: the secret key is not [s]Q_id for the master scalar s as unmarshalled (no reduction modulo r is applied by "
                            "unmarshal, and s may exceed r)", dict(ce0, master_scalar=model_scalars(mdl, [S]).get("S"), kind="keygen"))
        for nm, rec in (("encrypt", E), ("decrypt", D)):
            if W.shape(rec) != [(0, 48, "G1c"), (48, 96, "G2c"), (144, 576, "GT")] or rec["in_len"] != W.L.sizes["SymmetricKeyHashBuffer"]:
                raise Violation(nm + ":hash-input-shape", "%s hashes %r (%d bytes), expected compressed id || compressed ciphertext || pairing value" % (
                    nm, W.shape(rec), rec["in_len"]), ce0)
            if not (rec["out"].obj is sym.obj and is_conc(rec["out"].off) and rec["out"].off == 0):
                raise Violation(nm + ":hash-output", "%s does not pass the caller's output buffer to the hash" % nm, ce0)
            r, mdl = W.solve(pc, [eir.as_bv(rec["out_len"], 64) != length], "requested length")
            if r == z3.sat:
                raise Violation(nm + ":hash-length", "%s asks the hash for a different number of bytes than requested" % nm,
                                dict(ce0, requested=str(mdl.eval(length, model_completion=True))))
        for (o, sz, ve), (_, _, vd), what in zip(E["items"], D["items"], ("identity", "ciphertext", "pairing value")):
            ok, mono, mdl = W.G.equal(ve.ge.p, vd.ge.p, pc)
            if not ok:
                raise Violation("decrypt:" + what.split()[0], "decrypt hashes a different %s than encrypt did (formal monomial %s): the derived keys differ" % (what, mono),
                                dict(ce0, master_scalar=model_scalars(mdl, [S]).get("S"), kind="roundtrip"))
        ok, mono, _ = W.G.equal(E["items"][0][2].ge.p, q, pc)
        ok2, _, _ = W.G.equal(E["items"][1][2].ge.p, rp, pc)
        if not (ok and ok2):
            raise Violation("encrypt:hash-input", "encrypt does not hash the identity point and the ciphertext it outputs", ce0)
    if not n:
        raise Inconclusive("no feasible path")
    for tag in ("pairing", "Encoding<G1Affine,true>::encode", "Encoding<G2Affine,true>::encode", "Fq12::write_big_endian", "G1Affine::from_hash",
                "G1::multiply<G1Affine>(BigInt<128>)", "G1::multiply", "G2::multiply"):
        if not W.I.intercept_hits.get(tag):
            raise Inconclusive("the group-layer function %s was never reached (vacuity guard)" % tag)
    return stats(W, n, fns, "%d path(s); master key = 32 symbolic bytes (s up to 2^256-1), identity hash = 48 symbolic bytes, length symbolic" % n)


NEG = ("other-identity-key", "other-identity", "other-master-scalar", "altered-ciphertext")


def ob_negative(kind):
    W = World()
    mb, S, s_int, sym, length = scenario(W)
    ha, hb = W.hash_obj("a"), W.hash_obj("b")
    mb2, S2, s2_int = W.scalar_bytes("2")
    hyp = [s_int % R_ORDER != 0]
    if kind == "other-master-scalar":
        hyp.append((s_int - s2_int) % R_ORDER != 0)

    def once():
        W.G.nsym = 0
        del W.records[:]
        W.hashed.clear()
        msk = W.unmarshal_msk(mb)
        ida = W.compute_id(ha, "idA")
        ct, E = W.encrypt(W.params_obj(s_int), ida, sym, length)
        use_id = ida
        if kind.startswith("other-identity"):
            idb = W.compute_id(hb, "idB")
            sk = W.keygen(msk, idb)
            if kind == "other-identity":
                use_id = idb
        elif kind == "other-master-scalar":
            sk = W.keygen(W.unmarshal_msk(mb2), ida)
        else:
            sk = W.keygen(msk, ida)
            rp = W.g2a(ct)
            W.I.store_cell(ct, 0, 193, GE("G2", rp + W.G.sym("junk")))
        ct.const = True
        D = W.decrypt(ct, sk, use_id, sym, length)
        return E, D
    n = 0
    for path, (E, D) in W.I.explore(once, 64):
        n += 1
        r, _ = W.solve(path.pc, hyp, "hypotheses are satisfiable")
        if r != z3.sat:
            raise Inconclusive("the hypotheses of the negative statement are not satisfiable (vacuous)")
        f = W.same_formula(E, D)
        if f is None:
            continue
        r, mdl = W.solve(path.pc, [f] + hyp, "record comparison")
        if r != z3.unsat:
            raise Violation("negative:" + kind, "decrypt re-derives the hash input of encrypt although %s" % {
                "other-identity-key": "the secret key was issued for a different identity",
                "other-identity": "key and claimed identity are those of a different identity",
                "other-master-scalar": "the secret key comes from a master scalar that differs modulo r",
                "altered-ciphertext": "the ciphertext was altered"}[kind], {"kind": kind, "model": model_scalars(mdl, [S, S2])})
    if not n:
        raise Inconclusive("no feasible path")
    return stats(W, n, [W.fn("encrypt"), W.fn("decrypt"), W.fn("keygen")], "%d path(s); 'all hashed components equal' is unsatisfiable (%s)" % (n, kind))


# ---------------------------------------------------------------------------------------------------------------
def replay_c16(res):
    """native replay of a master-scalar counterexample: keygen / encrypt / decrypt with a recording hash on the real build"""
    ce = res.counterexample or {}
    s = ce.get("master_scalar")
    if not s:
        return None
    import natreplay
    out = natreplay.run(["lqibe %s" % s[2:]])[0]
    ce["native_replay"] = out
    return out.startswith("DIFF")


def register(chk):
    chk.add("layout:SymmetricKeyHashBuffer", ob_layout)
    chk.add("setup", ob_setup)
    chk.add("positive:roundtrip", ob_positive)
    chk.add("positive:roundtrip:c-interface", ob_positive, True)
    for k in NEG:
        chk.add("negative:" + k, ob_negative, k)


def include_in(chk):
    """this check's obligations registered inside another check (framework.Check.include): the LQ-IBE operations run on objects of exactly the
    documented sizes with every access checked (memory safety of valid calls, C17 part 2)"""
    chk.replayer = replay_c16
    lq.prog()
    register(chk)


def main(argv=None):
    chk = Check("C16", "proof", argv)
    chk.replayer = replay_c16
    lq.prog()
    register(chk)
    chk.explanation = __doc__.strip()
    chk.bounds = ["master key: all 32-byte strings (256-bit bit-vector, integer value up to 2^256-1, not reduced); identity hash: all 48-byte strings "
                  "(the hashed point is an uninterpreted function of the bytes); requested length: all 64-bit values incl. 0; encryption randomness: a formal symbol",
                  "no loops in these functions; the group layer is summarised (see trusted base)",
                  "negative statements in the generic-group sense (T9), for master scalars not congruent to 0 modulo r"]
    chk.trusted = ["group layer specification: scalar multiplication = [k]P for the integer k (C06, incl. k >= r), pairing bilinear (C01), PowersOfX::random / "
                   "random_generator (C10, C07), encodings injective (C09), Fq12::write_big_endian injective (C15)",
                   "formal-symbol independence of hash-derived points (distinct hashes give independent generators: random-oracle style assumption) and T9",
                   "the C wrappers forward unchanged (C19)", "z3 (LIA with bv2int for the unmarshalled scalar)"]
    chk.assumptions = ["params = (P, [s]P) for the master scalar s (setup's post-state, and what any honest holder of an unmarshalled master key publishes)"]
    # lower layers whose specifications this check relies on: their obligations are part of this check's claim (framework.Check.include)
    for dep in ['C06', 'C09', 'C02', 'C03', 'C04', 'C05', 'C01', 'C07', 'C10', 'C19', 'C20']:
        chk.include(dep)
    chk.include("C15")    # fq12-io: the symmetric key is hashed from Fq12::write_big_endian of the pairing value; the rest: objects loaded from bytes are the marshalled ones

    chk.run()
    chk.finish()


if __name__ == "__main__":
    main()
