"""C15 - scheme objects survive marshalling unchanged and length accounting is exact (DESIGN.md section 5, C15).

Every WKD-IBE object kind (Params, SecretKey with its FreeSlots, Ciphertext, Signature, MasterKey) and LQ-IBE object kind (Params, ID, MasterKey,
SecretKey, Ciphertext) is driven through its C wrappers (embedded_pairing_*_marshal / _unmarshal / _set_length / _get_marshalled_length /
_marshalled_length / _unmarshalled_length) in both encodings, from the IR of the current tree; model of the layer below: see checks/marsh.py.
  length:<kind>:<enc>        (b) the length functions, with the slot count l (32 bit), the buffer length (64 bit) and the first byte SYMBOLIC:
        complete   len = marshalled_length(l, s) and (first byte != 0) = s   =>  unmarshalled_length(buf, len) = l
        sound      unmarshalled_length(buf, len) = r != -1                   =>  r >= 0 and marshalled_length(r, first byte != 0) = len
                   (so every length that is not of the form is answered -1; lengths up to 2^32)
        mismatch   len = marshalled_length(l, s) read with the other flag    =>  the answer is not l  (a shared length never silently gives the count)
        injective  marshalled_length(l, s) = marshalled_length(l', s)        =>  l = l'
        set_length returns unmarshalled_length and stores it in the object iff it is not -1 (otherwise the stale count stays);
        get_marshalled_length(object) = marshalled_length(object.l, object.signatures); the nsw/nuw arithmetic of the formulas does not overflow
  roundtrip:<kind>:<enc>[:l:sig]   (a) marshal into a buffer of exactly the reported length: no write outside it (A-MEM) and every byte of it written;
        every element is encoded in the requested form; the free-slot index bytes are the big-endian bytes of a symbolic 32-bit index;
        (c) set_length on that buffer gives l (object held a stale symbolic count), unmarshal (checked and unchecked) returns true and every
        field equals the original: group elements, index of each slot, l, signatures flag, raw bytes of the LQ-IBE master scalar; for
        compressed Params the recomputed pairing equals the original under pairing = e(g2, g1); every decode received the caller's `checked`
  reject:<kind>:<enc>[:l:sig]      (d) unmarshal on a correctly framed buffer whose element bytes are arbitrary: decode of every element is a free
        Boolean; on every path unmarshal returns true iff every decode on the path returned true, and the accepting path decodes exactly
        the number of elements of the shape
  fq12-io:roundtrip   the 576-byte token used above is justified by running the REAL Fq12/Fq6/Fq2::write/read_big_endian over 48-byte Fq tokens:
        write puts each of the 12 coefficients exactly once into 12 x 48 bytes (injective given Fq::write_big_endian, C02), read(write(a)) = a
Alignment findings on the caller's buffer are recorded during the run (not fatal, so the other verdicts are still produced) and reported as
roundtrip:*:align at the end; C17 reports the same events per function.
"""
import sys
import os
sys.path.insert(0, os.path.dirname(os.path.dirname(os.path.abspath(__file__))))
sys.path.insert(0, os.path.dirname(os.path.abspath(__file__)))

import z3
import marsh
from marsh import World, BY_NAME, KINDS, Enc, BE12, call, c_marshal, c_unmarshal, fname
from engine import eir
from engine.eir import Ptr, Obj, is_conc, MemViolation, as_bv
from engine.framework import Check, Violation, Inconclusive

TAG = "c15"
LMAX = (1 << 31) - 2        # largest slot count for which marshalled_length(l, true) has no signed overflow
NMAX = 1 << 32              # buffer lengths considered by the soundness statement


def bv(v, bits):
    return as_bv(v, bits)


def ob_lengths(kname, comp):
    kind = BY_NAME[kname]
    W = World(TAG)
    I = W.I
    lv, lw, n, fb = z3.BitVec("l", 32), z3.BitVec("l2", 32), z3.BitVec("len", 64), z3.BitVec("first_byte", 8)
    I.assumptions = [z3.ULE(lv, LMAX), z3.ULE(lw, LMAX)]
    key = "length:%s:%s" % (kname, fname(comp))
    try:
        ML = {s: bv(call(W, kind, "marshalled_length", lv, s, int(comp)), 64) for s in (0, 1)}
        for s in (0, 1):
            o, _ = marsh.new_dest(W, kind, "obj")
            I.store_cell(o, kind.off(W.P, kind.var[0]), 4, lv)
            I.store_cell(o, kind.off(W.P, kind.var[1]), 1, s)
            g = bv(call(W, kind, "get_marshalled_length", Ptr(o, 0), int(comp)), 64)
            ok, mdl = W.prove([], g == ML[s], "get_marshalled_length")
            if not ok:
                raise Violation(key + ":get", "get_marshalled_length differs from marshalled_length(l, %d)" % s, marsh.model_ints(mdl, lv))
            ok, mdl = W.prove([], z3.Implies(ML[s] == z3.substitute(ML[s], (lv, lw)), lv == lw), "injective")
            if not ok:
                raise Violation(key + ":injective", "two slot counts share a marshalled length", marsh.model_ints(mdl, lv, lw))

        def once():
            buf = Obj("buf", 1, "arg", 1, True)
            buf.cells[0] = (1, fb)
            ul = call(W, kind, "unmarshalled_length", Ptr(buf, 0), n, int(comp))
            o, stale = marsh.new_dest(W, kind, "obj")
            sl = call(W, kind, "set_length", Ptr(o, 0), Ptr(buf, 0), n, int(comp))
            return bv(ul, 32), bv(sl, 32), bv(I.load_bytes(o, kind.off(W.P, kind.var[0]), 4), 32), stale
        npaths = 0
        for path, (ul, sl, lnow, stale) in I.explore(once, 64):
            npaths += 1
            pc = list(path.pc)
            sigb = fb != 0
            for s in (0, 1):
                flag = sigb if s else z3.Not(sigb)
                ok, mdl = W.prove(pc + [flag, n == ML[s]], ul == lv, "complete")
                if not ok:
                    raise Violation(key + ":complete", "unmarshalled_length(marshalled_length(l, %d)) is not l" % s, marsh.model_ints(mdl, lv, n, fb, ul))
                ok, mdl = W.prove(pc + [z3.Not(flag), n == ML[s]], ul != lv, "mismatch")
                if not ok:
                    raise Violation(key + ":mismatch", "a length produced with signatures=%d and read with the other flag byte still reports l" % s,
                                    marsh.model_ints(mdl, lv, n, fb, ul))
            back = z3.If(sigb, z3.substitute(ML[1], (lv, ul)), z3.substitute(ML[0], (lv, ul)))
            ok, mdl = W.prove(pc + [ul != 0xffffffff, z3.ULE(n, NMAX)], z3.And(z3.ULE(ul, LMAX), back == n), "sound")
            if not ok:
                raise Violation(key + ":sound", "unmarshalled_length accepts a length that is not marshalled_length(result, first byte != 0)",
                                marsh.model_ints(mdl, n, fb, ul))
            ok, mdl = W.prove(pc, z3.And(sl == ul, lnow == z3.If(ul == 0xffffffff, stale, ul)), "set_length")
            if not ok:
                raise Violation(key + ":set_length", "set_length does not return unmarshalled_length / does not store it exactly when it is not -1 "
                                "(a stale slot count survives or is overwritten)", marsh.model_ints(mdl, n, fb, ul, sl, lnow, stale))
    except MemViolation as e:
        raise Violation(key + ":" + e.kind, str(e), marsh.model_ints(e.model, lv, n, fb) if getattr(e, "model", None) is not None else None)
    return W.stats(npaths, [kind.fn(x) for x in ("marshalled_length", "unmarshalled_length", "set_length", "get_marshalled_length")],
                   "l, length, first byte symbolic; %d paths" % npaths)


def shape_suffix(kind, l, sig):
    return ":l=%d:sig=%d" % (l, sig) if kind.var else ""


def reported_length(W, kind, o, l, sig, comp, key):
    if not kind.var:
        return marsh.fixed_length(W, kind, comp)
    a = call(W, kind, "marshalled_length", l, int(sig), int(comp))
    b = call(W, kind, "get_marshalled_length", Ptr(o, 0), int(comp))
    if not (is_conc(a) and is_conc(b)):
        raise Inconclusive("marshalled length of a concrete shape is symbolic")
    if a != b:
        raise Violation(key + ":length", "marshalled_length(%d,%d) = %d but get_marshalled_length(object) = %d" % (l, sig, a, b), None)
    return a


def ob_roundtrip(kname, comp, l, sig):
    kind = BY_NAME[kname]
    W = World(TAG)
    I, G = W.I, W.G
    key = "roundtrip:%s:%s%s" % (kname, fname(comp), shape_suffix(kind, l, sig))
    ce = {"kind": kname, "compressed": comp, "l": l, "signatures": sig}
    o, want = marsh.build_obj(W, kind, l, sig, comp)
    L = reported_length(W, kind, o, l, sig, comp, key)
    # ---- (a) exact write set
    buf = Obj("buf", L, "arg", 1)
    try:
        c_marshal(W, kind, buf, o, comp)
    except MemViolation as e:
        raise Violation(key + ":marshal:" + e.kind, "marshal into a buffer of the reported %d bytes: %s" % (L, e), ce)
    miss = marsh.uncovered(buf, L)
    if miss:
        raise Violation(key + ":short", "marshal leaves %d of the reported %d bytes unwritten (first at offset %d)" % (len(miss), L, miss[0]), ce)
    toks = sorted((co, cv) for co, (cs, cv) in buf.cells.items() if isinstance(cv, Enc))
    for co, t in toks:
        if t.comp != bool(comp) and not kind.nocomp:
            raise Violation(key + ":form", "element at offset %d is written in the %s form" % (co, fname(t.comp)), ce)
    # ---- free-slot index: big-endian bytes right behind the slot's element
    for i, ix in enumerate(want["idx"]):
        at = [co for co, t in toks if t.ge.p.t == want["el"]["b[%d]" % i].t]
        if len(at) != 1:
            raise Violation(key + ":slot", "element of free slot %d is encoded %d times" % (i, len(at)), ce)
        p0 = at[0] + marsh.ENC_SIZE[("G1", bool(comp))]
        try:
            bs = [bv(I.load_bytes(buf, p0 + j, 1), 8) for j in range(4)]
        except eir.ExecError as e:
            raise Violation(key + ":idx-bytes", "the four bytes behind the element of slot %d are not plain bytes: %s" % (i, e), ce)
        ok, mdl = W.prove([], z3.Concat(*bs) == ix, "idx big-endian")
        if not ok:
            raise Violation(key + ":idx-bytes", "free-slot index is not stored big-endian behind its element",
                            dict(ce, idx=hex(mdl.eval(ix, model_completion=True).as_long()),
                                 bytes=[hex(mdl.eval(b, model_completion=True).as_long()) for b in bs]))
    # ---- (c) unmarshal gives the object back
    buf.const = True
    npaths = 0
    for checked in (1, 0):
        del I.codec[:]

        def once():
            out, stale = marsh.new_dest(W, kind)
            if kind.var:
                r = call(W, kind, "set_length", Ptr(out, 0), Ptr(buf, 0), L, int(comp))
                lnow = I.load_bytes(out, kind.off(W.P, kind.var[0]), 4)
                ok, mdl = W.prove(I.path.pc, z3.And(bv(r, 32) == l, bv(lnow, 32) == l), "set_length gives l")
                if not ok:
                    raise Violation(key + ":set_length", "set_length on the marshalled buffer returns %s and leaves l = %s in the object (expected %d)" % (r, lnow, l),
                                    dict(ce, **marsh.model_ints(mdl, stale)))
                marsh.attach_array(W, kind, out, l)
            return out, c_unmarshal(W, kind, out, buf, comp, checked)
        try:
            for path, (out, ret) in I.explore(once, 64):
                npaths += 1
                if not W.satisfiable(path.pc, "path feasible"):
                    continue
                if ret is not None:
                    ok, _ = W.prove(path.pc, eir.as_bool(ret) if not is_conc(ret) else z3.BoolVal(bool(ret)), "unmarshal accepts")
                    if not ok:
                        raise Violation(key + ":rejected", "unmarshal(checked=%d) rejects the library's own marshalling" % checked, ce)
                got = marsh.read_obj(W, kind, out, l, sig)
                for label, wp in want["el"].items():
                    if label not in got["el"]:
                        continue
                    okp, mono, _ = G.equal(got["el"][label], wp)
                    if not okp:
                        raise Violation(key + ":field:" + label.split("[")[0], "unmarshal(marshal(o)).%s is %r, o.%s is %r (checked=%d)" % (label, got["el"][label], label, wp, checked), ce)
                for i, (gi, wi) in enumerate(zip(got["idx"], want["idx"])):
                    ok, mdl = W.prove(path.pc, bv(gi, 32) == wi, "slot index")
                    if not ok:
                        raise Violation(key + ":idx", "index of free slot %d does not survive the round trip" % i, dict(ce, idx=hex(mdl.eval(wi, model_completion=True).as_long())))
                if kind.var:
                    ok, _ = W.prove(path.pc, z3.And(bv(got["l"], 32) == l, bv(got["sig"], 8) == int(sig)), "l and signatures flag")
                    if not ok:
                        raise Violation(key + ":header", "l / signatures of the unmarshalled object are %s / %s" % (got["l"], got["sig"]), ce)
                if want["raw"] is not None:
                    ok, _ = W.prove(path.pc, bv(got["raw"], 256) == want["raw"], "raw bytes")
                    if not ok:
                        raise Violation(key + ":raw", "raw scalar bytes do not survive the round trip", ce)
        except MemViolation as e:
            raise Violation(key + ":unmarshal:" + e.kind, "unmarshal(checked=%d) of the marshalled buffer: %s" % (checked, e), ce)
        decs = [c for c in I.codec if c[0] == "decode"]
        bad = [c for c in decs if not (is_conc(c[5]) and c[5] == checked)]
        if bad:
            raise Violation(key + ":checked-flag", "decode at buffer offset %s is called with checked=%r, the caller asked for %d" % (bad[0][4], bad[0][5], checked), ce)
        if len(decs) != kind.ndec(l, int(sig)):
            raise Violation(key + ":elements", "unmarshal decodes %d elements, the shape has %d" % (len(decs), kind.ndec(l, int(sig))), ce)
    if I.align_events:
        # the buffers are void* with no alignment contract: a round trip that the compiler was told happens on an N-aligned buffer is
        # undefined (and faults on aligned vector moves / on Cortex-M0+) for the other placements of the very same bytes
        e = I.align_events[0]
        raise Violation(key + ":align", "%s performs a %d-byte %s with declared alignment %d at %s+%s of the caller's 1-aligned buffer: the round trip "
                        "is only defined for some placements of the buffer" % (e[0], e[3], "store" if e[5] else "load", e[4], e[1], e[2]),
                        dict(ce, accesses=[list(map(str, x)) for x in I.align_events[:8]]))
    return W.stats(npaths, [kind.fn("marshal"), kind.fn("unmarshal")] + ([kind.fn("set_length")] if kind.var else []),
                   "%d bytes, %d elements, no access with a declared alignment above 1 on the buffer" % (L, len(toks)))


def ob_reject(kname, comp, l, sig):
    kind = BY_NAME[kname]
    W = World(TAG)
    I = W.I
    key = "reject:%s:%s%s" % (kname, fname(comp), shape_suffix(kind, l, sig))
    ce = {"kind": kname, "compressed": comp, "l": l, "signatures": sig}
    o, _ = marsh.build_obj(W, kind, l, sig, comp)
    L = reported_length(W, kind, o, l, sig, comp, key)
    fb = z3.BitVec("buf[0]", 8)
    if kind.var:
        I.assumptions = [fb != 0 if sig else fb == 0]
    npaths = accepted = rejected = 0

    def once():
        del I.codec[:]
        buf = Obj("buf", L, "arg", 1, True)
        buf.lazy = "buf"
        out, _ = marsh.new_dest(W, kind)
        if kind.var:
            call(W, kind, "set_length", Ptr(out, 0), Ptr(buf, 0), L, int(comp))
            marsh.attach_array(W, kind, out, l)
        return c_unmarshal(W, kind, out, buf, comp, 1)
    try:
        for path, ret in I.explore(once, 256):
            npaths += 1
            decs = [c for c in I.codec if c[0] == "decode"]
            allok = z3.And(*[z3.BoolVal(bool(c[6])) if is_conc(c[6]) else c[6] for c in decs]) if decs else z3.BoolVal(True)
            r = z3.BoolVal(bool(ret)) if is_conc(ret) else eir.as_bool(ret)
            ok, _ = W.prove(path.pc, r == allok, "accept iff every decode accepted")
            if not ok:
                pos = [c[4] for c in decs]
                raise Violation(key + ":accepts-invalid", "unmarshal's result is not 'every element decoded' on the path with decodes at offsets %r" % pos, ce)
            if W.satisfiable(list(path.pc) + [r], "accepting path"):
                accepted += 1
                if len(decs) != kind.ndec(l, int(sig)):
                    raise Violation(key + ":elements", "the accepting path decodes %d elements, the shape has %d" % (len(decs), kind.ndec(l, int(sig))), ce)
            if W.satisfiable(list(path.pc) + [z3.Not(r)], "rejecting path"):
                rejected += 1
    except MemViolation as e:
        raise Violation(key + ":" + e.kind, "unmarshal of a correctly framed %d-byte buffer: %s" % (L, e), ce)
    if accepted != 1 or not rejected:
        raise Inconclusive("vacuity guard: %d accepting and %d rejecting paths" % (accepted, rejected))
    return W.stats(npaths, [kind.fn("unmarshal")], "%d paths (%d can reject, 1 accepts after %d decodes)" % (npaths, rejected, kind.ndec(l, int(sig))))


def register(chk):
    def add(name, fn, *args):
        chk.add(name, marsh.guarded, name, fn, *args)
    lmax = 3 if chk.tier == "quick" else 6
    add("fq12-io:roundtrip", marsh.fq12_io, TAG, False)
    for kind in KINDS:
        for comp in marsh.forms(kind):
            if kind.var:
                add("length:%s:%s" % (kind.name, fname(comp)), ob_lengths, kind.name, comp)
            for l in (range(lmax + 1) if kind.var else (0,)):
                for sig in ((0, 1) if kind.var else (0,)):
                    sfx = shape_suffix(kind, l, sig)
                    add("roundtrip:%s:%s%s" % (kind.name, fname(comp), sfx), ob_roundtrip, kind.name, comp, l, sig)
                    if kind.ndec(l, sig):
                        add("reject:%s:%s%s" % (kind.name, fname(comp), sfx), ob_reject, kind.name, comp, l, sig)
    return lmax


def include_in(chk):
    """this check's obligations registered inside another check (framework.Check.include)"""
    marsh.prog(TAG)
    marsh.prog(TAG + "_tower", marsh.TOWER_FILES)
    register(chk)


def main(argv=None):
    chk = Check("C15", "proof", argv)
    marsh.prog(TAG)
    marsh.prog(TAG + "_tower", marsh.TOWER_FILES)
    lmax = register(chk)
    chk.explanation = __doc__.strip()
    chk.bounds = ["slot counts l = 0..%d x signatures on/off x {compressed, uncompressed} for round trip, write set and rejection (loops unrolled, no loop cut)" % lmax,
                  "length functions: all l in [0, 2^31-2] (beyond that marshalled_length(l, true) overflows int), all 64-bit lengths for 'complete'/'mismatch', "
                  "lengths <= 2^32 for 'sound' (for lengths beyond 2^31 slots the int truncation in unmarshalled_length is outside the claim), every first byte",
                  "free-slot index: all 2^32 values; LQ-IBE master scalar: all 2^256 byte strings"]
    chk.trusted = ["contract of Encoding::encode/decode (C09: writes/reads exactly Encoding::size bytes, decode(encode(P)) = (true, P), encode injective) as stated in "
                   "checks/marsh.py; Fq::write/read_big_endian write/read exactly 48 bytes, injective, read(write(v)) = v (C02) - the Fq12 level above it is run for real in "
                   "fq12-io:roundtrip; from_projective/from_affine are the identity on group elements (C05); pairing is a function of its two arguments (C01)",
                   "group-element equality is syntactic equality of formal symbols (ground comparison, no solver)", "clang -O1 IR of the current tree, E-IR, z3"]
    chk.assumptions = ["compressed Params: the object satisfies setup's post-condition pairing = e(g2, g1)",
                       "the bytes produced by Encoding::encode are opaque: C15 does not look inside them (C09 does)",
                       "out of scope: the Go-side marshalling in lang/go/*/marshal.go (no Go toolchain)"]
    chk.rule = ("one evaluation = one obligation; length:* are solver queries over symbolic l / length / first byte; roundtrip:* combine A-MEM bounds checks, solver queries "
                "on the index bytes, slot count and flags, and ground comparisons of formal group elements; reject:* are propositional queries over the decode results")
    # lower layers whose specifications this check relies on: their obligations are part of this check's claim (framework.Check.include)
    for dep in ['C09', 'C02', 'C03', 'C04', 'C05', 'C01', 'C19', 'C20']:      # C01: compressed Params recompute the pairing value on load
        chk.include(dep)
    chk.run()
    chk.finish()


if __name__ == "__main__":
    main()
