"""C19 - the C interface is a faithful view of the C++ implementation (DESIGN.md section 5, C19).

Three groups of obligations, all regenerated from the current tree on every run:
  layout:<cfg>     a C++ TU generated from specs/c19_layout.json (C type <-> C++ type, member <-> member) is compiled for seven
                   configurations; sizeof / alignof / offsetof / member types are read back as folded constants from the IR and
                   compared pairwise.  GROUND comparison: clang's constant folder does the work, no solver query is posed.
  constants:<cfg>  every exported pointer's static initialiser (read from the wrapper TU's IR) designates byte 0 of the C++ object
                   named in specs/c19_constants.json; the size_t constants equal the C++ constant expressions.  GROUND.
  coverage:<cfg>   the specifications cover every struct, member, constant and function of the C headers and every pointer cast
                   between a C struct and a C++ class in the wrappers' IR (guards against checking a stale / partial table).
  <cfg>:<wrapper>  each extern "C" function is executed symbolically with every callee replaced by an uninterpreted recorder;
                   per feasible path the call trace (callee, which argument went where, what is returned) must equal the trace in
                   specs/c19_map.json.  z3 decides path feasibility, case coverage and equality of scalar arguments / results.

`c19.py --record [file]` writes the traces observed on the current tree (used once to draft specs/c19_map.json, which was then
reviewed by hand against the C headers and include/*/api.hpp; the check never writes the specification itself).
"""
import sys
import os
import re
import json
import itertools
import subprocess
sys.path.insert(0, os.path.dirname(os.path.dirname(os.path.abspath(__file__))))

import z3
from engine import build, eir, irparse, framework
from engine.eir import Ptr, Obj, FnRef, ExecError, MemViolation, is_conc
from engine.framework import Check, Violation, Inconclusive

VERIF = os.path.dirname(os.path.dirname(os.path.abspath(__file__)))
SPECS = os.path.join(VERIF, "specs")
STUB = os.path.join(VERIF, "harness", "stub_include")
WRAPPER_TUS = ["src/bls12_381/bls12_381.cpp", "src/wkdibe/wkdibe.cpp", "src/lqibe/lqibe.cpp"]
_CROSS = ["-ffreestanding", "-nostdinc++", "-isystem", STUB]
LAYOUT_CONFIGS = {
    "A": [], "P64": ["-DDISABLE_ASM"], "P32": ["-DDISABLE_ASM", "-U__SIZEOF_INT128__"],
    "aarch64": ["--target=aarch64-linux-gnu"] + _CROSS, "aarch64-portable": ["--target=aarch64-linux-gnu", "-DDISABLE_ASM"] + _CROSS,
    "thumbv6m": ["--target=thumbv6m-none-eabi"] + _CROSS, "thumbv6m-portable": ["--target=thumbv6m-none-eabi", "-DDISABLE_ASM"] + _CROSS,
}
NSP = "embedded_pairing::"


def spec(name):
    with open(os.path.join(SPECS, name)) as f:
        return json.load(f)


# ---------------------------------------------------------------------------------------------------------------
# reader for the C side of the headers (declarations only; used for names and for the coverage obligation)
# ---------------------------------------------------------------------------------------------------------------
def _split_top(s, sep):
    out, depth, cur = [], 0, ""
    for ch in s:
        depth += ch in "({["
        depth -= ch in ")}]"
        if ch == sep and depth == 0:
            out.append(cur)
            cur = ""
        else:
            cur += ch
    return out + [cur]


def _param_name(p):
    m = re.search(r"\(\s*\*\s*(\w+)\s*\)", p)
    return m.group(1) if m else re.findall(r"\w+", p)[-1]


def read_c_headers(repo, headers):
    H = {"structs": {}, "aliases": {}, "functions": {}, "externs": {}}
    for h in headers:
        text = open(os.path.join(repo, "include", h)).read()
        text = re.sub(r"/\*.*?\*/", " ", text, flags=re.S)
        text = "\n".join(l for l in re.sub(r"//[^\n]*", "", text).split("\n") if not l.strip().startswith("#"))
        while True:
            m = re.search(r"typedef\s+struct\s*\{", text)
            if not m:
                break
            i, depth = m.end(), 1
            while depth:
                depth += (text[i] == "{") - (text[i] == "}")
                i += 1
            body = re.sub(r"\{[^{}]*\}", " ", text[m.end():i - 1])       # anonymous inner struct: keep only its declarator
            m2 = re.compile(r"\s*(\w+)\s*;").match(text, i)
            H["structs"][m2.group(1)] = [re.search(r"(\w+)\s*(?:\[.*\])?\s*$", st.strip()).group(1) for st in body.split(";") if st.strip()]
            text = text[:m.start()] + text[m2.end():]
        for m in re.finditer(r"typedef\s+([\w\s]+?)\s+(\w+)\s*;", text):
            H["aliases"][m.group(2)] = m.group(1).strip()
        for m in re.finditer(r"extern\s+const\s+(\w+)\s*(\*?)\s*(embedded_pairing_\w+)\s*;", text):
            H["externs"][m.group(3)] = (m.group(1), bool(m.group(2)))
        for m in re.finditer(r"(\w[\w ]*?)\s*\b(embedded_pairing_\w+)\s*\(((?:[^()]|\([^()]*\))*)\)\s*;", text):
            ps = [p.strip() for p in _split_top(m.group(3), ",")]
            H["functions"][m.group(2)] = (m.group(1).strip(), [] if ps in ([""], ["void"]) else [_param_name(p) for p in ps])
    return H


# ---------------------------------------------------------------------------------------------------------------
# (i) layout TU: generated, compiled per configuration, folded constants read back from the IR
# ---------------------------------------------------------------------------------------------------------------
def cxx_exprs_of_map(mp):
    out = set()
    for w in mp.get("wrappers", {}).values():
        for case in w["cases"]:
            for d in [case.get("ret", "void")] + [a for c in case["calls"] for a in c["args"]]:
                if isinstance(d, str) and d.startswith("cxx:"):
                    out.add(d[4:])
    return sorted(out)


def layout_probes(lay, cst, mp):
    """list of (key, C++ constant expression of integral type)"""
    P = []
    def mem(t, path):
        return "((%s*)0)->%s" % (t, path)
    for row in lay["pairs"]:
        c, x = row["c"], row["cxx"]
        for side, t in (("C", c), ("X", x)):
            P.append(("size:%s:%s" % (side, t), "sizeof(%s)" % t))
            P.append(("align:%s:%s" % (side, t), "alignof(%s)" % t))
        if row.get("same"):
            P.append(("same:%s|%s" % (c, x), "__is_same(%s, %s)" % (c, x)))
        for mb in row["members"]:
            for side, t, path in (("C", c, mb["c"]), ("X", x, mb["cxx"])):
                P.append(("off:%s:%s.%s" % (side, t, path), "__builtin_offsetof(%s, %s)" % (t, path)))
                P.append(("msize:%s:%s.%s" % (side, t, path), "sizeof(%s)" % mem(t, path)))
            if mb.get("same_type"):
                P.append(("same:%s.%s|%s.%s" % (c, mb["c"], x, mb["cxx"]), "__is_same(decltype(%s), decltype(%s))" % (mem(c, mb["c"]), mem(x, mb["cxx"]))))
            if mb.get("pointee"):
                cp, xp = mb["pointee"]
                P.append(("ptee:%s.%s|%s.%s" % (c, mb["c"], x, mb["cxx"]),
                          "__is_same(c19_ptee<decltype(%s)>::type, %s) && __is_same(c19_ptee<decltype(%s)>::type, %s)" % (mem(c, mb["c"]), cp, mem(x, mb["cxx"]), xp)))
    for i, al in enumerate(lay["array_lengths"]):
        for k in ("c", "cxx", "cxx2"):
            P.append(("len:%d:%s" % (i, k), al[k]))
    for name, e in cst["pointers"].items():
        P.append(("objtype:" + name, "__is_same(c19_nc<decltype(%s)>::type, %s)" % (e["object"], e["cxx"])))
        P.append(("objsize:" + name, "sizeof(%s)" % e["object"]))
    for e in sorted(set(v["cxx"] for v in cst["sizes"].values()) | set(cxx_exprs_of_map(mp))):
        P.append(("cxx:" + e, e))
    seen, out = set(), []
    for k, e in P:
        if k not in seen:
            seen.add(k)
            out.append((k, e))
    return out


def layout_source(lay, probes):
    L = ["// generated by /verif/checks/c19.py from /verif/specs/c19_layout.json - do not edit"]
    L += ['#include "%s"' % h for h in lay["c_headers"] + lay["cxx_headers"]]
    L += ["template <class T> struct c19_ptee { typedef void type; };",
          "template <class T> struct c19_ptee<T*> { typedef T type; };",
          "template <class T> struct c19_ptee<const T*> { typedef T type; };",
          "template <class T> struct c19_nc { typedef T type; };",
          "template <class T> struct c19_nc<const T> { typedef T type; };",
          'extern "C" {']
    for i, (k, e) in enumerate(probes):
        L.append("unsigned long long c19_p%d(void) { return (unsigned long long)(%s); }  // %s" % (i, e, k))
    L.append("}")
    return "\n".join(L) + "\n"


_LAYOUT = {}      # cfg -> {key: int} | Exception


def build_layout(cfgs, lay, cst, mp):
    d = build.workdir("c19_layout")
    probes = layout_probes(lay, cst, mp)
    src = os.path.join(d, "layout.cpp")
    with open(src, "w") as f:
        f.write(layout_source(lay, probes))
    procs = {}
    for cfg in cfgs:
        ll = os.path.join(d, "layout_%s.ll" % cfg)
        cmd = ["clang++-14", "-I" + os.path.join(build.REPO, "include"), "-std=c++17", "-O1", "-fno-exceptions", "-S", "-emit-llvm",
               "-fno-access-control", "-Wno-invalid-offsetof"] + LAYOUT_CONFIGS[cfg] + [src, "-o", ll]
        procs[cfg] = (ll, subprocess.Popen(cmd, stdout=subprocess.PIPE, stderr=subprocess.PIPE, text=True))
    for cfg, (ll, p) in procs.items():
        so, se = p.communicate()
        if p.returncode != 0:
            errs = [l for l in se.split("\n") if "error:" in l]
            _LAYOUT[cfg] = Violation("layout:%s:compile" % cfg, "the layout TU generated from the pairing table does not compile for configuration %s "
                                     "(a paired type or member does not exist / is not accessible in this tree): %s" % (cfg, " | ".join(errs[:4])[:900]),
                                     {"configuration": cfg, "errors": errs[:20]})
            continue
        m = irparse.parse_module(ll)
        vals = {}
        for i, (k, e) in enumerate(probes):
            ins = m.functions["c19_p%d" % i]
            body = ins.blocks[ins.order[0]]
            if len(body) != 1 or body[0].op != "ret" or not isinstance(body[0].args[0], irparse.ConstInt):
                _LAYOUT[cfg] = Inconclusive("probe %s was not folded to a constant in configuration %s" % (k, cfg))
                break
            vals[k] = body[0].args[0].v & ((1 << 64) - 1)
        else:
            _LAYOUT[cfg] = vals
    return probes


def layout_values(cfg):
    v = _LAYOUT.get(cfg)
    if isinstance(v, Exception):
        raise v
    if v is None:
        raise Inconclusive("layout TU was not built for configuration " + cfg)
    return v


def ob_layout(cfg):
    lay = spec("c19_layout.json")
    V = layout_values(cfg)
    bad, n = [], 0

    def cmp(key, what, a, b, na, nb):
        nonlocal n
        n += 1
        if a != b:
            bad.append({"key": key, "what": what, na: a, nb: b})

    for row in lay["pairs"]:
        c, x = row["c"], row["cxx"]
        for q in ("size", "align"):
            cmp("layout:%s:%s:%sof" % (cfg, c, q), "%sof(%s) vs %sof(%s)" % (q, c, q, x), V["%s:C:%s" % (q, c)], V["%s:X:%s" % (q, x)], "c", "cxx")
        if row.get("same"):
            cmp("layout:%s:%s:type" % (cfg, c), "%s and %s are the same type" % (c, x), V["same:%s|%s" % (c, x)], 1, "observed", "expected")
        for mb in row["members"]:
            mc, mx = "%s.%s" % (c, mb["c"]), "%s.%s" % (x, mb["cxx"])
            cmp("layout:%s:%s:offsetof" % (cfg, mc), "offsetof %s vs %s" % (mc, mx), V["off:C:" + mc], V["off:X:" + mx], "c", "cxx")
            cmp("layout:%s:%s:sizeof" % (cfg, mc), "sizeof member %s vs %s" % (mc, mx), V["msize:C:" + mc], V["msize:X:" + mx], "c", "cxx")
            if mb.get("same_type"):
                cmp("layout:%s:%s:type" % (cfg, mc), "members %s and %s have the same type" % (mc, mx), V["same:%s|%s" % (mc, mx)], 1, "observed", "expected")
            if mb.get("pointee"):
                cmp("layout:%s:%s:pointee" % (cfg, mc), "pointer members %s / %s point to %s / %s" % (mc, mx, mb["pointee"][0], mb["pointee"][1]),
                    V["ptee:%s|%s" % (mc, mx)], 1, "observed", "expected")
                if not any(r["c"] == mb["pointee"][0] and r["cxx"] == mb["pointee"][1] for r in lay["pairs"]):
                    bad.append({"key": "layout:%s:%s:pointee-row" % (cfg, mc), "what": "pointee pair %r is not a row of the table" % (mb["pointee"],)})
    for i, al in enumerate(lay["array_lengths"]):
        for k in ("c", "cxx", "cxx2"):
            cmp("layout:%s:len%d:%s" % (cfg, i, k), al["what"] + " [" + al[k] + "]", V["len:%d:%s" % (i, k)], al["value"], "observed", "expected")
    if bad:
        raise Violation(bad[0]["key"], "configuration %s: %d layout mismatch(es) between the C headers and the C++ types; first: %s %r" % (
            cfg, len(bad), bad[0]["what"], {k: v for k, v in bad[0].items() if k not in ("key", "what")}), {"configuration": cfg, "mismatches": bad})
    return {"queries": 0, "paths": 0, "functions": [], "sample": "%d ground comparisons of compiler-folded constants, e.g. sizeof(g2prepared_t)=%d alignof=%d" % (
        n, V["size:C:embedded_pairing_bls12_381_g2prepared_t"], V["align:C:embedded_pairing_bls12_381_g2prepared_t"])}


# ---------------------------------------------------------------------------------------------------------------
# wrapper programs
# ---------------------------------------------------------------------------------------------------------------
_PROGS = {}       # cfg -> Program | Exception


def build_wrappers(cfg):
    try:
        prog = build.load_program(cfg, files=WRAPPER_TUS, tag="c19_" + cfg)
        prog.demangle_all()
        _PROGS[cfg] = prog
    except Exception as e:
        _PROGS[cfg] = Inconclusive("cannot lower the wrapper TUs for configuration %s: %s" % (cfg, str(e)[-600:]))


def prog_for(cfg):
    p = _PROGS[cfg]
    if isinstance(p, Exception):
        raise p
    return p


def wrappers_of(prog):
    return sorted(n for n, f in prog.fn.items() if n.startswith("embedded_pairing_") and not f.is_decl)


def short(d):
    return d.replace(NSP, "")


class WInterp(eir.Interp):
    """objects defined in other TUs (G1::zero, ...) become opaque placeholder objects"""
    def global_obj(self, name):
        try:
            return eir.Interp.global_obj(self, name)
        except ExecError:
            if name not in self.prog.gl:
                raise
            o = self.globals.get(name) or Obj("@" + name, 1 << 20, "global", 16, True)
            self.globals[name] = o
            return o


# ---------------------------------------------------------------------------------------------------------------
# (ii) constants
# ---------------------------------------------------------------------------------------------------------------
def ob_constants(cfg):
    cst, lay = spec("c19_constants.json"), spec("c19_layout.json")
    prog = prog_for(cfg)
    V = layout_values(cfg)
    I = WInterp(prog)
    bad, n = [], 0
    for name, e in cst["pointers"].items():
        n += 1
        key = "constants:%s:%s" % (cfg, name)
        if name not in prog.gl or prog.gl[name][0].init is None:
            bad.append({"key": key, "what": "exported pointer is not defined with a static initialiser in the wrapper TU"})
            continue
        cell = I.global_obj(name).cells.get(0)
        p = cell[1] if cell else None
        obs = "%s+%s" % (prog_dem(prog, p.obj.name[1:]), p.off) if isinstance(p, Ptr) and p.obj is not None else repr(p)
        if obs != e["object"] + "+0":
            bad.append({"key": key, "what": "initialiser designates the wrong object", "expected": e["object"] + "+0", "observed": obs})
        if V["objtype:" + name] != 1:
            bad.append({"key": key + ":type", "what": "%s does not have type %s" % (e["object"], e["cxx"])})
        if not any(r["c"] == e["c"] and r["cxx"] == e["cxx"] for r in lay["pairs"]):
            bad.append({"key": key + ":row", "what": "(%s, %s) is not a row of the layout table" % (e["c"], e["cxx"])})
        if V["objsize:" + name] != V["size:C:" + e["c"]]:
            bad.append({"key": key + ":size", "what": "sizeof(%s) differs from sizeof(%s)" % (e["object"], e["c"]),
                        "cxx": V["objsize:" + name], "c": V["size:C:" + e["c"]]})
    for name, e in cst["sizes"].items():
        n += 1
        key = "constants:%s:%s" % (cfg, name)
        g = prog.gl.get(name)
        if g is None or g[0].init is None or not g[0].const:
            bad.append({"key": key, "what": "size constant is not a defined constant in the wrapper TU"})
            continue
        obs = I.load_bytes(I.global_obj(name), 0, I.global_obj(name).size)
        if not (obs == V["cxx:" + e["cxx"]] == e["value"]):
            bad.append({"key": key, "what": "exported size differs from the C++ value", "c_constant": obs, "cxx": e["cxx"],
                        "cxx_value": V["cxx:" + e["cxx"]], "expected_literal": e["value"]})
    for dem, e in cst["values"].items():
        n += 1
        names = [g for g in prog.gl if prog_dem(prog, g) == dem]
        obs = I.load_bytes(I.global_obj(names[0]), 0, e["bytes"]) if len(names) == 1 else None
        if obs != int(e["value"], 16):
            bad.append({"key": "constants:%s:%s:value" % (cfg, dem), "what": "value of %s (%s)" % (dem, e["what"]),
                        "observed": hex(obs) if isinstance(obs, int) else repr(obs), "expected": e["value"]})
    if bad:
        raise Violation(bad[0]["key"], "configuration %s: %d exported constant(s) differ from the C++ value; first: %s %r" % (
            cfg, len(bad), bad[0]["what"], {k: v for k, v in bad[0].items() if k not in ("key", "what")}), {"configuration": cfg, "mismatches": bad})
    return {"queries": 0, "paths": 0, "functions": sorted(cst["pointers"]) + sorted(cst["sizes"]),
            "sample": "%d exported constants, ground comparison of IR initialisers (gt_zero -> Fq12::one, group_order -> fr_modulus = r, ...)" % n}


_DEM = {}


def prog_dem(prog, gname):
    if id(prog) not in _DEM:
        names = sorted(prog.gl)
        out = subprocess.run(["llvm-cxxfilt-14"], input="\n".join(names), capture_output=True, text=True, check=True).stdout.split("\n")
        _DEM[id(prog)] = dict(zip(names, out))
    return _DEM[id(prog)].get(gname, gname)


# ---------------------------------------------------------------------------------------------------------------
# coverage of the specifications
# ---------------------------------------------------------------------------------------------------------------
def ob_coverage(cfg):
    lay, cst, mp = spec("c19_layout.json"), spec("c19_constants.json"), spec("c19_map.json")
    H = read_c_headers(build.REPO, lay["c_headers"])
    prog = prog_for(cfg)
    bad, stale = [], []       # bad: the tree's C interface deviates from the specified one; stale: the specification does not cover the tree
    rows_c = set(r["c"] for r in lay["pairs"])
    for t in list(H["structs"]) + list(H["aliases"]):
        if t not in rows_c:
            stale.append("type %s of the C headers has no row in c19_layout.json" % t)
    for t, members in H["structs"].items():
        listed = set(re.split(r"[.\[]", mb["c"])[0] for r in lay["pairs"] if r["c"] == t for mb in r["members"])
        for m in members:
            if m not in listed:
                bad.append("member %s.%s of the C headers is not paired in c19_layout.json" % (t, m))
    def under(t):
        while t in H["aliases"] and t not in H["structs"]:
            t = H["aliases"][t]
        return t
    table = set((under(r["c"]), re.sub(r"<.*", "", r["cxx"])) for r in lay["pairs"])
    # every pointer cast C struct <-> C++ class in the wrappers' IR (LLVM names the class, template arguments stripped) must be a row
    defined = wrappers_of(prog)
    casts = set()
    for name in defined:
        for blk in prog.fn[name].blocks.values():
            for ins in blk:
                if ins.op == "bitcast" and isinstance(ins.ty, irparse.PtrTy) and isinstance(ins.extra, irparse.PtrTy) \
                        and isinstance(ins.ty.to, irparse.NamedTy) and isinstance(ins.extra.to, irparse.NamedTy):
                    a, b = ins.extra.to.name, ins.ty.to.name
                    if "::" in a:
                        a, b = b, a
                    if a.startswith("struct.embedded_pairing_") and "::" in b:
                        casts.add((a[len("struct."):], re.sub(r"\.\d+$", "", b.split(".", 1)[1])))
    if not casts:
        stale.append("no C-struct/C++-class pointer cast found in the wrappers' IR (vacuity guard: typed-pointer IR expected)")
    for c, x in sorted(casts):
        if (c, x) not in table:
            stale.append("wrapper IR casts %s* to %s* but that pair is not a row of c19_layout.json" % (c, x))
    for name, (ret, params) in H["functions"].items():
        if name not in defined:
            bad.append("function %s is declared in the C headers but not defined (with C linkage) in the wrapper TUs" % name)
        elif len(prog.fn[name].params) != len(params):
            bad.append("function %s: %d parameters in the header, %d in the definition" % (name, len(params), len(prog.fn[name].params)))
        if name not in mp["wrappers"]:
            stale.append("function %s of the C headers has no entry in c19_map.json" % name)
        elif mp["wrappers"][name]["params"] != params:
            stale.append("function %s: parameter names %r in the header, %r in c19_map.json" % (name, params, mp["wrappers"][name]["params"]))
    for name in defined:
        if name not in H["functions"]:
            stale.append("function %s is defined with C linkage but not declared in the C headers" % name)
    for name in mp["wrappers"]:
        if name not in H["functions"]:
            bad.append("c19_map.json describes %s, which the C headers do not declare" % name)
    spec_c = set(cst["pointers"]) | set(cst["sizes"])
    for name, (cty, isptr) in H["externs"].items():
        if name not in spec_c:
            stale.append("constant %s of the C headers has no entry in c19_constants.json" % name)
        elif isptr and cst["pointers"].get(name, {}).get("c") != cty:
            bad.append("constant %s: declared as pointer to %s, specification says %s" % (name, cty, cst["pointers"].get(name, {}).get("c")))
    for name in spec_c - set(H["externs"]):
        bad.append("c19_constants.json describes %s, which the C headers do not declare" % name)
    if bad:
        raise Violation("coverage:%s:%s" % (cfg, re.sub(r"\W+", "_", bad[0])[:80]), "configuration %s: specification and tree disagree about what the C "
                        "interface contains (%d item(s)); first: %s" % (cfg, len(bad), bad[0]), {"configuration": cfg, "items": bad + stale})
    if stale:
        raise Inconclusive("configuration %s: the specification does not cover the tree's C interface (%d item(s), re-review specs/c19_*.json): %s" % (
            cfg, len(stale), "; ".join(stale[:4])))
    return {"queries": 0, "paths": 0, "functions": defined,
            "sample": "%d structs, %d typedefs, %d functions, %d constants of the C headers and %d pointer-cast pairs of the wrapper IR are covered" % (
                len(H["structs"]), len(H["aliases"]), len(H["functions"]), len(H["externs"]), len(casts))}


# ---------------------------------------------------------------------------------------------------------------
# (iii) wrappers: symbolic execution with uninterpreted callees
# ---------------------------------------------------------------------------------------------------------------
class Run:
    """one symbolic execution set-up of a wrapper; run() is re-entrant (E-IR forks by re-execution)"""

    def __init__(self, prog, fname, pnames):
        self.prog, self.fname, self.fn = prog, fname, prog.fn[fname]
        self.lay = prog.layout(self.fn.module)
        if len(pnames) != len(self.fn.params):
            raise Violation("wrapper:%s:arity" % fname, "%s has %d parameters in the IR but %d in the specification" % (fname, len(self.fn.params), len(pnames)))
        self.pnames = pnames
        self.I = WInterp(prog)
        self.I.noalias_fatal = False
        self.I.add_intercept(r"(?s).*", self.callee)
        self.scalars = {}
        for prm, pn in zip(self.fn.params, pnames):
            t = self.lay.resolve(prm.ty)
            if isinstance(t, irparse.IntTy):
                self.scalars[pn] = z3.Bool(pn) if t.bits == 1 else z3.BitVec(pn, t.bits)

    def callee(self, I, name, args, site):
        if name.startswith("llvm.") and not re.match(r"llvm\.mem(cpy|move|set)", name):
            return I.intrinsic(name, args)
        k = len(self.trace)
        t = self.lay.resolve(site.ty)
        if isinstance(t, irparse.VoidTy):
            rv = None
        elif isinstance(t, irparse.IntTy):
            rv = z3.Bool("ret!%d" % k) if t.bits == 1 else z3.BitVec("ret!%d" % k, t.bits)
        elif isinstance(t, irparse.PtrTy):
            rv = Ptr(self.obj("retptr:%d" % k, "heap"), 0)
        else:
            raise ExecError("unsupported", "callee %s returns an aggregate" % name)
        self.trace.append((short(self.prog.demangled.get(name, name)), list(args), rv))
        return rv

    def obj(self, name, kind="arg"):
        o = Obj(name, 1 << 16, kind, 16)
        self.names[id(o)] = name
        self.keep.append(o)
        return o

    def run(self):
        self.trace, self.names, self.keep, args = [], {}, [], []
        for prm, pn in zip(self.fn.params, self.pnames):
            t = self.lay.resolve(prm.ty)
            if pn in self.scalars:
                args.append(self.scalars[pn])
            elif isinstance(t, irparse.PtrTy) and isinstance(self.lay.resolve(t.to), irparse.FnTy):
                args.append(FnRef(pn))
            elif isinstance(t, irparse.PtrTy):
                args.append(Ptr(self.obj(pn), 0))
            else:
                raise ExecError("unsupported", "parameter %s of %s has type %r" % (pn, self.fname, t))
        try:
            ret = self.I.call_function(self.fn, args)
        except MemViolation as e:
            if e.kind == "uninit":
                raise Violation("wrapper:%s:reads-memory" % self.fname, "%s reads argument / local memory itself (%s); the specification describes it as "
                                "pure forwarding to the C++ operation" % (self.fname, e.msg), {"wrapper": self.fname})
            raise
        for o in self.keep:                       # direct stores of the wrapper into its arguments are effects too
            for off, (sz, val) in sorted(o.cells.items()):
                self.trace.append(("<store %d bytes>" % sz, [Ptr(o, off), val], None))
        return list(self.trace), ret

    # -- describing values (record mode, counterexamples) and resolving descriptors (check mode)
    def objname(self, o):
        if id(o) in self.names:
            return self.names[id(o)]
        if o.kind == "global":
            return "global:" + short(prog_dem(self.prog, o.name[1:]))
        return "local:" + o.name.split(".%")[-1]

    def describe(self, v, trace, pc=()):
        if v is None:
            return "void"
        if isinstance(v, Ptr):
            if v.obj is None:
                return "null"
            return self.objname(v.obj) + ("" if is_conc(v.off) and v.off == 0 else "+%s" % (v.off,))
        if isinstance(v, FnRef):
            return v.name if v.name in self.pnames else "fn:" + short(self.prog.demangled.get(v.name, v.name))
        if is_conc(v):
            return "const:%d" % v
        cands = list(self.scalars.items()) + [("call:%d" % k, r) for k, (_, _, r) in enumerate(trace) if isinstance(r, z3.ExprRef)]
        for nm, c in cands:
            if v.eq(c):
                return nm
        s = z3.simplify(v)
        if z3.is_bv_value(s) or z3.is_true(s) or z3.is_false(s):
            return "const:%d" % (s.as_long() if z3.is_bv_value(s) else int(z3.is_true(s)))
        for nm, c in cands:
            if c.sort() == v.sort() and self.equal(v, c, pc)[0]:
                return nm
        sv = z3.Solver()                         # a constant under the path condition?  (select i1 %compressed, i64 720, i64 864)
        sv.add(*pc)
        if sv.check() == z3.sat:
            k = sv.model().eval(v, model_completion=True)
            k = k.as_long() if z3.is_bv_value(k) else int(z3.is_true(k))
            if self.equal(v, k, pc)[0]:
                return "const:%d" % k
        return "expr:" + str(s).replace("\n", " ")

    def equal(self, a, b, pc):
        """(True, None) if a == b on every input satisfying pc, else (False, model or None)"""
        if is_conc(a) and is_conc(b):
            return a == b, None
        if is_conc(a):
            a, b = b, a
        if not isinstance(a, z3.ExprRef):
            return False, None
        if is_conc(b):
            b = z3.BoolVal(bool(b)) if z3.is_bool(a) else z3.BitVecVal(b, a.size())
        if not isinstance(b, z3.ExprRef) or a.sort() != b.sort():
            return False, None
        s = self.I.solver
        s.push()
        try:
            for c in pc:
                s.add(c)
            s.add(a != b)
            r = s.check()
            self.queries += 1
            if r == z3.unknown:
                raise Inconclusive("solver unknown while comparing an argument of " + self.fname)
            return (r == z3.unsat), (s.model() if r == z3.sat else None)
        finally:
            s.pop()

    queries = 0

    def matches(self, v, d, trace, pc, cxxvals):
        """does the observed value v equal the specification descriptor d under pc?"""
        if d == "void":
            return v is None, None
        if v is None:
            return False, None
        if d.startswith("const:") or d.startswith("cxx:") or d in self.scalars or d.startswith("call:"):
            if d.startswith("const:"):
                e = int(d[6:])
            elif d.startswith("cxx:"):
                e = cxxvals["cxx:" + d[4:]]
            elif d in self.scalars:
                e = self.scalars[d]
            else:
                k = int(d[5:])
                e = trace[k][2] if k < len(trace) else None
            if isinstance(e, Ptr) or isinstance(v, (Ptr, FnRef)) or e is None:
                return (isinstance(v, Ptr) and isinstance(e, Ptr) and v.obj is e.obj and v.off == e.off), None
            return self.equal(v, e, pc)
        return self.describe(v, trace, pc) == d, None


def when_cond(run, when):
    cs = []
    for pn, val in when.items():
        v = run.scalars[pn]
        cs.append((v if val else z3.Not(v)) if z3.is_bool(v) else v == val)
    return cs


def model_dict(run, m):
    def py(e):
        return z3.is_true(e) if z3.is_bool(e) else e.as_long()
    return {pn: py(m.eval(v, model_completion=True)) for pn, v in run.scalars.items()} if m is not None else {}


def ob_wrapper(cfg, fname):
    mp = spec("c19_map.json")
    prog = prog_for(cfg)
    cxxvals = layout_values(cfg)
    if fname not in mp["wrappers"]:
        raise Inconclusive("%s is defined with C linkage but has no entry in specs/c19_map.json" % fname)
    if fname not in prog.fn or prog.fn[fname].is_decl:
        raise Violation("wrapper:%s:missing" % fname, "%s is specified (and declared in the C headers) but not defined with C linkage" % fname, {"wrapper": fname})
    w = mp["wrappers"][fname]
    run = Run(prog, fname, w["params"])
    I = run.I
    # the cases of the specification must cover every value of the scalar parameters
    s = I.solver
    s.push()
    s.add(z3.Not(z3.Or([z3.And(when_cond(run, c["when"]) + [z3.BoolVal(True)]) for c in w["cases"]])))
    r = s.check()
    run.queries += 1
    if r != z3.unsat:
        raise Inconclusive("the cases of %s in c19_map.json do not cover all parameter values (%s)" % (fname, model_dict(run, s.model()) if r == z3.sat else r))
    s.pop()
    npaths, hit = 0, [0] * len(w["cases"])
    for path, (trace, ret) in I.explore(run.run, 64):
        npaths += 1
        for ci, case in enumerate(w["cases"]):
            pc = list(path.pc) + when_cond(run, case["when"])
            if not I.feasible(z3.And(pc + [z3.BoolVal(True)])):
                continue
            run.queries += 1
            hit[ci] += 1
            observed = {"calls": [{"callee": c, "args": [run.describe(a, trace, pc) for a in args]} for c, args, _ in trace],
                        "ret": run.describe(ret, trace, pc)}

            def fail(where, what, model=None):
                pathd = dict(case["when"])
                pathd.update({k: v for k, v in model_dict(run, model).items() if k not in pathd})
                raise Violation("wrapper:%s:%s:%s" % (fname, "".join("%s=%d," % (k, int(v)) for k, v in sorted(case["when"].items())) or "all", where),
                                "%s (configuration %s, path %s): %s" % (fname, cfg, pathd or "unconditional", what),
                                {"wrapper": fname, "configuration": cfg, "path": pathd,
                                 "expected": {"calls": case["calls"], "ret": case.get("ret", "void")}, "observed": observed})

            exp = case["calls"]
            for k in range(max(len(exp), len(trace))):
                if k >= len(trace):
                    fail("call%d" % k, "missing call #%d: expected %s(%s)" % (k, exp[k]["callee"], ", ".join(exp[k]["args"])))
                if k >= len(exp):
                    fail("call%d" % k, "unexpected extra %s #%d: %s(%s)" % ("direct store" if trace[k][0].startswith("<store") else "call", k,
                                                                          observed["calls"][k]["callee"], ", ".join(observed["calls"][k]["args"])))
                if trace[k][0] != exp[k]["callee"]:
                    fail("call%d" % k, "call #%d goes to the wrong C++ operation: expected %s, observed %s" % (k, exp[k]["callee"], trace[k][0]))
                if len(trace[k][1]) != len(exp[k]["args"]):
                    fail("call%d" % k, "call #%d to %s has %d arguments, expected %d" % (k, trace[k][0], len(trace[k][1]), len(exp[k]["args"])))
                for j, (a, d) in enumerate(zip(trace[k][1], exp[k]["args"])):
                    ok, mdl = run.matches(a, d, trace, pc, cxxvals)
                    if not ok:
                        fail("call%d:arg%d" % (k, j), "argument %d of call #%d (%s): expected %s, observed %s" % (
                            j, k, trace[k][0].split("(")[0], d, observed["calls"][k]["args"][j]), mdl)
            ok, mdl = run.matches(ret, case.get("ret", "void"), trace, pc, cxxvals)
            if not ok:
                fail("ret", "returns %s, expected %s" % (observed["ret"], case.get("ret", "void")), mdl)
    if npaths == 0 or not all(hit):
        raise Inconclusive("%s: %d paths; specification cases never reached: %r" % (fname, npaths, [c["when"] for c, h in zip(w["cases"], hit) if not h]))
    ncalls = sum(len(c["calls"]) for c in w["cases"])
    if ncalls and not I.intercept_hits:
        raise Inconclusive("%s: recorder was never hit" % fname)
    c0 = w["cases"][0]
    return {"queries": run.queries + getattr(I, "vc_count", 0), "paths": npaths, "functions": [fname],
            "sample": "%d path(s), %d case(s); %s -> %s ret %s" % (npaths, len(w["cases"]), c0["when"] or "always",
                                                                   "; ".join("%s(%s)" % (c["callee"].split("(")[0], ",".join(c["args"])) for c in c0["calls"]) or "no call",
                                                                   c0.get("ret", "void"))}


# ---------------------------------------------------------------------------------------------------------------
# record mode: draft of specs/c19_map.json from the current tree (to be reviewed by hand)
# ---------------------------------------------------------------------------------------------------------------
def record(path, cfg="A"):
    lay = spec("c19_layout.json")
    H = read_c_headers(build.REPO, lay["c_headers"])
    build_wrappers(cfg)
    prog = prog_for(cfg)
    out = {"_comment": "recorded from the tree by checks/c19.py --record; review by hand before use", "wrappers": {}}
    for fname in wrappers_of(prog):
        pnames = H["functions"].get(fname, (None, ["p%d" % i for i in range(len(prog.fn[fname].params))]))[1]
        run = Run(prog, fname, pnames)
        bools = [pn for pn, v in run.scalars.items() if z3.is_bool(v)]
        cases = []
        for path_, (trace, ret) in run.I.explore(run.run, 64):
            # split on every bool parameter that the path condition or a compound value mentions
            for assign in itertools.product([False, True], repeat=len(bools)):
                when = dict(zip(bools, assign))
                pc = list(path_.pc) + when_cond(run, when)
                if not run.I.feasible(z3.And(pc + [z3.BoolVal(True)])):
                    continue
                cases.append((when, {"calls": [{"callee": c, "args": [run.describe(a, trace, pc) for a in args]} for c, args, _ in trace],
                                     "ret": run.describe(ret, trace, pc)}))
        for b in bools:      # drop parameters the outcome does not depend on
            rest = lambda w: tuple(sorted((k, v) for k, v in w.items() if k != b))
            groups = {}
            for when, oc in cases:
                groups.setdefault(rest(when), []).append((when, oc))
            if all(b not in g[0][0] or (len(g) == 2 and g[0][1] == g[1][1]) for g in groups.values()):
                cases = [({k: v for k, v in g[0][0].items() if k != b}, g[0][1]) for g in groups.values()]
        out["wrappers"][fname] = {"params": pnames, "cases": [dict(when=w, **oc) for w, oc in cases]}
    with open(path, "w") as f:
        f.write(dump_map(out))
    print("recorded %d wrappers to %s" % (len(out["wrappers"]), path))


def dump_map(mp):
    L = ["{", ' "_comment": %s,' % json.dumps(mp["_comment"], indent=2).replace("\n", "\n "), ' "wrappers": {']
    ws = []
    for name, w in mp["wrappers"].items():
        cs = []
        for c in w["cases"]:
            calls = ",\n".join("      {\"callee\": %s,\n       \"args\": %s}" % (json.dumps(k["callee"]), json.dumps(k["args"])) for k in c["calls"])
            cs.append("   {\"when\": %s,\n    \"calls\": [%s],\n    \"ret\": %s}" % (json.dumps(c["when"]), ("\n" + calls) if calls else "", json.dumps(c.get("ret", "void"))))
        ws.append("  %s: {\n   \"params\": %s,\n   \"cases\": [\n%s]}" % (json.dumps(name), json.dumps(w["params"]), ",\n".join(cs)))
    return "\n".join(L) + "\n" + ",\n".join(ws) + "\n }\n}\n"


# ---------------------------------------------------------------------------------------------------------------
def include_in(chk):
    """this check's obligations registered inside a check of a layer above (framework.Check.include): the C wrappers and struct layouts through which
    that layer is reached from C"""
    lay, cst, mp = spec("c19_layout.json"), spec("c19_constants.json"), spec("c19_map.json")
    wcfgs = ["A"] + (["P64", "P32"] if chk.tier == "thorough" else [])
    build_layout(list(LAYOUT_CONFIGS), lay, cst, mp)
    for cfg in wcfgs:
        build_wrappers(cfg)
    for cfg in LAYOUT_CONFIGS:
        chk.add("layout:" + cfg, ob_layout, cfg)
    for cfg in wcfgs:
        chk.add("constants:" + cfg, ob_constants, cfg)
        chk.add("coverage:" + cfg, ob_coverage, cfg)
        p = _PROGS[cfg]
        names = sorted(set(mp["wrappers"]) | set(wrappers_of(p) if not isinstance(p, Exception) else []))
        for fname in names:
            chk.add("%s:%s" % (cfg, fname), ob_wrapper, cfg, fname)


def main(argv=None):
    argv = list(sys.argv[1:] if argv is None else argv)
    if "--record" in argv:
        i = argv.index("--record")
        path = argv[i + 1] if i + 1 < len(argv) else os.path.join(framework._OUT, "c19_map.recorded.json")
        return record(path)
    chk = Check("C19", "proof", argv)
    lay, cst, mp = spec("c19_layout.json"), spec("c19_constants.json"), spec("c19_map.json")
    wcfgs = ["A"] + (["P64", "P32"] if chk.tier == "thorough" else [])
    probes = build_layout(list(LAYOUT_CONFIGS), lay, cst, mp)
    for cfg in wcfgs:
        build_wrappers(cfg)
    for cfg in LAYOUT_CONFIGS:
        chk.add("layout:" + cfg, ob_layout, cfg)
    for cfg in wcfgs:
        chk.add("constants:" + cfg, ob_constants, cfg)
        chk.add("coverage:" + cfg, ob_coverage, cfg)
        p = _PROGS[cfg]
        names = sorted(set(mp["wrappers"]) | set(wrappers_of(p) if not isinstance(p, Exception) else []))
        for fname in names:
            chk.add("%s:%s" % (cfg, fname), ob_wrapper, cfg, fname)
    chk.explanation = (
        "Technique: LLVM-IR symbolic execution of every extern C wrapper with uninterpreted callees (trace conformance, z3 decides path "
        "feasibility and argument identity); ground comparison of compiler-folded layout constants per configuration. "
        "(iii) Each of the %d extern \"C\" functions defined in src/{bls12_381/bls12_381,wkdibe/wkdibe,lqibe/lqibe}.cpp is lowered to IR from "
        "the current tree and executed by E-IR with each pointer parameter pointing to its own fresh object, each bool/int/size_t parameter "
        "a free z3 variable, callbacks as opaque function references, and EVERY callee replaced by a recorder returning a fresh "
        "uninterpreted value. Per feasible path the sequence (demangled C++ callee incl. template instantiation, which wrapper argument at "
        "which byte offset / which parameter / constant is passed in each position, what is returned, any direct load/store) must equal "
        "the hand-reviewed trace of specs/c19_map.json; z3 decides which specification case a path belongs to, that the cases cover all "
        "parameter values, and equality of scalar arguments and results under the path condition (so `compressed` passed where `checked` "
        "is expected is a sat query with model compressed=false, checked=true). Because the callees are uninterpreted functions of their "
        "argument objects and the sequences are identical, the wrapper's effect equals the C++ operation's effect for ALL argument values. "
        "(i) Layout: %d probes (sizeof/alignof/offsetof/member type/pointee type/array length) generated from the pairing table "
        "specs/c19_layout.json are compiled for %d configurations and compared pairwise; these are GROUND comparisons of constants folded "
        "by clang (no solver query; the quantifier is over configurations and is enumerated). (ii) Constants: the static initialiser of "
        "every exported pointer is resolved in the IR to (object, offset) and compared with specs/c19_constants.json; the five size "
        "constants are compared with the C++ constant expressions evaluated in the layout TU and with the literals; fr_modulus = r. GROUND. "
        "Coverage obligations tie the three specification files to the headers (every struct, member, typedef, function, constant) and "
        "to every C-struct/C++-class pointer cast occurring in the wrappers' IR." % (len(mp["wrappers"]), len(probes), len(LAYOUT_CONFIGS)))
    chk.bounds = ["wrappers: all argument values (pointers are distinct fresh objects; aliasing between arguments is the subject of C18); no loops, no unwinding bound",
                  "quick: wrapper traces and constants in the shipped configuration A; thorough adds P64 and P32 (same specification, so the traces are identical)",
                  "layout: configurations {x86-64 asm, x86-64 portable 64-bit words, x86-64 portable 32-bit words, aarch64 asm/portable, thumbv6m asm/portable}; "
                  "the cross targets are compiled freestanding with harness/stub_include/string.h",
                  "out of scope: the Go bindings under lang/go (no Go toolchain here); whether the C++ operations themselves are right (C01-C16)",
                  "counterexamples are trace-level (wrapper, path, expected vs observed call); they are not replayed natively"]
    chk.trusted = ["clang's constant folder and record layout (sizeof/alignof/offsetof are read from clang's IR, per target)",
                   "clang -O1 -fno-inline IR of the wrappers vs the shipped -Ofast build",
                   "callees are deterministic functions of their arguments and the memory reachable from them (so equal call sequences give equal effects)",
                   "the hand review of specs/c19_map.json, c19_layout.json, c19_constants.json against include/*/*.h and include/*/api.hpp", "z3"]
    chk.assumptions = ["pointer arguments of a C call designate distinct objects (the wrappers add no aliasing of their own: each forwards its pointers unchanged)"]
    # statelessness (no call leaves anything behind in a global or static) is a premise of every per-call obligation: C20's IR obligations
    chk.include("C20")
    chk.run()
    chk.finish()


if __name__ == "__main__":
    main()
