"""C13 - WKD-IBE signatures verify exactly for the signed message and attribute list (DESIGN.md section 5, C13).

For an arbitrary well-formed key (signature support on) and every attribute list that extends the key's fixed pattern using only slots that
are free in the key (entries may or may not carry the omit-from-keys marker, which signing/verification must ignore):
  pos  verify(list, sign(key, list, m), m) = true for every 256-bit m, through the direct and the precomputed forms, and for the
       `attrs == nullptr` form with the key's own pattern;
  neg  (generic-group sense, T9: the verification equation's residual is not the zero polynomial) verification fails for a message that
       differs modulo r, for a list that differs modulo r in a slot, for a signature made with a key whose pattern is incompatible with the
       list (a hidden slot set, a fixed slot with another value), and when a0 or a1 is replaced by an independent group element.
verify's verdict is the z3 formula 'all coefficients of e(a0,g) - e(prodexp,a1) - pairing vanish modulo r' built by the GT::equal intercept.
"""
import sys
import os
import itertools
sys.path.insert(0, os.path.dirname(os.path.dirname(os.path.abspath(__file__))))
sys.path.insert(0, os.path.dirname(os.path.abspath(__file__)))

import z3
import wkd
from wkd import World
from c11 import run_paths, stats
from engine import eir
from engine.dom_grp import Poly, GE, SV, R_ORDER
from engine.eir import Ptr, Obj, is_conc
from engine.framework import Check, Violation, Inconclusive


def key_and_list(W, pattern, ext):
    """pattern per slot: free|fixed|hidden ; ext per slot: absent|same|value|marked  -> (kfixed, kfree, list entries, list dict)"""
    G = W.G
    kfixed, kfree, ent, ld = {}, [], [], {}
    for i, (st, e) in enumerate(zip(pattern, ext)):
        if st == "fixed":
            idv = G.ivar("id%d" % i)
            kfixed[i] = idv
            if e in ("same", "same-marked"):
                ent.append((i, idv, e == "same-marked"))
                ld[i] = idv
        elif st == "free":
            kfree.append(i)
            if e in ("value", "marked"):
                v = G.ivar("v%d" % i)
                ent.append((i, v, e == "marked"))
                ld[i] = v
    return kfixed, kfree, ent, ld


def ext_shapes(pattern):
    opts = []
    for st in pattern:
        opts.append({"fixed": ("same", "same-marked"), "free": ("absent", "value", "marked"), "hidden": ("absent",)}[st])
    return list(itertools.product(*opts))


def as_formula(v):
    if is_conc(v):
        return z3.BoolVal(bool(v))
    return v


def decide(W, pc, f, want_true, hyp=()):
    """want_true: f must hold for all inputs; else: f must be unsatisfiable together with hyp"""
    s = z3.Solver()
    s.set("timeout", 60000)
    for c in W.G.constraints + list(pc) + list(hyp):
        s.add(c)
    s.add(z3.Not(f) if want_true else f)
    r = s.check()
    W.G.queries += 1
    if r == z3.unknown:
        raise Inconclusive("solver unknown on the verification verdict")
    return r == z3.unsat, (s.model() if r == z3.sat else None)


def sign_and_verify(W, pattern, ext, mode, tamper=None):
    """returns list of (path, verdict formula, extra) ; mode: direct | precomputed | nullattrs"""
    L = W.L
    kfixed, kfree, ent, ld = key_and_list(W, pattern, ext)
    rho = W.G.sym("rho")
    m = W.G.ivar("m")
    m2 = W.G.ivar("m2")
    fn = {n: W.fn(n) for n in ("sign", "sign_precomputed", "verify", "verify_precomputed", "precompute")}
    vent = list(ent)
    vm = m
    hyp = []
    if tamper and tamper[0] == "message":
        vm = m2
        hyp = [(m2 - m) % R_ORDER != 0]
    if tamper and tamper[0] == "list-value":
        slot = tamper[1]
        nv = W.G.ivar("w%d" % slot)
        vent = [(s_, (nv if s_ == slot else v), fl) for (s_, v, fl) in ent]
        old = dict((s_, v) for s_, v, fl in ent)[slot]
        hyp = [(nv - old) % R_ORDER != 0]
    if tamper and tamper[0] == "list-drop":
        slot = tamper[1]
        vent = [(s_, v, fl) for (s_, v, fl) in ent if s_ != slot]
        old = dict((s_, v) for s_, v, fl in ent)[slot]
        hyp = [old % R_ORDER != 0]
    if tamper and tamper[0] == "list-add":
        slot = tamper[1]
        nv = W.G.ivar("w%d" % slot)
        vent = sorted(ent + [(slot, nv, False)])
        hyp = [nv % R_ORDER != 0]

    def once():
        W.G.nsym = 0
        sk = W.key_obj(W.wf_key(kfixed, kfree, rho))
        sg = Obj("sig", L.G_size, "arg", 16)
        mo = Obj("m", 32, "arg", 16, True)
        W.I.store_cell(mo, 0, 32, SV(Poly.const(m)))
        al = W.attrlist_obj(ent, False)
        if mode == "direct":
            W.I.call_named(fn["sign"], [Ptr(sg, 0), Ptr(W.params_obj(), 0), Ptr(sk, 0), Ptr(al, 0), Ptr(mo, 0), W.cb])
        else:
            pre = Obj("pre", 144, "arg", 16)
            W.I.call_named(fn["precompute"], [Ptr(pre, 0), Ptr(W.params_obj(), 0), Ptr(al, 0)])
            W.I.call_named(fn["sign_precomputed"], [Ptr(sg, 0), Ptr(W.params_obj(), 0), Ptr(sk, 0), (eir.NULL if mode == "nullattrs" else Ptr(al, 0)),
                                                   Ptr(pre, 0), Ptr(mo, 0), W.cb])
        if tamper and tamper[0] == "component":
            comp = tamper[1]
            if comp == "a0":
                W.I.store_cell(sg, L.G_a0, 144, GE("G1", W.M.read(Ptr(sg, L.G_a0), "G1").p + W.G.sym("junk")))
            else:
                W.I.store_cell(sg, L.G_a1, 288, GE("G2", W.M.read(Ptr(sg, L.G_a1), "G2").p + W.G.sym("junk")))
        vmo = Obj("vm", 32, "arg", 16, True)
        W.I.store_cell(vmo, 0, 32, SV(Poly.const(vm)))
        val = W.attrlist_obj(vent, False, "vattrs")
        if mode == "direct":
            v = W.I.call_named(fn["verify"], [Ptr(W.params_obj(), 0), Ptr(val, 0), Ptr(sg, 0), Ptr(vmo, 0)])
        else:
            pre2 = Obj("pre2", 144, "arg", 16)
            W.I.call_named(fn["precompute"], [Ptr(pre2, 0), Ptr(W.params_obj(), 0), Ptr(val, 0)])
            v = W.I.call_named(fn["verify_precomputed"], [Ptr(W.params_obj(), 0), Ptr(pre2, 0), Ptr(sg, 0), Ptr(vmo, 0)])
        return as_formula(v)
    return run_paths(W, once), hyp, [W.prog.demangled[f][:70] for f in fn.values()]


def ob_pos(l, pattern, ext, mode):
    W = World(l, True)
    if mode == "nullattrs" and any(e in ("value", "marked") for e in ext):
        return {"queries": 0, "paths": 0, "functions": [], "sample": "not applicable: nullptr list only signs the key's own pattern"}
    res, hyp, fns = sign_and_verify(W, pattern, ext, mode)
    for path, f in res:
        ok, mdl = decide(W, path.pc, f, True)
        if not ok:
            raise Violation("sign-verify:%s:%s:%s" % (",".join(pattern), ",".join(ext), mode),
                            "a signature by a well-formed key (pattern %s) on list %s does not verify (%s form)" % (pattern, ext, mode),
                            {"l": l, "pattern": list(pattern), "list": list(ext), "mode": mode, "model": W.G.model_values(mdl)})
    return stats(W, len(res), fns)


def ob_neg(l, pattern, ext, tamper):
    W = World(l, True)
    res, hyp, fns = sign_and_verify(W, pattern, ext, "direct", tamper)
    for path, f in res:
        ok, mdl = decide(W, path.pc, f, False, hyp)
        if not ok:
            raise Violation("verify-rejects:%s:%s:%s" % (",".join(pattern), ",".join(ext), "-".join(map(str, tamper))),
                            "verification accepts although %s was altered (key pattern %s, list %s)" % (tamper, pattern, ext),
                            {"l": l, "pattern": list(pattern), "list": list(ext), "tamper": list(tamper), "model": W.G.model_values(mdl)})
    return stats(W, len(res), fns)


def ob_incompatible(l, pattern, slot, kind):
    """a key whose pattern is incompatible with the list: the list sets slot `slot`, which is hidden in the key (kind='hidden') or fixed
    to another value (kind='fixed'); the signer does its best (signs with the list as given); verification must fail"""
    W = World(l, True)
    L = W.L
    G = W.G
    kfixed, kfree, ent = {}, [], []
    hyp = []
    for i, st in enumerate(pattern):
        if st == "fixed":
            idv = G.ivar("id%d" % i)
            kfixed[i] = idv
            if i == slot:
                nv = G.ivar("w%d" % i)
                ent.append((i, nv, False))
                hyp.append((nv - idv) % R_ORDER != 0)
            else:
                ent.append((i, idv, False))
        elif st == "free":
            kfree.append(i)
        elif i == slot:
            nv = G.ivar("w%d" % i)
            ent.append((i, nv, False))
            hyp.append(nv % R_ORDER != 0)
    rho = G.sym("rho")
    m = G.ivar("m")
    fn = {n: W.fn(n) for n in ("sign", "verify")}

    def once():
        G.nsym = 0
        sk = W.key_obj(W.wf_key(kfixed, kfree, rho))
        sg = Obj("sig", L.G_size, "arg", 16)
        mo = Obj("m", 32, "arg", 16, True)
        W.I.store_cell(mo, 0, 32, SV(Poly.const(m)))
        al = W.attrlist_obj(ent, False)
        W.I.call_named(fn["sign"], [Ptr(sg, 0), Ptr(W.params_obj(), 0), Ptr(sk, 0), Ptr(al, 0), Ptr(mo, 0), W.cb])
        return as_formula(W.I.call_named(fn["verify"], [Ptr(W.params_obj(), 0), Ptr(al, 0), Ptr(sg, 0), Ptr(mo, 0)]))
    res = run_paths(W, once)
    for path, f in res:
        ok, mdl = decide(W, path.pc, f, False, hyp)
        if not ok:
            raise Violation("verify-rejects-incompatible:%s:%d:%s" % (",".join(pattern), slot, kind),
                            "a key with pattern %s produces a verifying signature for a list that sets its %s slot %d" % (pattern, kind, slot),
                            {"l": l, "pattern": list(pattern), "slot": slot, "model": G.model_values(mdl)})
    return stats(W, len(res), [W.prog.demangled[f][:70] for f in fn.values()])


def register(chk):
    maxl = 3 if chk.tier == "quick" else 4
    for l in range(0, maxl + 1):
        for pattern in wkd.parent_patterns(l):
            for ext in ext_shapes(pattern):
                tag = "%s:%s" % (",".join(pattern) or "-", ",".join(ext) or "-")
                for mode in ("direct", "precomputed", "nullattrs"):
                    if mode == "nullattrs" and any(e in ("value", "marked") for e in ext):
                        continue
                    if l == maxl and mode != "direct" and chk.tier == "quick":
                        continue
                    chk.add("pos:%s:%s" % (tag, mode), ob_pos, l, pattern, ext, mode)
                if l <= 2 or chk.tier == "thorough":
                    chk.add("neg:%s:message" % tag, ob_neg, l, pattern, ext, ("message",))
                    for comp in ("a0", "a1"):
                        chk.add("neg:%s:component-%s" % (tag, comp), ob_neg, l, pattern, ext, ("component", comp))
                    for i, e in enumerate(ext):
                        if e in ("value", "marked", "same", "same-marked"):
                            chk.add("neg:%s:list-value-%d" % (tag, i), ob_neg, l, pattern, ext, ("list-value", i))
                            chk.add("neg:%s:list-drop-%d" % (tag, i), ob_neg, l, pattern, ext, ("list-drop", i))
                        elif e == "absent":
                            chk.add("neg:%s:list-add-%d" % (tag, i), ob_neg, l, pattern, ext, ("list-add", i))
            if l <= 2 or chk.tier == "thorough":
                for i, st in enumerate(pattern):
                    if st in ("hidden", "fixed"):
                        chk.add("neg-incompatible:%s:slot%d" % (",".join(pattern), i), ob_incompatible, l, pattern, i, st)


def include_in(chk):
    """this check's obligations registered inside another check (framework.Check.include): every call runs on objects of exactly the documented size,
    so they are memory-safety obligations for valid calls as well"""
    wkd.prog()
    register(chk)


def main(argv=None):
    chk = Check("C13", "proof", argv)
    wkd.prog()
    register(chk)
    chk.explanation = ("sign, sign_precomputed, verify, verify_precomputed and precompute are executed symbolically from the IR over formal discrete logarithms; "
                       "verify's verdict is a z3 formula over the 256-bit message and attribute values. Positive: the formula is valid for every well-formed "
                       "key and extension list. Negative (generic-group sense): together with 'the altered quantity differs modulo r' it is unsatisfiable.")
    chk.bounds = ["key patterns {free,fixed,hidden}^l and extension lists over l <= 3 (quick; negatives l <= 2) / 4 (thorough); entries with and without the omit marker",
                  "messages and attribute values: all integers in [0,2^256); randomness, keys: formal symbols",
                  "negative statements hold in the generic-group sense (T9); attribute values congruent to 0 modulo r count as unset"]
    chk.trusted = ["group layer specification (C01, C05-C08)", "z3"]
    # lower layers whose specifications this check relies on: their obligations are part of this check's claim (framework.Check.include)
    for dep in ['C06', 'C02', 'C03', 'C04', 'C05', 'C07', 'C01', 'C08', 'C10', 'C19', 'C20']:
        chk.include(dep)
    # objects that arrive through unmarshal are the marshalled ones (parameters and keys loaded from bytes are part of 'reachable through the API'): C15's own obligations
    chk.include("C15")
    # the property quantifies over the keys reachable by delegation; the obligations above start from an arbitrary well-formed key, so the
    # step 'every key-producing operation returns a well-formed key (all components, bsig included, under one exponent)' is part of the claim
    chk.include("C11", only=r"^(keygen|nondelegable_keygen|resamplekey|qualifykey|nondelegable_qualifykey|adjust_nondelegable):")
    chk.run()
    chk.finish()


if __name__ == "__main__":
    main()
