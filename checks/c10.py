"""C10 - hash-to-scalar, hash-to-curve and random sampling always land in the right set (DESIGN.md section 5, C10).

All functions are executed from the IR of the current tree (shipped configuration A).
 (1) zp_from_hash            the C wrapper on 32 symbolic bytes, BigInt::read_big_endian + Fr::hash_reduce run for real on bit-vectors:
                             result = (int(h) mod 2^255) mod r and < r                                   (z3, QF_BV; 2r > 2^255 ground)
 (2) hash to curve           get_point_from_x   contract over uninterpreted field functions (checks/c09.py's field model): fails iff checked and
                                                legendre(x^3+b) = -1; else the point is (x, y), y^2 = x^3 + b, the `greater` choice is honoured
                             try_and_increment  the data-dependent loop is cut at its header (arbitrary current x); the sequence of abscissae
                                                tried is start, start+1, ... each exactly once, stopping at the first success
                             from_hash          start = read_big_endian(hash), hash_reduce runs for real on the stored (Montgomery)
                                                representative: it leaves start unchanged; the obligation DETERMINES the `greater` flag
                             purity             none of these reads or writes mutable global state (determinism; platform independence = C03)
 (3) compute_id_from_hash    from_hash, then G1::multiply<G1Affine>(., G1Affine::cofactor) which reaches the 128-bit w-NAF routine (not the
                             256-bit endomorphism routine); ground: cofactors against their closed formulas in the curve parameter x
 (4) sampling                see checks/c10_sampling.py (rejection loops cut by engine/retrycut.py)
Out of scope: totality of try-and-increment / termination of the rejection loops (number-theoretic resp. probabilistic).
"""
import sys
import os
sys.path.insert(0, os.path.dirname(os.path.dirname(os.path.abspath(__file__))))
sys.path.insert(0, os.path.dirname(os.path.abspath(__file__)))

import z3
from engine import build, eir, retrycut
from engine.eir import Ptr, Obj, is_conc, ExecError, MemViolation
from engine.framework import Check, Violation, Inconclusive
import c09
from c09 import FieldModel, bv, QV, Q

sys.modules.setdefault("c10", sys.modules[__name__])      # checks/c10_sampling.py imports this module by name (one program, one build)

B = "embedded_pairing::bls12_381::"
CORE = "embedded_pairing::core::"
ANY = r"\(.*\)"
R_ORDER = 0x73eda753299d7d483339d80809a1d80553bda402fffe5bfeffffffff00000001
BLS_X = -0xd201000000010000
_PROG = {}

FILES = ["src/bls12_381/curve.cpp", "src/bls12_381/fq.cpp", "src/bls12_381/fr.cpp", "src/bls12_381/fq2.cpp", "src/bls12_381/decomposition.cpp",
         "src/bls12_381/bls12_381.cpp", "src/lqibe/api.cpp"]


def prog(cfg="A"):
    if cfg not in _PROG:
        _PROG[cfg] = build.load_program(cfg, files=FILES, tag="c10_" + cfg)
    return _PROG[cfg]


def short(P, f):
    return P.demangled[f].replace("embedded_pairing::", "")[:120]


def asm_kernels(I):
    """the 384-bit word kernels of configuration A are assembly (decided by C03 against these specifications)"""
    def ext(I_, name, args, site):
        if name.endswith("bigint_384_subtract") or name.endswith("bigint_384_add"):
            x = eir.as_bv(I_.load_bytes(args[1].obj, args[1].off, 48), 384)
            y = eir.as_bv(I_.load_bytes(args[2].obj, args[2].off, 48), 384)
            sub = name.endswith("subtract")
            d = eir.simp(x - y if sub else x + y)
            for i in range(6):
                I_.store_cell(args[0].obj, args[0].off + 8 * i, 8, eir.simp(z3.Extract(64 * i + 63, 64 * i, eir.as_bv(d, 384))))
            c = z3.ULT(x, y) if sub else z3.ULT(eir.as_bv(d, 384), x)
            return eir.simp(z3.If(c, z3.BitVecVal(1, 8), z3.BitVecVal(0, 8)))
        raise ExecError("unsupported", "unexpected external call " + name)
    return ext


def mutable_globals(I):
    return sorted(o.name for o in I.globals.values() if not o.const)


def check_pure(I, key, what):
    mg = mutable_globals(I)
    if mg:
        raise Violation(key + ":impure", "%s touches mutable global state: %s" % (what, ", ".join(mg)), {"globals": mg})


def decide(I, pc, axioms, goal, what, timeout=120000):
    """(unsat | sat | model) for  pc and axioms and not goal"""
    s = z3.Solver()
    s.set("timeout", timeout)
    for c in list(I.assumptions) + list(pc) + list(axioms):
        s.add(c)
    s.add(z3.Not(goal))
    r = s.check()
    I.vc_count = getattr(I, "vc_count", 0) + 1
    if r == z3.unknown:
        raise Inconclusive("solver unknown on " + what)
    return r, (s.model() if r == z3.sat else None)


# ---------------------------------------------------------------------------------------------------------------
# (1) zp_from_hash
# ---------------------------------------------------------------------------------------------------------------
def ob_zp_from_hash(cfg="A"):
    P = prog(cfg)
    f = P.find1(r"embedded_pairing_bls12_381_zp_from_hash")
    I = eir.Interp(P)
    I.solver.set("timeout", 120000)
    hb = [z3.BitVec("h%d" % i, 8) for i in range(32)]
    H = z3.Concat(*hb)                                      # big-endian integer of the 32 bytes

    def once():
        h = Obj("hash", 32, "arg", 1, True)
        for i in range(32):
            h.cells[i] = (1, hb[i])
        out = Obj("zp", 32, "arg", 16)             # embedded_pairing_core_bigint_256_t contains unsigned __int128 words
        I.call_named(f, [Ptr(out, 0), Ptr(h, 0)])
        return eir.as_bv(I.load_bytes(out, 0, 32), 256)
    rv = z3.BitVecVal(R_ORDER, 256)
    masked = H & z3.BitVecVal((1 << 255) - 1, 256)
    want = z3.If(z3.UGE(masked, rv), masked - rv, masked)
    n = 0
    for path, got in I.explore(once, 256):
        n += 1
        r, mdl = decide(I, path.pc, [], z3.And(got == want, z3.ULT(got, rv)), "zp_from_hash")
        if r == z3.sat:
            hv = bytes(mdl.eval(b, model_completion=True).as_long() for b in hb)
            raise Violation("zp_from_hash", "zp_from_hash(h) is not (int(h) mod 2^255) mod r in [0, r)", {"hash": hv.hex(), "result": hex(mdl.eval(got, model_completion=True).as_long())})
    if not n:
        raise Inconclusive("no feasible path")
    if not (R_ORDER < (1 << 255) < 2 * R_ORDER):
        raise Violation("zp_from_hash:ground", "one conditional subtraction does not reduce a 255-bit value modulo r", {})
    check_pure(I, "zp_from_hash", "zp_from_hash")
    return {"queries": getattr(I, "vc_count", 0), "paths": n, "functions": [short(P, f)],
            "sample": "%d paths; all 32 hash bytes symbolic; result = (int(h) mod 2^255) mod r < r; ground: r < 2^255 < 2r" % n}


# ---------------------------------------------------------------------------------------------------------------
# (2) hash to curve
# ---------------------------------------------------------------------------------------------------------------
DEG = {"G1": 1, "G2": 2}
AFF = {"G1": r"Affine<%sFq, %sFr, %sg1_b_coeff_var>" % (B, B, B), "G2": r"Affine<%sFq2, %sFr, %sg2_b_coeff_var>" % (B, B, B)}
NEG1 = z3.BitVecVal(0xffffffff, 32)


def field_interp(P):
    I = eir.Interp(P)
    F = FieldModel()
    c09.install(I, F)
    # operations c09's model does not need: uninterpreted as well (so that a changed candidate update is seen as such, not as an unsupported call)
    for deg, C in ((1, c09.FQ), (2, B + "Fq2")):
        S = z3.BitVecSort(384 * deg)
        for op, ar in (("subtract", 2), ("multiply2", 1)):
            uf = z3.Function("%s%d" % (op, deg), *([S] * (ar + 1)))
            I.add_intercept(C + "::" + op + ANY, (lambda I_, n, a, s, deg=deg, uf=uf, ar=ar: I_.fwr(deg, a[0], uf(*[I_.frd(deg, x) for x in a[1:1 + ar]]))), "F%d::%s" % (deg, op))
    I.external_handler = asm_kernels(I)
    I.lazy_feasibility = 300
    return I, F


def ob_get_point_from_x(grp, checked):
    """contract of Affine::get_point_from_x(x, greater, checked) for an arbitrary canonical x and an arbitrary flag"""
    P = prog()
    deg = DEG[grp]
    f = P.find1(B + AFF[grp] + r"::get_point_from_x" + ANY)
    I, F = field_interp(P)
    U = F.uf[deg]
    n384 = 384 * deg
    x = z3.BitVec("x", n384)
    g = z3.Bool("greater")
    I.assumptions = [F.canon(deg, x)]
    bconst = bv(c09.curve_b(I, deg), n384)
    base_ax = list(F.axioms)
    F.known = []

    def once():
        del F.axioms[len(base_ax):]
        del F.seen_sq[:]
        del F.seen_sqrt[:]
        xo = Obj("x", 48 * deg, "arg", 16, False)
        I.fwr(deg, Ptr(xo, 0), x)
        xo.const = True
        this = Obj("this", 96 * deg + 16, "arg", 16)
        ret = I.call_named(f, [Ptr(this, 0), Ptr(xo, 0), g, int(checked)])
        return ret, this
    rhs = U["add"](U["mul"](U["sq"](x), x), bconst)
    leg = U["leg"](rhs)
    key = "get_point_from_x:%s:checked=%d" % (grp, checked)
    n = feas = 0
    for path, (ret, this) in I.explore(once, 64):
        n += 1
        ax = c09.field_axioms(F) + [U["sq"](F.neg(deg, r_)) == U["sq"](r_) for (d_, s_, r_) in F.seen_sqrt]       # (-a)^2 = a^2
        r, _ = decide(I, path.pc, ax, z3.BoolVal(False), "path feasibility")
        if r != z3.sat:
            continue
        feas += 1
        ce = {"group": grp, "checked": checked}
        if not is_conc(ret):
            raise Inconclusive("symbolic return value")
        if not ret:
            r, _ = decide(I, path.pc, ax, z3.And(z3.BoolVal(bool(checked)), leg == NEG1), "rejection only for non-residues")
            if r == z3.sat:
                raise Violation(key + ":rejects", "get_point_from_x rejects an x whose x^3+b is not a non-residue (or rejects although unchecked)", ce)
            if this.cells:
                raise Violation(key + ":writes-on-failure", "get_point_from_x modifies the point although it fails", ce)
            continue
        gx, gy, ginf = c09.read_affine(I, deg, this)
        ygt = eir.as_bv(F_compare(F, deg, gy), 32) == 1
        goals = [("x", gx == x, "the abscissa of the result is not the argument"),
                 ("accepts", z3.Implies(z3.BoolVal(bool(checked)), leg != NEG1), "a non-residue x^3+b is accepted although checked"),
                 ("on-curve", z3.Implies(leg != NEG1, U["sq"](gy) == rhs), "the result does not satisfy y^2 = x^3 + b"),
                 ("root", z3.Or(gy == U["sqrt"](rhs), gy == F.neg(deg, U["sqrt"](rhs))), "y is not +-sqrt(x^3+b)"),
                 ("greater", z3.Implies(gy != F.neg(deg, gy), ygt == g), "the `greater` choice is not honoured"),
                 ("finite", eir.as_bv(ginf, 8) == 0, "the infinity flag is not cleared")]
        for nm, goal, msg in goals:
            r, mdl = decide(I, path.pc, ax, goal, nm)
            if r == z3.sat:
                raise Violation(key + ":" + nm, "get_point_from_x(%s): %s" % (grp, msg), ce)
    if feas < 2:
        raise Inconclusive("only %d feasible paths" % feas)
    check_pure(I, key, "get_point_from_x")
    return {"queries": getattr(I, "vc_count", 0), "paths": n, "functions": [short(P, f)],
            "sample": "%d paths (%d feasible under the field axioms); x arbitrary canonical, greater arbitrary" % (n, feas)}


def F_compare(F, deg, y):
    """the value BaseField::compare(y, -y) returns, in the field model of c09 (order of the internal representatives; Fq2: c1 first)"""
    def cmp1(a, b):
        F.inj(a, b)
        return z3.If(a == b, z3.BitVecVal(0, 32), z3.If(z3.ULT(F.M(a), F.M(b)), NEG1, z3.BitVecVal(1, 32)))
    ny = F.neg(deg, y)
    if deg == 1:
        return cmp1(y, ny)
    c1 = cmp1(z3.Extract(767, 384, y), z3.Extract(767, 384, ny))
    return z3.If(c1 == 0, cmp1(z3.Extract(383, 0, y), z3.Extract(383, 0, ny)), c1)


def ob_try_and_increment(grp):
    """the loop of try_and_increment, cut at its header.  Abstract machine checked on every path (get_point_from_x is replaced by its
    contract: an arbitrary outcome, see the get_point_from_x obligations):
         copy        x := start                                  -> (cur = start, untried)
         attempt     get_point_from_x(this, x, greater, true)    requires: the x passed is cur and untried; failure -> (cur, failed), success -> must return
         increment   x := x + one                                 requires: failed                             -> (cur + 1, untried)
       At the loop header the candidate is replaced by an arbitrary X with the same tried/untried status (one inductive step); the path back to
       the header must restore that status.  Hence the abscissae tried are start, start+1, ... each once, stopping at the first success."""
    P = prog()
    deg = DEG[grp]
    f = P.find1(B + AFF[grp] + r"::try_and_increment" + ANY)
    I, F = field_interp(P)
    U = F.uf[deg]
    n384 = 384 * deg
    start, X = z3.BitVec("start", n384), z3.BitVec("X", n384)
    g = z3.Bool("greater")
    ONE = z3.BitVecVal(1, n384)          # Fq::one resp. Fq2::one = (c1 : c0) = (0 : 1)
    key = "try_and_increment:" + grp
    st = {}
    I.assumptions = [F.canon(deg, start), F.canon(deg, X)]

    def fail(nm, msg):
        raise Violation(key + ":" + nm, "try_and_increment(%s): %s" % (grp, msg), {"group": grp})

    def same(a, b, what):
        a, b = bv(a, n384), bv(b, n384)
        if a.eq(b):
            return True
        r, _ = decide(I, I.path.pc, [], a == b, what)
        return r == z3.unsat

    def h_gp(I_, name, args, site):
        xv = I_.frd(deg, args[1])
        if not (args[0].obj is st["this"] and is_conc(args[0].off) and args[0].off == 0):
            fail("target", "get_point_from_x is applied to another object than *this")
        if st.get("status") != "untried" or not same(xv, st["cur"], "abscissa tried"):
            fail("sequence", "an abscissa is tried that is not the current untried candidate (a value is skipped or repeated)")
        if not (is_conc(args[3]) and args[3] == 1):
            fail("unchecked", "get_point_from_x is called without the residue test")
        if not (isinstance(args[2], z3.ExprRef) and args[2].eq(g)):
            fail("greater", "the greater flag passed on is not the caller's")
        ok = z3.Bool("ok%d" % len(st["tries"]))
        st["tries"].append(ok)
        if I_.branch(ok):
            st["status"] = "found"
            I_.store_cell(args[0].obj, 0, 96 * deg, ("point-for", xv))
            return 1
        st["status"] = "failed"
        return 0
    I.add_intercept(B + AFF[grp] + r"::get_point_from_x" + ANY, h_gp, "get_point_from_x")
    real = I.call_named

    def watch(name, args, site=None):
        r = real(name, args, site)
        d = I.prog.demangled.get(name, "")
        if len(I.callstack) == 1 and args and isinstance(args[0], Ptr) and args[0].obj is not None and args[0].obj.kind == "alloca":
            if "::copy(" in d and "xobj" not in st:
                st["xobj"] = args[0].obj
                st["cur"], st["status"] = I.frd(deg, Ptr(st["xobj"], 0)), "untried"
                if not same(st["cur"], start, "initial candidate"):
                    fail("start", "the first candidate is not the start value")
            elif args[0].obj is st.get("xobj"):
                if "::add(" not in d or st.get("status") != "failed":
                    fail("sequence", "the candidate is modified by %s in state %s" % (d.split("(")[0][-24:], st.get("status")))
                nv = I.frd(deg, Ptr(st["xobj"], 0))
                if not same(nv, U["add"](bv(st["cur"], n384), ONE), "increment"):
                    fail("increment", "the next candidate is not x + 1")
                st["cur"], st["status"] = nv, "untried"
        return r
    I.call_named = watch
    cut = retrycut.HeaderCut(I, f)

    def havoc(regs):
        if "xobj" not in st or st["status"] not in ("failed", "untried"):
            fail("header", "the loop is entered in an unexpected state")
        st["header_status"] = st["status"]
        I.fwr(deg, Ptr(st["xobj"], 0), X)
        st["cur"] = X
    cut.havoc = havoc

    def once():
        cut.reset()
        st.clear()
        st["tries"] = []
        so = Obj("start", 48 * deg, "arg", 16, False)
        I.fwr(deg, Ptr(so, 0), start)
        so.const = True
        st["this"] = Obj("this", 96 * deg + 16, "arg", 16)
        try:
            I.call_named(f, [Ptr(st["this"], 0), Ptr(so, 0), g])
            return "exit"
        except eir.LoopCut:
            return "cut"
    n = exits = cuts = 0
    for path, kind in I.explore(once, 64):
        n += 1
        if kind == "exit":
            exits += 1
            c = st["this"].cells.get(0)
            if st.get("status") != "found" or c is None or not (isinstance(c[1], tuple) and same(c[1][1], st["cur"], "result abscissa")):
                fail("exit", "the function returns without a successful attempt on the current candidate")
        else:
            cuts += 1
            if st.get("status") != st.get("header_status"):
                fail("invariant", "the loop does not come back to its header in the state it was entered in (%s / %s)" % (st.get("status"), st.get("header_status")))
    if exits < 1 or cuts < 1:
        raise Inconclusive("expected returning and back-edge paths, got %d / %d" % (exits, cuts))
    check_pure(I, key, "try_and_increment")
    return {"queries": getattr(I, "vc_count", 0), "paths": n, "functions": [short(P, f)],
            "sample": "%d paths (%d return, %d back to the header); loop cut at its header with an arbitrary current abscissa; "
                      "termination (some start+j is on the curve) is out of scope" % (n, exits, cuts)}


def ob_from_hash(grp, cfg="A"):
    """from_hash: read_big_endian (spec: the stored representative m of (int(bytes) mod 2^381) mod q, m < q), then hash_reduce on m FOR REAL,
    then try_and_increment(start, greater).  Decides: start is still m; which function of the hash the greater flag is."""
    P = prog(cfg)
    deg = DEG[grp]
    f = P.find1(B + AFF[grp] + r"::from_hash" + ANY)
    I = eir.Interp(P)
    I.solver.set("timeout", 120000)
    I.external_handler = asm_kernels(I)
    nb = 48 * deg
    hb = [z3.BitVec("h%d" % i, 8) for i in range(nb)]
    reads, calls = [], []
    qv = z3.BitVecVal(Q, 384)

    def h_read(I_, name, args, site):
        src = args[1]
        bs = [I_.load_bytes(src.obj, src.off + i, 1) for i in range(48)]
        m = z3.BitVec("mont%d" % len(reads), 384)
        reads.append((args[0].obj, args[0].off, src.obj.name, src.off, bs, m))
        I_.path.pc.append(z3.ULT(m, qv))
        for i in range(6):
            I_.store_cell(args[0].obj, args[0].off + 8 * i, 8, z3.Extract(64 * i + 63, 64 * i, m))

    def h_tai(I_, name, args, site):
        v = [eir.as_bv(I_.load_bytes(args[1].obj, args[1].off + 48 * k, 48), 384) for k in range(deg)]
        calls.append((args[0], v, args[2]))
    I.add_intercept(B + r"Fq::read_big_endian" + ANY, h_read, "Fq::read_big_endian")
    I.add_intercept(B + AFF[grp] + r"::try_and_increment" + ANY, h_tai, "try_and_increment")
    this = [None]

    def once():
        del reads[:]
        del calls[:]
        h = Obj("hash", nb, "arg", 1, True)
        for i in range(nb):
            h.cells[i] = (1, hb[i])
        this[0] = Obj("this", 96 * deg + 16, "arg", 16)
        I.call_named(f, [Ptr(this[0], 0), Ptr(h, 0)])
    key = "from_hash:" + grp
    n = 0
    verdict = set()
    for path, _ in I.explore(once, 256):
        n += 1
        if len(calls) != 1 or len(reads) != deg:
            raise Violation(key + ":trace", "from_hash(%s) makes %d calls to try_and_increment and reads %d field elements" % (grp, len(calls), len(reads)), {"group": grp})
        tgt, vals, greater = calls[0]
        if tgt.obj is not this[0] or tgt.off != 0:
            raise Violation(key + ":target", "try_and_increment is applied to another object than *this", {"group": grp})
        # Fq: the 48 bytes; Fq2: c0 from bytes 48..95, c1 from bytes 0..47 (big-endian (c1 : c0))
        want_src = [0] if deg == 1 else [48, 0]
        for k in range(deg):
            comp = [r for r in reads if r[1] == 48 * k]
            if len(comp) != 1 or comp[0][3] != want_src[k] or any(not (isinstance(b, z3.ExprRef) and b.eq(hb[want_src[k] + i])) for i, b in enumerate(comp[0][4])):
                raise Violation(key + ":bytes", "component %d of the start value is not read from hash bytes %d..%d" % (k, want_src[k], want_src[k] + 47), {"group": grp})
            r, mdl = decide(I, path.pc, [], vals[k] == comp[0][5], "start value unchanged by hash_reduce")
            if r == z3.sat:
                raise Violation(key + ":start", "hash_reduce changes the start value that read_big_endian produced", {"group": grp})
        gb = eir.as_bool(greater) if not is_conc(greater) else z3.BoolVal(bool(greater))
        top = z3.Extract(7, 7, hb[0]) == 1
        for nm, cand in (("constant false", z3.BoolVal(False)), ("top bit of the hash", top), ("constant true", z3.BoolVal(True))):
            r, _ = decide(I, path.pc, [], gb == cand, "greater flag")
            if r == z3.unsat:
                verdict.add(nm)
                break
        else:
            verdict.add("another function of the hash bytes")
    if not n:
        raise Inconclusive("no feasible path")
    if mutable_globals(I):
        raise Violation(key + ":impure", "from_hash touches mutable global state: %s" % mutable_globals(I), {})
    return {"queries": getattr(I, "vc_count", 0), "paths": n, "functions": [short(P, f), "Fq::hash_reduce", "Fq2::hash_reduce"][:2 + (deg == 2)],
            "sample": "%d path(s); start = read_big_endian(hash) (mod 2^381, mod q) unchanged by hash_reduce; greater flag = %s  [hash_reduce sees the Montgomery "
                      "representative, which is below q < 2^381: hash bits 381..383 never influence the result]" % (n, " / ".join(sorted(verdict)))}


# ---------------------------------------------------------------------------------------------------------------
# (3) compute_id_from_hash and the cofactors
# ---------------------------------------------------------------------------------------------------------------
def cofactor_obj(I, grp):
    nm = [n for n in I.prog.gl if n.endswith("G%dAffine8cofactorE" % (1 if grp == "G1" else 2))]
    if len(nm) != 1:
        raise Inconclusive("cannot find %sAffine::cofactor" % grp)
    o = I.global_obj(nm[0])
    return o, I.load_bytes(o, 0, 16 if grp == "G1" else 64)


def g2_twist_orders():
    """the orders of the six twists of E(F_q^2): q^2 + 1 - t' for t' in {+-t2, (+-t2 +- 3 f2)/2}, t2 = t^2 - 2q, t2^2 - 4 q^2 = -3 f2^2"""
    import math
    t = BLS_X + 1
    t2 = t * t - 2 * Q
    f2sq, rem = divmod(4 * Q * Q - t2 * t2, 3)
    f2 = math.isqrt(f2sq)
    assert rem == 0 and f2 * f2 == f2sq
    tr = [t2, -t2, (t2 + 3 * f2) // 2, (t2 - 3 * f2) // 2, (-t2 + 3 * f2) // 2, (-t2 - 3 * f2) // 2]
    return [Q * Q + 1 - x for x in tr]


def ob_cofactors():
    P = prog()
    I = eir.Interp(P)
    x = BLS_X
    _, h1 = cofactor_obj(I, "G1")
    _, h2 = cofactor_obj(I, "G2")
    ce = {"h1": hex(h1), "h2": hex(h2)}
    if R_ORDER != x ** 4 - x ** 2 + 1 or Q != (x - 1) ** 2 * R_ORDER // 3 + x:
        raise Inconclusive("reference parameters are inconsistent")
    if (x - 1) ** 2 % 3 or h1 != (x - 1) ** 2 // 3:
        raise Violation("cofactor:G1:formula", "G1Affine::cofactor is not (x-1)^2/3", ce)
    if h1 * R_ORDER != Q + 1 - (x + 1):
        raise Violation("cofactor:G1:order", "G1Affine::cofactor * r is not #E(Fq) = q + 1 - t", ce)
    num = x ** 8 - 4 * x ** 7 + 5 * x ** 6 - 4 * x ** 4 + 6 * x ** 3 - 4 * x ** 2 - 4 * x + 13
    if num % 9 or h2 != num // 9:
        raise Violation("cofactor:G2:formula", "G2Affine::cofactor is not (x^8 - 4x^7 + 5x^6 - 4x^4 + 6x^3 - 4x^2 - 4x + 13)/9", ce)
    if h2 * R_ORDER not in g2_twist_orders():
        raise Violation("cofactor:G2:order", "G2Affine::cofactor * r is not the order of a sextic twist of E over Fq^2", ce)
    if h1 % R_ORDER == 0 or h2 % R_ORDER == 0:
        raise Violation("cofactor:r", "a cofactor is divisible by r", ce)
    return {"queries": 0, "paths": 0, "functions": ["G1Affine::cofactor", "G2Affine::cofactor"],
            "sample": "ground (python integers on the constants clang folded into the IR): h1 = (x-1)^2/3, h1*r = q+1-t; h2 = the closed formula, h2*r = order of a sextic twist over Fq^2"}


def ob_cofactor_path(grp):
    """Gk::multiply<GkAffine>(base, BigInt<128|512>) forwards base and scalar unchanged to the w-NAF routine of that width"""
    P = prog()
    bits = 128 if grp == "G1" else 512
    fld = "Fq" if grp == "G1" else "Fq2"
    f = P.find1(r"void " + B + grp + r"::multiply<" + B + grp + r"Affine>\(.*BigInt<%d> const&\)" % bits)
    I = eir.Interp(P)
    seen = []

    def h(I_, name, args, site):
        seen.append((I_.prog.demangled[name], args))
    I.add_intercept(r"void " + B + r"Projective<" + B + fld + r">::multiply_wnaf<" + B + grp + r"Affine, " + CORE + r"BigInt<%d>, 4u>" % bits + ANY, h, "multiply_wnaf")
    out, base, sc = Obj("out", 144 * DEG[grp], "arg", 16), Obj("base", 96 * DEG[grp] + 16, "arg", 16, True), Obj("scalar", bits // 8, "arg", 16, True)
    I.call_named(f, [Ptr(out, 0), Ptr(base, 0), Ptr(sc, 0)])
    ok = len(seen) == 1 and all(isinstance(a, Ptr) and a.obj is o and a.off == 0 for a, o in zip(seen[0][1], (out, base, sc)))
    if not ok:
        raise Violation("cofactor-path:" + grp, "%s::multiply<%sAffine>(., BigInt<%d>) does not forward to multiply_wnaf<%sAffine, BigInt<%d>, 4>" % (grp, grp, bits, grp, bits), {"calls": [s[0] for s in seen]})
    return {"queries": 0, "paths": 1, "functions": [short(P, f)], "sample": "forwards (this, base, scalar) to " + seen[0][0].replace("embedded_pairing::", "")[:100]}


def ob_compute_id():
    P = prog()
    f = P.find1(r"embedded_pairing::lqibe::compute_id_from_hash" + ANY)
    I = eir.Interp(P)
    ev = []
    cof, hval = cofactor_obj(I, "G1")

    def h_hash(I_, name, args, site):
        ev.append(("from_hash", args[0].obj, args[1]))
        I_.store_cell(args[0].obj, args[0].off, 97, ("H",))

    def h_mul(I_, name, args, site):
        ev.append(("multiply", args[0].obj, args[1].obj, args[2]))
        c = args[1].obj.cells.get(args[1].off)
        I_.store_cell(args[0].obj, args[0].off, 144, ("mul", c[1] if c else None, args[2].obj))

    def h_fp(I_, name, args, site):
        c = args[1].obj.cells.get(args[1].off)
        ev.append(("from_projective", args[0], c[1] if c else None))
        I_.store_cell(args[0].obj, args[0].off, 97, ("aff", c[1] if c else None))
    I.add_intercept(B + AFF["G1"] + r"::from_hash" + ANY, h_hash, "from_hash")
    I.add_intercept(r"void " + B + r"G1::multiply<" + B + r"G1Affine>\(.*BigInt<128> const&\)", h_mul, "G1::multiply<G1Affine>(BigInt<128>)")
    I.add_intercept(B + AFF["G1"] + r"::from_projective" + ANY, h_fp, "from_projective")

    def h_other(I_, name, args, site):
        raise Violation("compute_id:path", "compute_id_from_hash multiplies through %s instead of the 128-bit cofactor routine "
                        "(the 256-bit routine uses the endomorphism, which is only valid inside the order-r subgroup)" % I_.prog.demangled[name].replace("embedded_pairing::", "")[:90], {})
    I.add_intercept(r".*(?:G1|Projective<" + B + r"Fq>)::(?:multiply|from_affine).*", h_other, "other multiplication")

    def bad(name, args, site):
        raise Violation("compute_id:path", "compute_id_from_hash reaches %s" % name, {})
    I.external_handler = lambda I_, name, args, site: bad(name, args, site)
    hsh = Obj("idhash", 48, "arg", 1, True)
    ido = Obj("id", 112, "arg", 16)
    I.call_named(f, [Ptr(ido, 0), Ptr(hsh, 0)])
    c = ido.cells.get(0)
    want = ("aff", ("mul", ("H",), cof))
    kinds = [e[0] for e in ev]
    if kinds != ["from_hash", "multiply", "from_projective"] or c is None or c[1] != want or not (ev[0][2].obj is hsh and ev[0][2].off == 0):
        raise Violation("compute_id:trace", "compute_id_from_hash is not affine(cofactor * from_hash(hash)): calls %r, result %r" % (kinds, c and c[1]), {"calls": kinds})
    if not (ev[1][3].obj is cof and ev[1][3].off == 0):
        raise Violation("compute_id:cofactor", "the scalar of the multiplication is not G1Affine::cofactor", {})
    check_pure(I, "compute_id", "compute_id_from_hash")
    return {"queries": 0, "paths": 1, "functions": [short(P, f)],
            "sample": "trace: from_hash(hash.hash) -> G1::multiply<G1Affine>(., G1Affine::cofactor = %#x) [128-bit w-NAF routine, see cofactor-path:G1] -> from_projective" % hval}


# ---------------------------------------------------------------------------------------------------------------
def replay_c10(res):
    import c10_sampling
    return c10_sampling.replay(res)


def register(chk):
    chk.add("zp_from_hash", ob_zp_from_hash)
    for grp in ("G1", "G2"):
        chk.add("get_point_from_x:%s:checked" % grp, ob_get_point_from_x, grp, True)
        chk.add("get_point_from_x:%s:unchecked" % grp, ob_get_point_from_x, grp, False)
        chk.add("try_and_increment:%s" % grp, ob_try_and_increment, grp)
        chk.add("from_hash:%s" % grp, ob_from_hash, grp)
        chk.add("cofactor-path:%s" % grp, ob_cofactor_path, grp)
    chk.add("cofactors", ob_cofactors)
    chk.add("compute_id_from_hash", ob_compute_id)
    import c10_sampling
    c10_sampling.register(chk)
    if chk.tier == "thorough":
        # the portable back ends (64- and 32-bit words) of the byte/word-level obligations: same results on every platform
        for cfg in ("P64", "P32"):
            chk.add("%s:zp_from_hash" % cfg, ob_zp_from_hash, cfg)
            for grp in ("G1", "G2"):
                chk.add("%s:from_hash:%s" % (cfg, grp), ob_from_hash, grp, cfg)
            chk.add("%s:Fr::random" % cfg, c10_sampling.ob_fp_random, "Fr", cfg)
            chk.add("%s:Fq::random" % cfg, c10_sampling.ob_fp_random, "Fq", cfg)


def include_in(chk):
    """this check's obligations registered inside a check of a layer above (framework.Check.include)"""
    prog()
    if chk.tier == "thorough":
        prog("P64")
        prog("P32")
    chk.replayer = replay_c10
    register(chk)


def main(argv=None):
    chk = Check("C10", "proof", argv)
    chk.replayer = replay_c10
    prog()
    if chk.tier == "thorough":
        prog("P64")
        prog("P32")
    register(chk)
    import c10_sampling
    import c10_words
    chk.explanation = "\n\n".join(d.strip() for d in (__doc__, c10_sampling.__doc__, c10_words.__doc__))
    chk.bounds = ["all 32/48/96-byte hash inputs (symbolic bytes); all random byte streams (the callback stub returns fresh symbolic bytes on every call)",
                  "data-dependent loops: try_and_increment cut at its header (one inductive step from an arbitrary candidate); rejection loops cut as retry "
                  "loops with the independence of iterations checked (engine/retrycut.py); loops with concrete trip counts run in full",
                  "OUT OF SCOPE: termination / totality (existence of a curve point at or after the hashed x; acceptance probability of the rejection loops); "
                  "uniformity beyond 'retry only on out-of-range draws' + injectivity of digits -> scalar"]
    chk.trusted = ["field layer: Fq/Fq2 square, multiply, add, legendre, square_root as uninterpreted functions with T5 (sqrt contract) and 'no zero divisors' "
                   "instances; Fq::read_big_endian = (int mod 2^381) mod q with canonical stored representative (C02, C04, C09)",
                   "C03: the x86-64 kernels bigint_384_add/subtract meet their bit-vector specification",
                   "C02: BigInt<256>::add and BigInt<256>::compare meet their integer specification (used when PowersOfX::random is composed from the "
                   "specifications of the BigInt operations; the 64/128/192-bit instantiations are decided here, checks/c10_words.py)",
                   "group layer for the sampling of generators: G::multiply<Affine>(P, c) = [c]P (C06), Projective::is_zero decides identity (C05)",
                   "T10: #E(Fq) = h1 r, #E'(Fq2) = h2 r with r prime, so [h]P lies in the order-r subgroup", "z3"]
    chk.assumptions = ["field operands are canonical (class invariant of Fq/Fq2, C02/C04)",
                       "the random source writes exactly the n bytes it is asked for (caller's contract); its bytes are unconstrained"]
    # lower layers whose specifications this check relies on: their obligations are part of this check's claim (framework.Check.include)
    for dep in ['C06', 'C02', 'C03', 'C04', 'C05', 'C19', 'C20']:
        chk.include(dep)
    chk.run()
    chk.finish()


if __name__ == "__main__":
    main()
