"""C03, AArch64 assembly back end (src/core/arch/aarch64/bigint.s, multiply.s).

The instruction stream that clang's assembler emits for the current .s files (-target aarch64-linux-gnu, read back with llvm-objdump) is
executed by engine/easm_a64.py over affine integer forms; z3 (QF_LIA) decides equality with the same integer specifications as for the
x86-64 and portable back ends (engine/wordspec.py), for all operand values and for the alias patterns the C++ callers can produce.
There is no AArch64 hardware or emulator in the sandbox: counterexamples are replayed in the interpreter's concrete mode against python
big-integer arithmetic (`replay-kind=interpreter`), and the same concrete mode is validated on every run by the self-test obligations.

Hook into checks/c03.py (one line in its register()):      import c03_a64; c03_a64.register(chk)
Stand-alone (scratch evidence only):  VERIF_WORK=... VERIF_OUT=... python3-vt checks/c03_a64.py [--only regex]
"""
import sys
import os
import glob
sys.path.insert(0, os.path.dirname(os.path.dirname(os.path.abspath(__file__))))

from engine import build, easm_a64, wordspec_a64, framework
from engine.eir import MemViolation
from engine.framework import Check, Violation

_PROG = None
ROUTINES = sorted(wordspec_a64.KINDS)


def a64_prog():
    """assembled once, in the parent process (build.workdir wipes its directory, so workers must not call it concurrently)"""
    global _PROG
    if _PROG is None:
        d = build.workdir("asm_a64_c03")
        srcs = sorted(glob.glob(os.path.join(build.REPO, "src/core/arch/aarch64/*.s")))
        if len(srcs) != 2:
            raise RuntimeError("expected bigint.s and multiply.s under src/core/arch/aarch64, found %r" % (srcs,))
        _PROG = easm_a64.A64Program(easm_a64.assemble(srcs, d))
    return _PROG


def _guard(fn, kind, alias):
    """a safety violation met on the symbolic run (clobbered callee-saved register, out-of-bounds access, ...) is replayed concretely"""
    try:
        return fn(a64_prog(), kind, alias)
    except MemViolation as e:
        ce = {"backend": "aarch64", "routine": wordspec_a64.PFX + kind, "alias": alias, "replay-kind": "interpreter"}
        import random
        a, b = wordspec_a64.battery(kind, random.Random(1), 1)[-1]
        try:
            wordspec_a64.concrete(a64_prog(), kind, alias, a, a if alias == 3 else b)
            rep = None
        except MemViolation as e2:
            rep = True if e2.kind == e.kind else None
            ce.update({"a": hex(a), "b": hex(b), "interpreter_result": str(e2)})
        v = Violation("a64:%s:alias=%d:%s" % (kind, alias, e.kind), "%s%s: %s%s" % (
            wordspec_a64.PFX, kind, e, " [replay-kind=interpreter: the same fault occurs on a concrete execution]" if rep else ""), ce)
        v.info = {"replayed": rep}
        raise v


def ob_selftest(kind, n_random):
    return wordspec_a64.selftest(a64_prog(), kind, n_random)


def ob_symbols():
    """the routines the headers declare are exactly the global function symbols the two files define, and their parameter lists are the
    argument registers the obligations fill (ground comparison of names)"""
    hdr = ""
    for h in ("bigint.hpp", "fp.hpp"):
        hdr += open(os.path.join(build.REPO, "include/core/arch/aarch64", h)).read()
    import re
    decl = {m.group(1): [a.split()[-1].lstrip("*") for a in m.group(2).split(",")]
            for m in re.finditer(r"^\s*(?:bool|void|uint64_t)\s+embedded_pairing_core_arch_aarch64_(\w+)\s*\(([^)]*)\)\s*;", hdr, re.M)}
    calls = {m.group(1): [a.strip() for a in m.group(2).split(",")]
             for m in re.finditer(r"^\s*(?:return\s+)?embedded_pairing_core_arch_aarch64_(\w+)\s*\(([^)]*)\)\s*;", hdr, re.M)}
    declared = sorted(decl)
    defined = sorted(s[len(wordspec_a64.PFX):] for s in a64_prog().sym if s.startswith(wordspec_a64.PFX) and "_final_" not in s)
    if declared != defined or declared != ROUTINES:
        raise Violation("a64:symbols", "AArch64 routines declared in the headers %r, defined in the .s files %r, covered by this check %r" % (
            declared, defined, ROUTINES), {"backend": "aarch64", "declared": declared, "defined": defined})
    for kind, (na, nb, nres, has_p, _) in wordspec_a64.KINDS.items():
        want = ["res", "a"] + (["b"] if nb else []) + (["p", "inv_word"] if has_p else [])
        call = ["this", "&a"] + (["&b"] if nb else []) + (["&p", "inv_word"] if has_p else [])
        if decl[kind] != want or calls.get(kind) != call:
            raise Violation("a64:symbols:" + kind, "%s%s: header declares parameters %r and the C++ wrapper passes %r; the obligations assume %r / %r" % (
                wordspec_a64.PFX, kind, decl[kind], calls.get(kind), want, call), {"backend": "aarch64", "declared": decl[kind], "call": calls.get(kind)})
    return {"queries": 0, "paths": 0, "functions": [], "sample": "declared == defined == checked: %s; declared parameter lists and the C++ wrappers' argument lists "
            "match the argument registers the obligations fill (ground comparison of names, no solver query)" % ", ".join(declared)}


def ob_simple(kind, alias):
    return _guard(wordspec_a64.a64_simple, kind, alias)


def ob_multiply(kind, alias):
    return _guard(wordspec_a64.a64_multiply, kind, alias)


def ob_montgomery(kind, alias):
    return _guard(wordspec_a64.a64_montgomery, kind, alias)


BOUNDS = ["AArch64: all 384-bit operands for bigint_384_add/subtract/multiply2 (res distinct, res==a, res==b, res==a==b), bigint_768_multiply "
          "(also a==b) and bigint_768_square; all 768-bit inputs below p*2^384 for fpbase_384_montgomery_reduce; all a, b < p for the fused "
          "fpbase_384_multiply (res distinct, res==a, res==b, res==a==b) and fpbase_384_square (res distinct, res==a); the routines have no loops: every feasible path is executed, no unwinding bound",
          "AArch64: the back end has no fpbase_384_add/subtract/multiply2 routines (commented out in bigint.s); on AArch64 those operations are the generic C++ "
          "(decided as P64) with BigInt<384>::add/subtract/shift_left_in_word<1> replaced by the kernels decided here against the same specification "
          "(equal functions substituted; that C++ is not separately executed for an AArch64 target)",
          "AArch64: counterexamples and the per-run self-test are executed by the interpreter's concrete mode only (replay-kind=interpreter); "
          "NOT covered: behaviour of real AArch64 hardware where it differs from engine/easm_a64.py"]
TRUSTED = ["AArch64 instruction semantics as implemented in engine/easm_a64.py (ldp/stp/ldr/str addressing and write-back, add/adc/sub/sbc and their "
           "flag-setting forms, cmp/cmn, mul/umulh/madd, cset/csel, b.cond, NZCV with C = NOT borrow, AAPCS64 x19-x28/x29/x30/sp preservation); "
           "no hardware or emulator run",
           "clang's integrated AArch64 assembler and llvm-objdump-14 (the instruction stream read back is the one analysed)",
           "0<=a,b<=p-1 ==> a*b<=(p-1)^2 is decided by z3's non-linear arithmetic on every run (fused multiply/square, stage boundary)"]


def annotate(chk):
    chk.bounds = [b for b in chk.bounds if "AArch64 and ARMv6-M" not in b] + BOUNDS
    chk.trusted = list(chk.trusted) + TRUSTED


def register(chk):
    a64_prog()
    chk.add("a64:symbols", ob_symbols)
    for kind in ROUTINES:
        chk.add("a64:selftest:%s" % kind, ob_selftest, kind, 24 if chk.tier == "quick" else 400)
        fn = ob_simple if kind.startswith("bigint_384") else ob_multiply if kind.startswith("bigint_768") else ob_montgomery
        for alias in wordspec_a64.ALIASES[kind]:
            chk.add("a64:%s:alias=%d" % (kind, alias), fn, kind, alias)
    if not hasattr(chk, "run"):          # registered inside another check (framework.Check.include): nothing to annotate
        return
    run0 = chk.run

    def run():          # c03.main() assigns bounds/trusted after register(): add the AArch64 statements just before the run
        annotate(chk)
        return run0()
    chk.run = run


def main(argv=None):
    if "VERIF_OUT" not in os.environ:       # stand-alone runs never overwrite the committed C03 evidence
        import tempfile
        d = tempfile.mkdtemp(prefix="c03_a64_")
        framework.EVIDENCE, framework.REPLAYS = os.path.join(d, "evidence"), os.path.join(d, "replays")
    chk = Check("C03", "proof", argv)
    register(chk)
    chk.explanation = __doc__.split("\n\n")[1]
    chk.assumptions = ["operands of the fused fpbase kernels are < p (class invariant, established by C02)", "reduction input < p*2^384"]
    chk.run()
    chk.finish()


if __name__ == "__main__":
    main()
