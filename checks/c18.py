"""C18 - results do not depend on whether the output object aliases an input (DESIGN.md section 5, C18).

The aliasing patterns are enumerated from the IR: for every method whose first parameter is the written object, each
further pointer parameter of the same pointee type that is *not* `noalias` (clang emits noalias exactly for __restrict)
may be the output object.  Each (function, pattern) is executed symbolically with the output object being that input
object and compared, for all operand values, with the specification (which is what the distinct-object run is proved
equal to in C04/C05) - so 'same result as with a distinct output' is decided by the solver, not sampled.
"""
import sys
import os
import re
import itertools
sys.path.insert(0, os.path.dirname(os.path.abspath(__file__)))
sys.path.insert(0, os.path.dirname(os.path.dirname(os.path.abspath(__file__))))

from engine import build, eir, tower
from engine import irparse as ir
from engine.framework import Check, Violation, Inconclusive
from engine.tower import CLASS, NS
import c04
import c05


def aliasable_params(prog, fname):
    """indices (0-based among the inputs, i.e. parameter 1 is input 0) that may alias parameter 0"""
    f = prog.fn[fname]
    if not f.params or not isinstance(f.params[0].ty, ir.PtrTy):
        return []
    t0 = repr(f.params[0].ty)
    out = []
    for i, p in enumerate(f.params[1:]):
        if repr(p.ty) == t0 and not p.attrs.get("noalias") and not f.params[0].attrs.get("noalias"):
            out.append(i)
    return out


def patterns(idx):
    pats = [(i,) for i in idx]
    if len(idx) >= 2:
        pats.append(tuple(idx))
    return pats


TOWER_METHODS = [
    # (method, input levels relative: 'k' = same level, 1 = Fq2), spec
    ("add", "kk", lambda k: c04.S_add(k)), ("subtract", "kk", lambda k: c04.S_sub(k)), ("multiply", "kk", lambda k: c04.S_mul(k)),
    ("square", "k", lambda k: c04.S_sqr(k)), ("multiply2", "k", lambda k: c04.S_dbl(k)), ("negate", "k", lambda k: c04.S_neg(k)),
    ("copy", "k", lambda k: (lambda T, a: a)),
]


def register(chk, prog):
    n_skipped_restrict = 0
    for k in (1, 2, 3):
        ic = tuple(range(k))
        C = CLASS[k]
        for mname, shape, spec in TOWER_METHODS:
            argpat = r"\(%s const&, %s const&\)" % (c04.CLSNAME[k], c04.CLSNAME[k]) if mname == "multiply" else r"\(.*\)"
            fname = prog.find1(c04.method(k, mname, argpat))
            idx = aliasable_params(prog, fname)
            if len(idx) < len(shape):
                n_skipped_restrict += 1
            for pat in patterns(idx):
                chk.add("%s::%s:out=%s" % (C, mname, "=".join("ab"[i] for i in pat)), c04.tower_op, prog, k, mname, 0, ic,
                        tuple(k for _ in shape), spec(k), pat, None, None, 120000, argpat)
        chk.add("%s::inverse:out=a" % C, c04.inverse_op, prog, k, True)
    extra = [
        (1, "multiply_by_nonresidue", (1,), lambda T, a: T.mul(1, a, T.from_ints(1, (1, 1)))),
        (2, "multiply_by_nonresidue", (2,), lambda T, a: T.mul(2, a, (T.zero(1), T.one(1), T.zero(1)))),
        (2, "multiply_by_c1", (2, 1), lambda T, a, c1: T.mul(2, a, (T.zero(1), c1, T.zero(1)))),
        (2, "multiply_by_c01", (2, 1, 1), lambda T, a, c0, c1: T.mul(2, a, (c0, c1, T.zero(1)))),
        (3, "multiply_by_c014", (3, 1, 1, 1), lambda T, a, c0, c1, c4: T.mul(3, a, ((c0, c1, T.zero(1)), (T.zero(1), c4, T.zero(1))))),
        (3, "conjugate", (3,), lambda T, a: T.conj(3, a)),
    ]
    for k, mname, levels, spec in extra:
        fname = prog.find1(c04.method(k, mname))
        for pat in patterns(aliasable_params(prog, fname)):
            chk.add("%s::%s:out=%s" % (CLASS[k], mname, "=".join("abcd"[i] for i in pat)), c04.tower_op, prog, k, mname, 0, tuple(range(k)),
                    levels, spec, pat)
    # Frobenius with out = a, all residues
    for k in (1, 2, 3):
        chk.add("%s::frobenius_map:out=a" % CLASS[k], frobenius_alias, prog, k)
    # curve layer: every C05 case with the output aliasing the first operand
    for k in (0, 1):
        g = c05.GNAME[k]
        for mixed in (False, True):
            for (ra, rb, rel) in c05.pair_cases(mixed):
                chk.add("%s:add%s:%s+%s:%s:out=a" % (g, "_mixed" if mixed else "", ra, rb, rel), c05.ob_add, prog, k, mixed, ra, rb, rel, "a")
        for rep in ("gen", "z1", "O"):
            chk.add("%s:double:%s:out=a" % (g, rep), c05.ob_double, prog, k, rep, False, True)
            chk.add("%s:negate:%s:out=a" % (g, rep), c05.ob_negate, prog, k, rep, True)
        chk.add("%s:double:gen:y0:out=a" % g, c05.ob_double, prog, k, "gen", True, True)
    return n_skipped_restrict


def frobenius_alias(prog, level):
    """same obligation as C04's frobenius_op but with the output object being the input object"""
    import z3
    from engine.harness import TowerHarness
    from engine.eir import Ptr
    period = {1: 2, 2: 6, 3: 12}[level]
    H = TowerHarness(prog, 0, tuple(range(level)), 60000)
    T, tm = H.T, H.tm
    fname = H.fn(c04.method(level, "frobenius_map"))
    a = T.var(level, "a")
    power = z3.BitVec("power", 32)

    def make_args():
        o, _ = tm.new_input("a", level, a)
        return [Ptr(o, 0), Ptr(o, 0), power], (lambda: tm.read(Ptr(o, 0), level))
    res = H.run(fname, make_args)
    seen = set()
    for path, ret, out in res:
        s = z3.Solver()
        s.add(*path.pc)
        if s.check() != z3.sat:
            raise Inconclusive("path condition unsatisfiable")
        k = s.model().eval(power, model_completion=True).as_long() % period
        seen.add(k)
        ok, idx, mdl = T.equal(level, out, T.frobenius(level, a, k), "frobenius_map[%d]" % k)
        if not ok:
            raise Violation("%s::frobenius_map:out=a:power=%d" % (CLASS[level], k), "%s::frobenius_map with out == a differs from a^(q^%d)" % (CLASS[level], k),
                            H.counterexample(mdl, {"function": fname, "level": level, "method": "frobenius_map", "power": k, "alias": [0]}))
    if seen != set(range(period)):
        raise Inconclusive("residues covered: %r" % sorted(seen))
    return dict(H.stats(), paths=len(res), sample="%s::frobenius_map out=a, %d residue classes" % (CLASS[level], period))


def replay_any(res):
    """native confirmation: word shifts through replay/driver (shiftalias), tower methods through C04's replayer"""
    ce = res.counterexample or {}
    if isinstance(ce, dict) and str(ce.get("kernel", "")).startswith("bigint_") and "shift" in ce["kernel"] and ce.get("backend") in ("A", "P64"):
        from engine import replay
        bits = int(ce["kernel"].split("_")[1])
        d = ce["kernel"].split("_")[-1]
        cmd = "shiftalias %d %s %d %s" % (bits, d, ce["amount"], ce["a"][2:])
        out = replay.run([cmd], ce["backend"])[0]
        ce["native_replay"] = {"command": cmd, "native_output": out[:420]}
        if "aliased" in ce:
            return out.startswith("DIFF")
        # value obligation: the natively computed distinct-output result against the shifted integer
        a = int(ce["a"], 16)
        want = (a >> ce["amount"]) if d == "right" else (a << ce["amount"]) & ((1 << bits) - 1)
        import re as _re
        m = _re.search(r"distinct=([0-9a-f]+)", out)
        return None if m is None else int(m.group(1), 16) != want
    return c04.replay_tower(res)


def include_in(chk):
    """this check's obligations registered inside a check of a layer above (framework.Check.include): everything except the two scalar-multiplication
    loops with result == base (a minute each; they stay in C18 and C06)"""
    prog = build.load_program("A", files=["src/bls12_381/fq2.cpp", "src/bls12_381/fq6.cpp", "src/bls12_381/fq12.cpp", "src/bls12_381/fq.cpp",
                                           "src/bls12_381/fq12_cyclotomic.cpp", "src/bls12_381/curve.cpp", "src/bls12_381/curve_fast_multiply.cpp",
                                           "src/bls12_381/pairing.cpp", "src/bls12_381/bls12_381.cpp"], tag="c18")
    prog.demangle_all()
    chk.replayer = replay_any
    register(chk, prog)
    import c18_words
    import c02
    for cfg in ("A", "P64") + (("P32",) if chk.tier == "thorough" else ()):
        c02.prog_for(cfg)
    c18_words.register(chk)
    import c18_more
    c18_more.register(chk, heavy=False)


def main(argv=None):
    chk = Check("C18", "proof", argv)
    chk.replayer = replay_any
    prog = build.load_program("A", files=["src/bls12_381/fq2.cpp", "src/bls12_381/fq6.cpp", "src/bls12_381/fq12.cpp", "src/bls12_381/fq.cpp",
                                           "src/bls12_381/fq12_cyclotomic.cpp", "src/bls12_381/curve.cpp", "src/bls12_381/curve_fast_multiply.cpp",
                                           "src/bls12_381/pairing.cpp", "src/bls12_381/bls12_381.cpp"], tag="c18")
    prog.demangle_all()
    nres = register(chk, prog)
    import c18_words
    import c02
    for cfg in ("A", "P64") + (("P32",) if chk.tier == "thorough" else ()):
        c02.prog_for(cfg)
    c18_words.register(chk)
    import c18_more
    c18_more.register(chk)
    chk.explanation = ("For each tower and curve method, the aliasing patterns permitted by the signature (parameters without noalias in the IR) are "
                       "enumerated from the IR of the current tree; each (function, pattern) is symbolically executed with the output object being the "
                       "input object(s) and z3 decides equality with the specification for all operand values. %d operand positions are __restrict and "
                       "therefore excluded, as the property states." % nres)
    chk.bounds = ["whole-object aliasing (out=a, out=b, out=a=b); partial overlap is outside the property", "all operand values (free indeterminates)",
                  "layers covered: Fq2, Fq6, Fq12, Projective<Fq>, Projective<Fq2>; scalar multiplication (endomorphism / Frobenius methods, w-NAF and double-and-add wrappers), "
                  "G1::endomorphism, G2::frobenius_map, affine negation, Fq12::exponentiate_gt, square_cyclotomic, map_to_cyclotomic, final_exponentiation with result == input (checks/c18_more.py); "
                  "word layer (BigInt/Fp, res==a) is covered by C03 and c18_words; C wrappers forward pointers unchanged (C19)"]
    chk.trusted = ["same as C04/C05"]
    chk.assumptions = ["Fq-level methods are alias-safe (word layer, C02/C03)"]
    # statelessness (no call leaves anything behind in a global or static) is a premise of every per-call obligation: C20's IR obligations
    chk.include("C20")
    # the word and FpBase layers' aliasing obligations (alias=1..3 variants of add / subtract / double / negate / multiply, every back end) live in C02/C03
    chk.include("C02")
    chk.include("C03")
    chk.run()
    chk.finish()


if __name__ == "__main__":
    main()
