"""C11 - WKD-IBE: every key from any delegation history is well-formed and decrypts (DESIGN.md section 5, C11).

Histories are handled by induction, not enumeration:
  base   keygen / nondelegable_keygen from setup's post-state give WF(pattern of the list, rho)          (rho = fresh randomness resp. 1)
  step   from an ARBITRARY well-formed key WF(parent pattern, rho) (rho a formal symbol), each of qualifykey, nondelegable_qualifykey,
         resamplekey with any list the documentation permits gives WF(accumulated pattern, rho') (rho' = rho + fresh, resp. rho)
  use    for an arbitrary well-formed key, decrypt(encrypt(m, fixed pattern)) = m; decrypt_master likewise; setup's post-state is the
         parameter relation assumed everywhere (pairing = e(g2, g1), g1 = alpha*g, msk = alpha*g2)
Slot shapes are enumerated (l <= 3 quick, l <= 4 thorough); all attribute values (any 256-bit integers), randomness and group elements are
symbolic.  adjust_nondelegable as a step: the obligations of C14 (adjust == qualification from scratch, l <= 2 quick / 3 thorough) are registered here too.
"""
import sys
import os
import itertools
sys.path.insert(0, os.path.dirname(os.path.dirname(os.path.abspath(__file__))))
sys.path.insert(0, os.path.dirname(os.path.abspath(__file__)))

import z3
import wkd
from wkd import World, describe
from engine import eir
from engine.dom_grp import Poly, GE, SV
from engine.eir import Ptr, Obj, is_conc
from engine.framework import Check, Violation, Inconclusive


def new_pattern(pattern, shape, omit_all, W, tag="n"):
    """returns (parent_fixed {slot: idterm}, parent_free [slots], list entries [(slot, idterm|None)], new_fixed, new_free)"""
    G = W.G
    pfixed, pfree, entries, nfixed, nfree = {}, [], [], {}, []
    for i, (st, le) in enumerate(zip(pattern, shape)):
        if st == "fixed":
            idv = G.ivar("id%d" % i)
            pfixed[i] = idv
            nfixed[i] = idv
            if le == "same":
                entries.append((i, idv))
        elif st == "free":
            pfree.append(i)
            if le == "value":
                idv = G.ivar("%s%d" % (tag, i))
                entries.append((i, idv))
                nfixed[i] = idv
            elif le == "hide":
                entries.append((i, None))
            elif not omit_all:
                nfree.append(i)
        else:
            if le == "hide":
                entries.append((i, None))
    return pfixed, pfree, entries, nfixed, nfree


def run_paths(W, once, max_paths=512):
    out = []
    for path, res in W.I.explore(once, max_paths):
        out.append((path, res))
    if not out:
        raise Inconclusive("no feasible path")
    return out


def stats(W, n, fns):
    return {"queries": W.G.queries + getattr(W.I, "vc_count", 0), "paths": n, "functions": fns,
            "sample": "%d path(s); coefficient-wise comparison of formal logarithms modulo r" % n}


# ---------------------------------------------------------------------------------------------------------------
def ob_keygen(l, shape, omit_all, sig, nondelegable):
    W = World(l, sig)
    pattern = ("free",) * l
    _, _, entries, nfixed, nfree = new_pattern(pattern, shape, omit_all, W)
    fname = W.fn("nondelegable_keygen" if nondelegable else "keygen")
    what = "%s(%s)" % ("nondelegable_keygen" if nondelegable else "keygen", describe(pattern, shape, omit_all, sig))
    key = "%s:%s" % ("nondelegable_keygen" if nondelegable else "keygen", describe(pattern, shape, omit_all, sig))
    ce = {"function": fname, "l": l, "list": list(shape), "omit_all": omit_all, "signatures": sig}

    def once():
        out = W.out_key_obj(len(nfree))
        args = [Ptr(out, 0), Ptr(W.params_obj(), 0), Ptr(W.msk_obj(), 0), Ptr(W.attrlist_obj(entries, omit_all), 0)]
        if not nondelegable:
            args.append(W.cb)
        W.G.nsym = 0
        W.I.call_named(fname, args)
        return W.read_key(out)
    res = run_paths(W, once)
    for path, got in res:
        rho = Poly.const(1) if nondelegable else W.G.sym("rnd1")
        W.compare_key(got, W.wf_key(nfixed, nfree, rho), path.pc, key, what, ce)
    return stats(W, len(res), [W.prog.demangled[fname][:100]])


def ob_qualify(l, pattern, shape, omit_all, sig, nondelegable):
    W = World(l, sig)
    pfixed, pfree, entries, nfixed, nfree = new_pattern(pattern, shape, omit_all, W)
    name = "nondelegable_qualifykey" if nondelegable else "qualifykey"
    fname = W.fn(name)
    what = "%s(%s)" % (name, describe(pattern, shape, omit_all, sig))
    key = "%s:%s" % (name, describe(pattern, shape, omit_all, sig))
    ce = {"function": fname, "l": l, "parent": list(pattern), "list": list(shape), "omit_all": omit_all, "signatures": sig}
    rho = W.G.sym("rho")

    def once():
        out = W.out_key_obj(len(nfree))
        parent = W.key_obj(W.wf_key(pfixed, pfree, rho), "parent")
        args = [Ptr(out, 0), Ptr(W.params_obj(), 0), Ptr(parent, 0), Ptr(W.attrlist_obj(entries, omit_all), 0)]
        if not nondelegable:
            args.append(W.cb)
        W.G.nsym = 0
        W.I.call_named(fname, args)
        return W.read_key(out)
    res = run_paths(W, once)
    for path, got in res:
        rho2 = rho if nondelegable else rho + W.G.sym("rnd1")
        W.compare_key(got, W.wf_key(nfixed, nfree, rho2), path.pc, key, what, ce)
    return stats(W, len(res), [W.prog.demangled[fname][:100]])


def ob_resample(l, pattern, further, sig):
    W = World(l, sig)
    shape = tuple("same" if s == "fixed" else "absent" for s in pattern)
    pfixed, pfree, entries, nfixed, nfree = new_pattern(pattern, shape, False, W)
    fname = W.fn("resamplekey")
    what = "resamplekey(parent=%s further=%d sig=%d)" % (",".join(pattern), further, sig)
    key = "resamplekey:%s:further=%d:sig=%d" % (",".join(pattern), further, sig)
    ce = {"function": fname, "l": l, "parent": list(pattern), "further": further, "signatures": sig}
    rho = W.G.sym("rho")

    def once():
        out = W.out_key_obj(len(pfree) if further else 0)
        parent = W.key_obj(W.wf_key(pfixed, pfree, rho), "parent")
        pre = Obj("precomputed", 144, "arg", 16, True)
        W.I.store_cell(pre, 0, 144, GE("G1", W.attr_product(pfixed)))
        W.G.nsym = 0
        W.I.call_named(fname, [Ptr(out, 0), Ptr(W.params_obj(), 0), Ptr(pre, 0), Ptr(parent, 0), int(further), W.cb])
        return W.read_key(out)
    res = run_paths(W, once)
    for path, got in res:
        want = W.wf_key(pfixed, pfree if further else [], rho + W.G.sym("rnd1"))
        W.compare_key(got, want, path.pc, key, what, ce)
    return stats(W, len(res), [W.prog.demangled[fname][:100]])


def ob_setup(l, sig):
    """setup's post-state satisfies the parameter relation used as the pre-state of every other obligation"""
    W = World(l, sig)
    fname = W.fn("setup")
    L = W.L

    def once():
        params = Obj("params", L.P_size, "arg", 16)
        harr = Obj("params.h", 144 * max(l, 1), "arg", 16)
        W.I.store_cell(params, L.P_h, 8, Ptr(harr, 0))
        msk = Obj("msk", 144, "arg", 16)
        W.G.nsym = 0
        W.I.call_named(fname, [Ptr(params, 0), Ptr(msk, 0), l, int(sig), W.cb])
        return params, harr, msk
    res = run_paths(W, once)
    M, G = W.M, W.G
    for path, (params, harr, msk) in res:
        g = M.read(Ptr(params, L.P_g), "G2").p
        g1 = M.read(Ptr(params, L.P_g1), "G2").p
        g2 = M.read(Ptr(params, L.P_g2), "G1").p
        g3 = M.read(Ptr(params, L.P_g3), "G1").p
        pr = M.read(Ptr(params, L.P_pairing), "GT").p
        hsig = M.read(Ptr(params, L.P_hsig), "G1").p
        ga = M.read(Ptr(msk, 0), "G1").p
        alpha = Poly.sym("rnd1")
        checks = [("g1 = alpha*g", g1, alpha * g), ("msk = alpha*g2", ga, alpha * g2), ("pairing = e(g2, g1)", pr, g2 * g1)]
        for nm, a, b in checks:
            ok, mono, _ = G.equal(a, b, path.pc)
            if not ok:
                raise Violation("setup:" + nm, "setup(l=%d, sig=%d): %s does not hold" % (l, sig, nm), {"function": fname, "l": l})
        gens = [g, g2, g3] + [M.read(Ptr(harr, 144 * i), "G1").p for i in range(l)] + ([hsig] if sig else [])
        names = set()
        for p in gens:
            if len(p.t) != 1 or list(p.t.values()) != [1] or len(list(p.t)[0]) != 1:
                raise Violation("setup:independent-generators", "setup: a generator is not an independently sampled element", {"l": l})
            names.add(list(p.t)[0])
        if len(names) != len(gens):
            raise Violation("setup:independent-generators", "setup: two generators share their randomness", {"l": l})
        if not sig and hsig.t:
            raise Violation("setup:hsig", "setup without signatures leaves a non-identity hsig", {"l": l})
        if W.I.load_bytes(params, L.P_l, 4) != l or W.I.load_bytes(params, L.P_sig, 1) != int(sig):
            raise Violation("setup:fields", "setup does not record l / signatures", {"l": l})
    return stats(W, len(res), [W.prog.demangled[fname][:100]])


def ob_decrypt(l, pattern, sig, master):
    """decrypt(encrypt(m, list = fixed part of the pattern)) = m for an arbitrary well-formed key of that pattern (resp. the master key)"""
    W = World(l, sig)
    shape = tuple("same" if s == "fixed" else "absent" for s in pattern)
    pfixed, pfree, entries, _, _ = new_pattern(pattern, shape, False, W)
    f_enc, f_dec = W.fn("encrypt"), W.fn("decrypt_master" if master else "decrypt")
    rho = W.G.sym("rho")
    msg = W.G.sym("msg")
    L = W.L

    def once():
        ct = Obj("ct", L.C_size, "arg", 16)
        m = Obj("m", 576, "arg", 16, True)
        W.I.store_cell(m, 0, 576, GE("GT", msg))
        W.G.nsym = 0
        W.I.call_named(f_enc, [Ptr(ct, 0), Ptr(m, 0), Ptr(W.params_obj(), 0), Ptr(W.attrlist_obj(entries, False), 0), W.cb])
        out = Obj("out", 576, "arg", 16)
        keyo = W.msk_obj() if master else W.key_obj(W.wf_key(pfixed, pfree, rho))
        W.I.call_named(f_dec, [Ptr(out, 0), Ptr(ct, 0), Ptr(keyo, 0)])
        return W.M.read(Ptr(out, 0), "GT").p
    res = run_paths(W, once)
    for path, got in res:
        ok, mono, mdl = W.G.equal(got, msg, path.pc)
        if not ok:
            raise Violation("%s:%s:sig=%d" % ("decrypt_master" if master else "decrypt", ",".join(pattern), sig),
                            "%s does not return the message encrypted to the key's own pattern (residual monomial %s)" % ("decrypt_master" if master else "decrypt", mono),
                            {"l": l, "pattern": list(pattern), "model": W.G.model_values(mdl)})
    return stats(W, len(res), [W.prog.demangled[f_enc][:80], W.prog.demangled[f_dec][:80]])


# ---------------------------------------------------------------------------------------------------------------
def replay_step(res):
    """native replay of a delegation-step counterexample: a real parent key with the parent pattern is generated from a real master key,
    the step is applied with a list of the given shape, and the resulting key's slot list and its ability to decrypt a ciphertext for the
    accumulated pattern are compared with what a well-formed key must show"""
    ce = res.counterexample or {}
    fn = None
    for cand in ("nondelegable_qualifykey", "nondelegable_keygen", "qualifykey", "keygen"):
        if res.name.startswith(cand + ":"):
            fn = cand
            break
    if fn is None or "list" not in ce:
        return None
    from engine import replay
    l = ce["l"]
    parent = ce.get("parent") or ["free"] * l
    pc = "".join({"free": "F", "fixed": "X", "hidden": "H"}[x] for x in parent) or "-"
    lc = "".join({"absent": "a", "same": "s", "value": "v", "hide": "h"}[x] for x in ce["list"]) or "-"
    exp_free = [i for i in range(l) if parent[i] == "free" and ce["list"][i] == "absent" and not ce["omit_all"]]
    ids = []
    for k, v in (ce.get("model") or {}).items():
        if k[:2] == "id" or k[:1] == "n":
            ids.append("%s=%s" % (k.lstrip("idn"), v[2:]))
    cmd = "wkdq %s %d %d %d %s %s %s" % (fn, l, int(ce["signatures"]), int(ce["omit_all"]), pc, lc, " ".join(ids))
    out = replay.run([cmd])[0]
    want = "l=%d idx=%s decrypt=OK a0=OK b=OK bsig=OK" % (len(exp_free), "".join("%d," % i for i in exp_free))
    ce["native_replay"] = {"command": cmd, "native_output": out, "expected": want}
    return out.strip() != want


def register(chk, maxl=None):
    maxl = maxl or (3 if chk.tier == "quick" else 4)
    for l in range(0, maxl + 1):
        for sig in (False, True):
            chk.add("setup:l=%d:sig=%d" % (l, sig), ob_setup, l, sig)
        free = ("free",) * l
        for shape in wkd.list_shapes(free):
            for omit_all in (False, True):
                for sig in ((False, True) if l <= 2 else (True,)):
                    d = describe(free, shape, omit_all, sig)
                    chk.add("keygen:" + d, ob_keygen, l, shape, omit_all, sig, False)
                    chk.add("nondelegable_keygen:" + d, ob_keygen, l, shape, omit_all, sig, True)
        for pattern in wkd.parent_patterns(l):
            for sig in ((False, True) if l <= 2 else (True,)):
                chk.add("decrypt:%s:sig=%d" % (",".join(pattern), sig), ob_decrypt, l, pattern, sig, False)
                for further in (False, True):
                    chk.add("resamplekey:%s:further=%d:sig=%d" % (",".join(pattern), further, sig), ob_resample, l, pattern, further, sig)
            chk.add("decrypt_master:%s" % ",".join(pattern), ob_decrypt, l, pattern, True, True)
            for shape in wkd.list_shapes(pattern):
                for omit_all in (False, True):
                    for sig in ((False, True) if l <= 1 else (True,)):
                        d = describe(pattern, shape, omit_all, sig)
                        chk.add("qualifykey:" + d, ob_qualify, l, pattern, shape, omit_all, sig, False)
                        chk.add("nondelegable_qualifykey:" + d, ob_qualify, l, pattern, shape, omit_all, sig, True)
    # non-delegable adjustment as an inductive step: from WF(parent pattern + from) it returns WF(parent pattern + to).  Same obligations as C14's
    # (adjust == re-qualification from scratch), registered here because the statement of C11 counts adjustment among the history steps.
    import c14
    for l in range(0, min(maxl, 2 if chk.tier == "quick" else 3) + 1):
        for pattern in wkd.parent_patterns(l):
            for fs in wkd.list_shapes(pattern):
                for ts in wkd.list_shapes(pattern):
                    for fo, to_ in ((False, False), (False, True), (True, False), (True, True)):
                        if (fo or to_) and l > 1 and chk.tier == "quick" and "fixed" in pattern:
                            continue
                        chk.add("adjust_nondelegable:parent=%s:from=%s:to=%s:omit=%d%d" % (",".join(pattern) or "-", ",".join(fs) or "-", ",".join(ts) or "-", fo, to_),
                                c14.ob_adjust_nondelegable, l, pattern, fs, ts, True, fo, to_)


def include_in(chk):
    """this check's obligations registered inside another check (framework.Check.include): every call runs on objects of exactly the documented size,
    so they are memory-safety obligations for valid calls as well"""
    wkd.prog()
    chk.replayer = replay_step
    register(chk)


def main(argv=None):
    chk = Check("C11", "proof", argv)
    chk.replayer = replay_step
    wkd.prog()
    register(chk)
    chk.explanation = ("src/wkdibe/api.cpp is lowered to IR from the current tree and its functions are executed symbolically with the group layer "
                       "replaced by formal discrete logarithms (polynomials in formal symbols with integer-term coefficients). Induction over histories: "
                       "base (keygen, nondelegable_keygen) and step (qualifykey, nondelegable_qualifykey, resamplekey from an arbitrary well-formed key) "
                       "produce exactly the well-formed key of the accumulated pattern; decrypt/decrypt_master invert encrypt for every well-formed key. "
                       "z3 decides each coefficient comparison modulo r for all attribute values.")
    chk.bounds = ["slot count l <= 3 (quick) / l <= 4 (thorough); every parent pattern in {free,fixed,hidden}^l x every documented list shape x both list flags; "
                  "signature support on/off for l <= 2 (qualify: l <= 1), on for larger l",
                  "attribute values: all integers in [0, 2^256), including 0, values >= r and values equal modulo r; randomness and group elements: formal symbols",
                  "histories of any length (induction); what lies outside: l > 4, lists that violate the documentation (e.g. a different value for a fixed slot)"]
    chk.trusted = ["group layer meets its specification: C05 (group law), C06 ([k]P for every 256-bit k), C07 (GT exponentiation), C01/C08 (bilinear pairing, products)",
                   "random scalars and sampled generators are independent uniform: modelled as formal symbols", "z3"]
    chk.assumptions = ["lists are sorted by slot index with distinct indices, slot arrays are sized as the Go/C bindings size them (exactly the new free-slot count)"]
    # lower layers whose specifications this check relies on: their obligations are part of this check's claim (framework.Check.include)
    for dep in ['C06', 'C02', 'C03', 'C04', 'C05', 'C07', 'C01', 'C08', 'C10', 'C19', 'C20']:
        chk.include(dep)
    # objects that arrive through unmarshal are the marshalled ones (parameters and keys loaded from bytes are part of 'reachable through the API'): C15's own obligations
    chk.include("C15")
    chk.run()
    chk.finish()


if __name__ == "__main__":
    main()
