"""C20 - the core library is self-contained, stateless and re-entrant (DESIGN.md section 5, C20).

Schedules are NOT explored.  The property is reduced to the non-interference premise "no library function writes memory other
than its own frame and objects reachable from its pointer arguments, and every global holds its load-time value", which is
checked on the code of the current tree for the configurations A (x86-64 assembly), P64 and P32 (portable):

  ir:<cfg>:global-write-freedom   pointer provenance of every store / mem* destination / pointer handed to an assembly routine or
                                  a caller-supplied callback, in every function of every TU, as Horn clauses (engine/provenance.py)
                                  decided by z3's fixed-point engine: no write may reach a global outside the load-time allow-list
  asm:x86_64:memory-operands      the assembled .s files: every memory operand is based on a value that was an argument register
                                  on entry (flow-sensitive register provenance, same fixed-point engine) or on rsp
  ir:<cfg>:constructs             table look-up over the IR: writable globals vs. the expected table, thread_local, atomics,
                                  function-local statics (__cxa_guard_*), at-exit handlers
  init:<cfg>:static-initialisers  llvm.global_ctors of every module executed in E-IR (CPUID stub answering 0 and 1): they write only
                                  the allow-listed globals and leave the expected constants / a consistent dispatch table
  sym:<cfg>:objects               objects built with the Makefile's flags: undefined symbols, writable/TLS sections (table look-up)
"""
import sys
import os
import re
import glob
import subprocess
sys.path.insert(0, os.path.dirname(os.path.dirname(os.path.abspath(__file__))))

from engine import build, eir, easm_x86, provenance
from engine import irparse as ir
from engine.framework import Check, Violation, Inconclusive

CONFIGS = ("A", "P64", "P32")
NS = "_ZN16embedded_pairing"
FP_ONE = r"_ZN16embedded_pairing4core2FpILi\d+E.*E3oneE"
# ---- the table of writable objects the unchanged library is known to contain ----------------------------------------------
# name regex -> (category, TU regex whose static initialiser may write it | None = written nowhere at all)
DISPATCH = {
    NS + r"4core36runtime_fpbase_384_montgomery_reduceE": ("cpu-dispatch pointer", r"src_core_arch_x86_64_runtime"),
    NS + r"4core27runtime_bigint_768_multiplyE": ("cpu-dispatch pointer", r"src_core_arch_x86_64_runtime"),
    NS + r"4core25runtime_bigint_768_squareE": ("cpu-dispatch pointer", r"src_core_arch_x86_64_runtime"),
    NS + r"4coreL21cpu_supports_bmi2_adxE": ("cpu-dispatch flag", r"src_core_arch_x86_64_runtime"),
}
LOADTIME = {   # dynamically initialised constants: in .bss, written once by their own static initialiser (not named by the property text)
    FP_ONE: ("load-time constant Fp<..>::one (dynamic initialisation of a const template static member)", r".*"),
    "_ZGV" + FP_ONE[2:]: ("guard byte of Fp<..>::one's comdat initialiser (plain load/store, no __cxa_guard)", r".*"),
    NS + r"6wkdibeL11group_orderE": ("load-time constant wkdibe::group_order (static const copy of fr_modulus)", r"src_wkdibe_api"),
}
NEVER_WRITTEN = {   # declared without const in the source, but no store in any function or initialiser may reach it (decided in part a)
    NS + r"9bls12_38122g1_endomorphism_lambdaE": ("non-const data object that is written nowhere", None),
}
TABLE = dict(DISPATCH)
TABLE.update(LOADTIME)
TABLE.update(NEVER_WRITTEN)

ALLOWED_UNDEF = re.compile(r"(memcpy|memmove|memset|memcmp|bcmp|__udivti3|__umodti3|__udivdi3|__umoddi3|__aeabi_\w+)$")
FORBIDDEN_CLASSES = [
    ("allocation", re.compile(r"(malloc|calloc|realloc|free|aligned_alloc|posix_memalign|_Zn[wa][mj].*|_Zd[la]Pv.*|mmap|munmap|brk|sbrk)$")),
    ("function-local static / at-exit", re.compile(r"(__cxa_guard_\w+|__cxa_atexit|__cxa_thread_atexit\w*|atexit|__dso_handle)$")),
    ("thread-local storage", re.compile(r"(__tls_get_addr|__emutls_\w+|_ZTW.*|_ZTH.*)$")),
    ("locking / threads", re.compile(r"(pthread_\w+|mtx_\w+|cnd_\w+|thrd_\w+|sem_\w+|__atomic_\w+|__sync_\w+|_ZNSt5mutex.*|_ZSt.*mutex.*)$")),
    ("stdio / I/O", re.compile(r"(printf|fprintf|sprintf|snprintf|vf?printf|puts|fputs|putchar|fputc|fwrite|fread|fopen|fclose|fflush|stdout|stderr|stdin|"
                               r"open|close|read|write|ioctl|perror|_ZSt4cout|_ZSt4cerr|_ZNSo.*|_ZNSt8ios_base.*|__stack_chk_fail|abort|exit|_exit|"
                               r"getenv|time|clock|rand|srand|random|getrandom|syscall|__errno_location)$")),
]
TEXT_SCAN = [
    ("thread_local", re.compile(r"\bthread_local\b")),
    ("atomic", re.compile(r"\b(atomicrmw|cmpxchg|fence)\b|\b(load|store) atomic\b")),
    ("function-local-static", re.compile(r"@__cxa_guard_(acquire|release|abort)\b")),
    ("at-exit", re.compile(r"@(__cxa_atexit|__cxa_thread_atexit\w*|atexit)\b")),
    ("tls", re.compile(r"@__tls_get_addr\b|@llvm\.threadlocal")),
]

_PREP = {}     # cfg -> {"mods": [...], "scan": [...], "error": str|None}
_ASM = {}


def tu_of(m):
    return os.path.basename(m.path)[:-3]


def table_entry(name):
    for rx, ent in TABLE.items():
        if re.fullmatch(rx, name):
            return ent
    return None


def c_interface_pointers():
    """exported `extern const T* name;` variables, read from the headers of the current tree"""
    names = set()
    for h in glob.glob(os.path.join(build.REPO, "include", "*", "*.h")):
        for mm in re.finditer(r"extern\s+const\s+\w+\s*\*\s*(\w+)\s*;", open(h).read()):
            names.add(mm.group(1))
    return names


def prepare(configs=CONFIGS):
    """lower every TU of every configuration once (in the parent; the forked obligations inherit the parsed modules)"""
    for cfg in configs:
        ent = {"mods": [], "scan": [], "error": None}
        _PREP[cfg] = ent
        try:
            lls = build.emit_ir(cfg, tag="c20_ir_" + cfg)
        except RuntimeError as e:
            ent["error"] = "clang failed: %s" % str(e)[-600:]
            continue
        for rel, path in sorted(lls.items()):
            for n, line in enumerate(open(path), 1):
                if line.startswith("!") or line.startswith("attributes ") or line.startswith(";"):
                    continue
                for kind, rx in TEXT_SCAN:
                    if rx.search(line):
                        ent["scan"].append({"kind": kind, "tu": rel, "line": n, "text": line.strip()[:200]})
            try:
                ent["mods"].append(ir.parse_module(path))
            except ir.IRParseError as e:
                ent["error"] = "IR of %s not understood: %s" % (rel, str(e)[:300])
    try:
        d = build.workdir("c20_asm")
        srcs = sorted(glob.glob(os.path.join(build.REPO, "src/core/arch/x86_64/*.s")))
        _ASM["objs"] = easm_x86.assemble(srcs, d)
        _ASM["error"] = None
    except RuntimeError as e:
        _ASM["error"] = str(e)[-600:]


def mods_of(cfg, report_scan=False):
    """parsed modules of a configuration; the forbidden-construct hits of the text scan are reported by ir:<cfg>:constructs only"""
    ent = _PREP[cfg]
    if ent["scan"] and (report_scan or ent["error"]):
        h = ent["scan"][0]
        raise Violation("construct:%s:%s" % (h["kind"], h["tu"]), "%s construct in %s line %d: %s (%d such lines in configuration %s)" % (
            h["kind"], h["tu"], h["line"], h["text"], len(ent["scan"]), cfg), {"config": cfg, "hits": ent["scan"][:20]})
    if ent["error"]:
        raise Inconclusive(ent["error"])
    return ent["mods"]


# ==========================================================================================================================
# ir:<cfg>:constructs   (table look-up)
# ==========================================================================================================================
def ob_constructs(cfg):
    mods = mods_of(cfg, report_scan=True)
    cptrs = c_interface_pointers()
    seen = {}
    ctors = []
    nglob = 0
    for m in mods:
        tu = tu_of(m)
        for g in m.globals.values():
            if g.name == "llvm.global_ctors" and g.init is not None:
                ctors.append("%s: %s" % (tu, ", ".join(sorted(n for n in provenance.global_refs(g.init) if n in m.functions))))
            if g.name.startswith("llvm.") or g.external:
                continue
            nglob += 1
            if "thread_local" in g.linkage:
                raise Violation("tls:" + g.name, "thread_local global @%s in %s" % (g.name, tu), {"config": cfg, "tu": tu, "global": g.name})
            if g.const:
                continue
            ent = table_entry(g.name)
            if ent is not None:
                if ent[1] is not None and not re.fullmatch(ent[1], tu) and g.name in DISPATCH:
                    raise Violation("writable-global:" + g.name, "dispatch object @%s defined outside runtime.cpp (%s)" % (g.name, tu), {"config": cfg})
                seen[g.name] = ent[0]
                continue
            if g.name in cptrs and isinstance(g.ty, ir.PtrTy):
                refs = provenance.global_refs(g.init)
                bad = [r for r in refs if r not in m.globals or not m.globals[r].const]
                if bad or not refs:
                    raise Violation("c-pointer:" + g.name, "C-interface pointer %s in %s does not designate a constant object (%r)" % (g.name, tu, bad),
                                    {"config": cfg, "tu": tu, "global": g.name})
                seen[g.name] = "C-interface `const T*` variable designating a constant (written nowhere: part a)"
                continue
            raise Violation("writable-global:" + g.name, "writable (non-constant) global @%s in %s is not in the table of known load-time objects; "
                            "mutable static state breaks statelessness/re-entrancy" % (g.name, tu),
                            {"config": cfg, "tu": tu, "global": g.name, "type": repr(g.ty)})
    return {"queries": 0, "paths": 0, "functions": ["%d globals of %d TUs (%s)" % (nglob, len(mods), cfg)],
            "sample": "TABLE LOOK-UP, no solver. writable globals found: %s | llvm.global_ctors: %s" % (
                "; ".join("%s = %s" % (k, v) for k, v in sorted(seen.items())), " | ".join(ctors))}


# ==========================================================================================================================
# ir:<cfg>:global-write-freedom and asm:x86_64:memory-operands   (z3 fixed point)
# ==========================================================================================================================
def asm_facts(h):
    if _ASM.get("error"):
        raise Inconclusive("assembler failed: " + _ASM["error"])
    try:
        af = provenance.AsmFacts(h, _ASM["objs"]).parse()
    except provenance.Problem as e:
        raise Inconclusive(str(e))
    af.emit()
    return af


def asm_verdict(h, af, arity, res):
    """common to both obligations that include the assembly; res = h.verdicts()"""
    if af.violations:
        k, t = af.violations[0]
        raise Violation("asm:" + k, t, {"all": [t for _, t in af.violations[:20]]})
    if af.problems:
        raise Inconclusive("assembly not fully modelled: " + "; ".join(af.problems[:5]))
    if res["Dead"]:
        raise Inconclusive("assembly instructions not reachable from any global routine entry: " + "; ".join(af.ins[p][5] for (p,) in res["Dead"][:5]))
    bad = res["BadBase"]
    if bad:
        pc, r = bad[0]
        raise Violation("asm:computed-address:%s+%#x" % (af.ins[pc][1], af.ins[pc][2]),
                        "memory operand whose base register %%%s may hold a value that is not an entry argument pointer: %s"
                        % (provenance.REGS64[r], af.ins[pc][5]), {"instructions": [af.ins[p][5] for p, _ in bad[:20]]})
    onames = h.names["O"]
    tab = {}
    for rel, tag in (("AsmWrites", "w"), ("AsmReads", "r")):
        for (f, i) in res[rel]:
            name = onames[f][-1]
            tab.setdefault(name, {"w": set(), "r": set()})[tag].add(i)
            if name in arity and i >= arity[name]:
                raise Violation("asm:non-argument:" + name, "%s accesses memory through %%%s, which is not one of its %d arguments"
                                % (name, provenance.ARGREGS[i], arity[name]), {"routine": name, "register": provenance.ARGREGS[i]})
    return tab


def fmt_tab(tab):
    return "; ".join("%s writes arg%s reads arg%s" % (n.replace("embedded_pairing_core_arch_x86_64_", ""), sorted(t["w"]), sorted(t["r"]))
                     for n, t in sorted(tab.items()))


def ob_asm():
    h = provenance.Horn()
    af = asm_facts(h)
    arity = {}
    for m in (_PREP["A"]["mods"] or []):
        for f in m.functions.values():
            if f.is_decl and f.name in af.routines:
                arity[f.name] = len(f.params)
    tab = asm_verdict(h, af, arity, h.verdicts())
    if af.mem_ops == 0 or not tab:
        raise Inconclusive("vacuous: no memory operand found in the assembly")
    return {"queries": h.queries, "solver_s": h.solver_s, "paths": 0, "functions": sorted(af.routines),
            "sample": "%d instructions, %d memory operands (%d written), %d Horn facts; %s" % (len(af.ins), af.mem_ops, af.mem_writes, h.nfacts, fmt_tab(tab))}


def short(text):
    """demangle and abbreviate the C++ names inside a message"""
    names = sorted(set(re.findall(r"_Z[A-Za-z0-9_]+", text)), key=len, reverse=True)
    if names:
        dem = subprocess.run(["llvm-cxxfilt-14"], input="\n".join(names), capture_output=True, text=True).stdout.split("\n")
        for n, d in zip(names, dem):
            d = re.sub(r"\(.*\)( const)?$", "", d)
            d = re.sub(r"<[^<>]*(<[^<>]*>[^<>]*)*>", "<>", d).replace("embedded_pairing::", "")
            text = text.replace(n, d)
    return text


def describe(h, s, o):
    meta = h.site_meta[s]
    on = h.names["O"][o]
    return meta, on[-1]


def ob_writes(cfg):
    mods = mods_of(cfg)
    h = provenance.Horn()
    af = None
    routines = ()
    if cfg == "A":
        af = asm_facts(h)
        routines = af.routines
    irf = provenance.IRFacts(h, mods, routines)
    try:
        irf.emit()
    except provenance.Problem as e:
        raise Inconclusive(str(e))
    if irf.unknown_intrinsics:
        raise Inconclusive("intrinsics without a write-set rule: %s" % sorted(irf.unknown_intrinsics))
    if irf.init_called_from:
        f, g = irf.init_called_from[0]
        raise Violation("init-called:" + f, "static initialiser %s is called from ordinary function %s" % (g, f), {"config": cfg})
    # allow-list: a store site inside a static initialiser of TU t may write global g iff the table says so
    onames = h.names["O"]
    gobjs = [(n, onames[n][-1]) for n, k in h.obj_kind.items() if k == "global"]
    for s, meta in h.site_meta.items():
        if not meta["init"]:
            continue
        for n, gname in gobjs:
            ent = table_entry(gname)
            if ent is not None and ent[1] is not None and re.fullmatch(ent[1], meta["tu"]):
                h.fact("Allowed", s, n)
    arity = {}
    for m in mods:
        for f in m.functions.values():
            if f.is_decl and f.name in routines:
                arity[f.name] = len(f.params)
    res = h.verdicts()           # one fixed-point computation
    tab = asm_verdict(h, af, arity, res) if af is not None else {}
    # ---- the verdict relations
    bad = res["BadWrite"]
    if bad:
        s, o = bad[0]
        meta, gname = describe(h, s, o)
        isconst = any(gname in m.globals and m.globals[gname].const for m in mods)
        why = h.explain(s, o)
        raise Violation("global-write:%s:%s" % (meta["function"], gname),
                        short("%s in %s (%s) may write %s global @%s%s: `%s`" % (meta["kind"], meta["function"], meta["tu"],
                                                                                 "CONSTANT" if isconst else "writable", gname,
                                                                                 " [address flows: " + why + "]" if why else "", meta["instruction"])),
                        {"config": cfg, "writes": [dict(describe(h, s_, o_)[0], target=describe(h, s_, o_)[1]) for s_, o_ in bad[:20]]})
    bc = res["BadCallee"]
    if bc:
        s, o = bc[0]
        meta, name = describe(h, s, o)
        cls = [c for c, rx in FORBIDDEN_CLASSES if rx.match(name)]
        raise Violation("foreign-call:" + name, "%s (%s) calls %s, which has no body in the library (neither IR nor assembly)%s: `%s`" % (
            meta["function"], meta["tu"], name, " [%s]" % cls[0] if cls else "", meta["instruction"]),
            {"config": cfg, "calls": sorted(set(describe(h, s_, o_)[1] for s_, o_ in bc))})
    for rel, what in (("Unres", "store through a pointer of unknown provenance"), ("UnresCall", "indirect call through a value of unknown provenance")):
        un = res[rel]
        if un:
            meta = h.site_meta[un[0][0]]
            raise Inconclusive("%s in %s (%s): `%s`" % (what, meta["function"], meta["tu"], meta["instruction"]))
    # ---- non-vacuity: the same relation must see the load-time writes, and resolve every dispatched / callback call
    gw = res["GlobalWrite"]
    written = sorted(set(describe(h, s, o)[1] for s, o in gw))
    if not written:
        raise Inconclusive("vacuous: the analysis derives no write to any global, not even in the static initialisers")
    for s, o in gw:
        if not h.site_meta[s]["init"]:
            raise Inconclusive("internal: allowed global write outside an initialiser")
    ct = res["CallTarget"]
    ext = h.ids["O"][provenance.EXT]
    ncb = len(set(s for s, o in ct if o == ext))
    disp = sorted(set(describe(h, s, o)[1].replace("embedded_pairing_core_arch_x86_64_", "") for s, o in ct if o != ext))
    if cfg == "A" and len([d for d in disp if "bmi2_adx" in d]) < 3:
        raise Inconclusive("vacuous: the dispatch pointers do not resolve to the BMI2/ADX routines")
    return {"queries": h.queries, "solver_s": round(h.solver_s, 2), "paths": 0,
            "functions": ["%d functions / %d instructions of %d TUs (%s)" % (irf.nfunctions, irf.ninstr, len(mods), cfg)] + sorted(routines),
            "sample": "z3 Fixedpoint(datalog): %d facts, %d rules, %d write sites, %d values, %d abstract objects; BadWrite/BadCallee/Unres = empty; "
                      "globals written (initialisers only): %s; callback call sites: %d; non-IR call targets: %s; %s" % (
                          h.nfacts, h.nrules, irf.nsites, len(h.names["V"]), len(h.names["O"]), ", ".join(written), ncb, ", ".join(disp), fmt_tab(tab))}


# ==========================================================================================================================
# init:<cfg>:static-initialisers   (E-IR, ground execution)
# ==========================================================================================================================
def ob_init(cfg):
    from engine.wordspec import Q, R384
    RORDER = 0x73eda753299d7d483339d80809a1d80553bda402fffe5bfeffffffff00000001
    mods = mods_of(cfg)
    listing = []
    nrun = 0
    for m in mods:
        g = m.globals.get("llvm.global_ctors")
        if g is None or g.init is None:
            continue
        tu = tu_of(m)
        fns = [e.els[1][1].name for (_, e) in g.init.els if isinstance(e.els[1][1], ir.GlobalRef)]
        listing.append("%s: %s" % (tu, ",".join(fns)))
        # eir.Program links by name and the first definition wins: put the TU under test first so that ITS internal
        # __cxx_global_var_init* are the ones executed (every TU has functions of that name)
        prog = eir.Program([m] + [x for x in mods if x is not m])
        for answer in ((0, 1) if "runtime" in tu else (None,)):
            I = eir.Interp(prog)

            def ext(I_, name, args, site, answer=answer):
                if answer is not None and name.endswith("cpu_supports_bmi2_adx"):
                    return answer
                raise Violation("init-foreign-call:" + name, "static initialiser of %s calls foreign function %s" % (tu, name), {"config": cfg, "tu": tu})
            I.external_handler = ext
            I.trace_calls = []
            for fn in fns:
                I.call_function(m.functions[fn], [])
            nrun += 1
            for name, _ in I.trace_calls:
                f = prog.fn.get(name)
                if f is not None and not f.is_decl and f.module is not m and "internal" in f.linkage.split():
                    raise Inconclusive("initialiser of %s reaches internal function %s of another TU (by-name linking would be ambiguous)" % (tu, name))
            table = []
            for name, o in I.globals.items():
                if not o.written:
                    continue
                ent = table_entry(name)
                if ent is None or ent[1] is None or not re.fullmatch(ent[1], tu):
                    raise Violation("init-write:%s:%s" % (tu, name), "static initialiser of %s writes global @%s, which is not a load-time object of that TU"
                                    % (tu, name), {"config": cfg, "tu": tu, "global": name, "cpu_supports_bmi2_adx": answer})
                if re.fullmatch(FP_ONE, name):
                    v = I.load_bytes(o, 0, 48)
                    if v != R384 % Q:
                        raise Violation("init-value:" + name, "Fp::one initialised to %#x, expected R mod q" % v, {"config": cfg, "tu": tu})
                elif name.endswith("wkdibeL11group_orderE"):
                    v = I.load_bytes(o, 0, 32)
                    if v != RORDER:
                        raise Violation("init-value:" + name, "wkdibe::group_order initialised to %#x, expected r" % v, {"config": cfg, "tu": tu})
                elif name in DISPATCH and "runtime_" in name:
                    v = o.cells[0][1]
                    if not isinstance(v, eir.FnRef):
                        raise Violation("dispatch:" + name, "dispatch pointer %s not initialised to a routine" % name, {"cpu_supports_bmi2_adx": answer})
                    table.append(v.name)
            if answer is not None:
                kinds = sorted(t.replace("embedded_pairing_core_arch_x86_64_", "").replace("bmi2_adx_", "") for t in table)
                if kinds != ["bigint_768_multiply", "bigint_768_square", "fpbase_384_montgomery_reduce"] or \
                        any(("bmi2_adx" in t) != bool(answer) for t in table):
                    raise Violation("dispatch:inconsistent", "with cpu_supports_bmi2_adx()=%d the dispatch table is %r" % (answer, table),
                                    {"cpu_supports_bmi2_adx": answer, "table": table})
    if not nrun:
        raise Inconclusive("vacuous: no llvm.global_ctors found")
    return {"queries": 0, "paths": nrun, "functions": listing,
            "sample": "GROUND execution in E-IR (no solver query; CPUID stub answers 0 and 1): %d initialiser runs; llvm.global_ctors: %s" % (nrun, " | ".join(listing))}


# ==========================================================================================================================
# sym:<cfg>:objects   (table look-up on the natively built objects)
# ==========================================================================================================================
def makefile_flags():
    flags = None
    for line in open(os.path.join(build.REPO, "Makefile")):
        mm = re.match(r"^CXXFLAGS\s*=\s*(.*)$", line)
        if mm and flags is None:
            flags = mm.group(1).split()
        mm = re.match(r"^CXXFLAGS\s*\+=\s*(.*)$", line)     # unconditional additions only (conditional ones are indented)
        if mm and flags is not None:
            flags += mm.group(1).split()
    if not flags:
        raise Inconclusive("no CXXFLAGS in the Makefile")
    return [("-I" + os.path.join(build.REPO, "include")) if f in ("-I./include", "-Iinclude") else f for f in flags]


def build_objects(cfg):
    d = build.workdir("c20_native_" + cfg)
    flags = [f for f in makefile_flags() if f != "-DDISABLE_ASM"] + build.CONFIGS[cfg]
    procs = []
    for s in build.sources(build.REPO, cfg):
        o = os.path.join(d, os.path.relpath(s, build.REPO).replace("/", "_")[:-4] + ".o")
        procs.append((s, o, subprocess.Popen(["clang++-14", "-c"] + flags + [s, "-o", o], stderr=subprocess.PIPE, text=True)))
    if cfg == "A":
        for s in sorted(glob.glob(os.path.join(build.REPO, "src/core/arch/x86_64/*.s"))):
            o = os.path.join(d, "asm_" + os.path.basename(s)[:-2] + ".o")
            procs.append((s, o, subprocess.Popen(["as", s, "-o", o], stderr=subprocess.PIPE, text=True)))
    for s, o, p in procs:
        _, err = p.communicate()
        if p.returncode != 0:
            raise Inconclusive("native build failed on %s: %s" % (s, err[-800:]))
    return [o for _, o, _ in procs], flags


def read_object(o):
    secs = {}
    out = subprocess.run(["llvm-readelf-14", "-S", "-W", o], capture_output=True, text=True, check=True).stdout
    for line in out.split("\n"):
        mm = re.match(r"^\s*\[\s*(\d+)\]\s+(\S*)\s+(\S+)\s+[0-9a-f]{16}\s+[0-9a-f]+\s+([0-9a-f]+)\s+[0-9a-f]+\s+([A-Za-z]*)\s+\d+\s+\d+\s+\d+\s*$", line)
        if mm:
            secs[int(mm.group(1))] = {"name": mm.group(2), "type": mm.group(3), "size": int(mm.group(4), 16), "flags": mm.group(5)}
    syms = []
    out = subprocess.run(["llvm-readelf-14", "-s", "-W", o], capture_output=True, text=True, check=True).stdout
    for line in out.split("\n"):
        mm = re.match(r"^\s*\d+:\s+[0-9a-f]+\s+(\d+)\s+(\S+)\s+(\S+)\s+(\S+)\s+(\S+)\s*(.*)$", line)
        if mm:
            syms.append({"size": int(mm.group(1)), "type": mm.group(2), "bind": mm.group(3), "ndx": mm.group(5), "name": mm.group(6).strip()})
    if not secs or not syms:
        raise Inconclusive("cannot read section/symbol tables of " + o)
    return secs, syms


def ob_symbols(cfg):
    objs, flags = build_objects(cfg)
    cptrs = c_interface_pointers()
    defined = set()
    undef = {}
    writable = {}
    for o in objs:
        base = os.path.basename(o)
        secs, syms = read_object(o)
        covered = set()
        for n, sec in secs.items():
            if "T" in sec["flags"] or sec["name"].startswith((".tdata", ".tbss")):
                raise Violation("tls-section:" + base, "%s has thread-local section %s" % (base, sec["name"]), {"config": cfg, "object": base})
        for sy in syms:
            if not sy["name"]:
                continue
            if sy["type"] == "TLS":
                raise Violation("tls-symbol:" + sy["name"], "%s defines thread-local symbol %s" % (base, sy["name"]), {"config": cfg, "object": base})
            if sy["ndx"] == "UND":
                undef.setdefault(sy["name"], base)
                continue
            defined.add(sy["name"])
            if sy["ndx"] == "COM":
                writable[sy["name"]] = (base, "COMMON")
            elif sy["ndx"].isdigit() and "W" in secs[int(sy["ndx"])]["flags"] and sy["type"] not in ("SECTION", "FILE"):
                writable[sy["name"]] = (base, secs[int(sy["ndx"])]["name"])
                covered.add(int(sy["ndx"]))
        for n, sec in secs.items():
            if "W" in sec["flags"] and sec["size"] > 0 and sec["type"] not in ("INIT_ARRAY", "FINI_ARRAY") and n not in covered:
                raise Violation("anonymous-writable:" + base, "%s has %d bytes of writable section %s not covered by any symbol" % (base, sec["size"], sec["name"]),
                                {"config": cfg, "object": base})
            if sec["type"] == "FINI_ARRAY" or sec["name"].startswith((".fini_array", ".dtors")):
                raise Violation("destructor-section:" + base, "%s registers static destructors (%s)" % (base, sec["name"]), {"config": cfg})
    foreign = sorted(n for n in undef if n not in defined)
    for n in foreign:
        if not ALLOWED_UNDEF.match(n):
            cls = [c for c, rx in FORBIDDEN_CLASSES if rx.match(n)]
            raise Violation("undefined-symbol:" + n, "object %s references external symbol %s%s; allowed are only the C memory primitives and compiler "
                            "arithmetic helpers" % (undef[n], n, " [%s]" % cls[0] if cls else ""), {"config": cfg, "all_foreign": foreign})
    for n, (base, sec) in sorted(writable.items()):
        ent = table_entry(n)
        if ent is None and n not in cptrs:
            raise Violation("writable-symbol:" + n, "object %s places %s in writable section %s; not a known load-time object nor a C-interface pointer"
                            % (base, n, sec), {"config": cfg, "object": base, "symbol": n, "section": sec})
        if n in DISPATCH and "runtime" not in base:
            raise Violation("writable-symbol:" + n, "dispatch object %s defined in %s" % (n, base), {"config": cfg})
    if not foreign or not writable:
        raise Inconclusive("vacuous: no undefined / writable symbol found at all")
    return {"queries": 0, "paths": 0, "functions": [os.path.basename(o) for o in objs],
            "sample": "TABLE LOOK-UP on llvm-readelf output, no solver. flags: %s | foreign symbols: %s | writable objects: %s" % (
                " ".join(f for f in flags if not f.startswith("-I")), ", ".join(foreign),
                ", ".join("%s[%s]" % (n, s) for n, (b, s) in sorted(writable.items())))}


# ==========================================================================================================================
def ob_const_inputs(cfg):
    """no function writes through a parameter declared pointer / reference to const (checks/c20_const.py)"""
    import c20_const
    return c20_const.ob_const_inputs(mods_of(cfg))


def include_in(chk):
    """statelessness is a premise of every per-call obligation of the other checks (each symbolic run starts from the load-time values of the
    globals and assumes that a call leaves nothing behind): the IR obligations for the shipped configuration, registered inside those checks"""
    prepare(("A",))
    chk.add("ir:A:constructs", ob_constructs, "A")
    chk.add("ir:A:global-write-freedom", ob_writes, "A")
    chk.add("init:A:static-initialisers", ob_init, "A")
    chk.add("ir:A:read-only-inputs", ob_const_inputs, "A")


def main(argv=None):
    chk = Check("C20", "other", argv)
    prepare()
    for cfg in CONFIGS:
        chk.add("ir:%s:constructs" % cfg, ob_constructs, cfg)
        chk.add("ir:%s:global-write-freedom" % cfg, ob_writes, cfg)
        chk.add("init:%s:static-initialisers" % cfg, ob_init, cfg)
        chk.add("ir:%s:read-only-inputs" % cfg, ob_const_inputs, cfg)
        chk.add("sym:%s:objects" % cfg, ob_symbols, cfg)
    chk.add("asm:x86_64:memory-operands", ob_asm)
    chk.explanation = (
        "Interleavings are NOT explored. Re-entrancy is reduced, by the standard non-interference argument, to: no library function writes "
        "memory other than its frame and objects reachable from its pointer arguments, and globals keep their load-time values. That premise is "
        "established as a sound flow-insensitive, context-insensitive, field-insensitive over-approximation: for every function of every TU "
        "(configurations A, P64, P32; clang -O1 -fno-inline IR of the current tree) the address of every store, llvm.mem* destination, pointer "
        "handed to an assembly routine (write-set of each routine derived from the assembled instruction stream by a flow-sensitive register "
        "provenance) and pointer handed to a caller-supplied callback is related to abstract objects {global, alloca site, caller memory} by "
        "Horn clauses (copy/GEP/phi/select/cast, store/load through memory, memcpy, argument->parameter, return, indirect calls through the "
        "dispatch pointers resolved inside the same fixed point); z3's fixed-point engine (datalog) decides that the relations 'write may reach a "
        "global outside the load-time allow-list', 'call to a function without body in the library', 'store/call through a value of unknown "
        "provenance' are empty. Constant globals are never allowed as targets. ground / table look-up parts (no solver): the static initialisers "
        "are executed concretely in E-IR; writable globals, thread_local, atomics, function-local statics are looked up in the IR; undefined "
        "symbols and writable/TLS sections are looked up in the objects built with the Makefile's flags. Deviation from the letter of the "
        "property, reported not hidden: besides the CPU-dispatch table the library has load-time-written constants (Fp<384>::one with a "
        "plain guard byte, wkdibe::group_order: dynamically initialised, written only by their static initialisers) and one non-const data "
        "object that nothing writes (g1_endomorphism_lambda), in all three configurations.")
    chk.bounds = ["all functions of all TUs in configurations A, P64, P32; x86-64 assembly back end only (AArch64 / ARMv6-M assembly not analysed)",
                  "flow-insensitive may-point-to: sound for 'no write reaches a global', cannot prove must-facts; schedules are not explored",
                  "-O1 -fno-inline IR for the provenance analysis; the symbol audit is on objects built with the Makefile's own flags"]
    chk.trusted = ["non-interference argument: functions that write only their frame and argument-reachable objects, and read only immutable globals, "
                   "commute on distinct output objects", "z3 Fixedpoint (datalog engine)", "clang-14, llvm-objdump-14, llvm-readelf-14",
                   "AT&T operand conventions as encoded in engine/provenance.py (which operand of which mnemonic is written)"]
    chk.assumptions = ["callers do not share output objects between threads and callbacks write only through the pointers they are handed (caller's contract)",
                       "static initialisation completes before the first concurrent call (C++ load-time semantics)"]
    chk.run()
    chk.finish()


if __name__ == "__main__":
    main()
