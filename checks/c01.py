"""C01 - the pairing is the BLS12-381 optimal-ate pairing: bilinear, non-degenerate, order r (DESIGN.md section 5, C01).

Decided as five groups of obligations whose conjunction, with T8 (Vercauteren: f_{x,Q}(P)^((q^12-1)/r) is a bilinear non-degenerate pairing; factors in
proper subfields vanish under the final exponentiation), is the property:
 1 step kernels  miller_doubling_step / miller_addition_step over a ring of Fq2 indeterminates: the running point becomes 2T resp. T+Q (chord-and-tangent
                 law on the twist, cross-multiplied), and the coefficient triple (a, b, c) is kappa * (1, -lambda, lambda x_T - y_T) with lambda the slope
                 of the tangent / chord and kappa certified non-zero (it is 4 Y Z^3 resp. 2 Z' with the case hypotheses), i.e. up to the factor
                 kappa * w^3 (which lies in a proper subfield) the line through the untwisted points evaluated at P:  c + (b x_P) v + (a y_P) v w.
                 `ell` places exactly those three values in slots 0, 1, 4 and multiplies the accumulator (multiply_by_c014 = full product: C04).
 2 loop shape    the single-pair Miller loops are the textbook loop for the signed x (shared with C08, checks/miller.py)
 3 final exponentiation  executed over exponents modulo q^12 - 1 (conjugate = q^6, frobenius_map(k) = q^k, inverse = -1, multiply = +, square = *2,
                 each an identity of C04): the exponent applied is exactly 3 (q^12 - 1) / r
 4 generators    the reference pairing (engine/refpairing.py: definition-level, affine over Fq12, no shared formulas) of the published generators equals
                 the exported constant generator_pairing and the native pairing(G1::generator, G2::generator)
 5 consequences  bilinearity in 256-bit scalars, e = 1 iff an operand is the identity, e^r = 1 follow from 1-4, T8 and C06 (not re-derived by sampling)
"""
import sys
import os
sys.path.insert(0, os.path.dirname(os.path.dirname(os.path.abspath(__file__))))
sys.path.insert(0, os.path.dirname(os.path.abspath(__file__)))

import z3
from engine import build, eir, tower, dom_ring, refpairing
from engine.eir import Ptr, Obj, is_conc, ExecError
from engine.framework import Check, Violation, Inconclusive
from engine.harness import TowerHarness
from engine.tower import SIZES, Q, RINV
import c05
from c05 import CurveHarness, mk_proj, law_add, check_point
import miller
import c08

B = "embedded_pairing::bls12_381::"
R_ORDER = 0x73eda753299d7d483339d80809a1d80553bda402fffe5bfeffffffff00000001
_PROG = {}


def prog():
    if "p" not in _PROG:
        _PROG["p"] = build.load_program("A", files=["src/bls12_381/pairing.cpp", "src/bls12_381/fq12.cpp"], tag="c01")
        _PROG["p"].demangle_all()
    return _PROG["p"]


def triple_obj(H):
    return H.I.new_obj("coeffs", 3 * 96, "arg", 16)


def read_triple(H, o):
    return tuple(H.tm.read(Ptr(o, i * 96), 1) for i in range(3))


def ob_doubling_step(rep):
    P = prog()
    H = CurveHarness(P, 1)
    R = H.R
    fname = H.fn(B + r"miller_doubling_step\(.*\)")
    x, y = R.var("x"), R.var("y")
    T = mk_proj(R, "t", rep, x, y)
    nz = T.nonzero + [y, R.const(2)]
    H.oracle.nonzero = list(nz)

    def make_args():
        r = H.proj_obj("r", T.coords)
        co = triple_obj(H)
        return [Ptr(co, 0), Ptr(r, 0)], (lambda: (H.read_proj(r), read_triple(H, co)))
    res = H.run(fname, make_args)
    key = "step:doubling:%s" % rep
    what = "miller_doubling_step on T=%s" % T.desc
    for path, ret, (out, (a, b, c)) in res:
        check_point(H, out, law_add(R, T.affine, T.affine, "same"), nz, what + " (running point)", key + ":point", {"step": "doubling", "rep": rep})
        # line: (a, b, c) = kappa (1, -lam, lam x - y), lam = 3x^2 / 2y   <=>   b*2y = -3x^2 a   and   c*2y = a (3x^3 - 2y^2)
        two_y = R.scale(y, 2)
        x2 = R.mul(x, x)
        ok, mdl = R.equal(R.mul(b, two_y), R.neg(R.mul(R.scale(x2, 3), a)), "dbl:b")
        if not ok:
            raise Violation(key + ":line-b", what + ": coefficient b is not -lambda * a (lambda = tangent slope)", H.counterexample(mdl, {"step": "doubling"}))
        ok, mdl = R.equal(R.mul(c, two_y), R.mul(a, R.sub(R.scale(R.mul(x2, x), 3), R.scale(R.mul(y, y), 2))), "dbl:c")
        if not ok:
            raise Violation(key + ":line-c", what + ": coefficient c is not (lambda x - y) * a", H.counterexample(mdl, {"step": "doubling"}))
        if not R.factor_certificate(a, nz, "dbl:a!=0"):
            raise Violation(key + ":line-a", what + ": the common factor a of the line coefficients is not certified non-zero from y != 0, z != 0", {"step": "doubling"})
    H.require_justified()
    return dict(H.stats(), paths=len(res), sample=what)


def ob_addition_step(rep):
    P = prog()
    H = CurveHarness(P, 1)
    R = H.R
    fname = H.fn(B + r"miller_addition_step\(.*\)")
    T = mk_proj(R, "t", rep)
    d, e = R.var("d"), R.var("e")
    qx, qy = R.add(T.affine[0], d), R.add(T.affine[1], e)
    nz = T.nonzero + [d, R.const(2)]
    H.oracle.nonzero = list(nz)

    def make_args():
        r = H.proj_obj("r", T.coords)
        q = H.aff_obj("q", qx, qy, 0)
        co = triple_obj(H)
        return [Ptr(co, 0), Ptr(r, 0), Ptr(q, 0)], (lambda: (H.read_proj(r), read_triple(H, co)))
    res = H.run(fname, make_args)
    key = "step:addition:%s" % rep
    what = "miller_addition_step T=%s + Q" % T.desc
    for path, ret, (out, (a, b, c)) in res:
        check_point(H, out, law_add(R, T.affine, (qx, qy), "generic"), nz, what + " (running point)", key + ":point", {"step": "addition", "rep": rep})
        # lam = e/d:  b*d = -e*a ,  c*d = a (e x_Q - d y_Q)
        ok, mdl = R.equal(R.mul(b, d), R.neg(R.mul(e, a)), "add:b")
        if not ok:
            raise Violation(key + ":line-b", what + ": coefficient b is not -lambda * a (lambda = chord slope)", H.counterexample(mdl, {"step": "addition"}))
        ok, mdl = R.equal(R.mul(c, d), R.mul(a, R.sub(R.mul(e, qx), R.mul(d, qy))), "add:c")
        if not ok:
            raise Violation(key + ":line-c", what + ": coefficient c is not (lambda x_Q - y_Q) * a", H.counterexample(mdl, {"step": "addition"}))
        if not R.factor_certificate(a, nz, "add:a!=0"):
            raise Violation(key + ":line-a", what + ": the common factor a is not certified non-zero from x_Q != x_T, z != 0", {"step": "addition"})
    H.require_justified()
    return dict(H.stats(), paths=len(res), sample=what)


def ob_ell():
    """ell(f, (a,b,c), P): f <- f * (c + (b x_P) v + (a y_P) v w), over Fq atoms"""
    P = prog()
    H = TowerHarness(P, 0, (0,))
    tower.install_level(H.I, H.tm, 3)
    T, tm, I = H.T, H.tm, H.I
    fname = H.fn(B + r"ell\(.*\)")
    f = T.var(3, "f")
    a, b, c = T.var(1, "a"), T.var(1, "b"), T.var(1, "c")
    xp, yp = T.var(0, "xp"), T.var(0, "yp")

    def make_args():
        fo, _ = tm.new_input("f", 3, f)
        co = I.new_obj("coeffs", 288, "arg", 16)
        for i, v in enumerate((a, b, c)):
            tm.write(Ptr(co, 96 * i), 1, v)
        g1 = I.new_obj("g1", 112, "arg", 16)
        tm.write(Ptr(g1, 0), 0, xp)
        tm.write(Ptr(g1, 48), 0, yp)
        g1.cells[96] = (1, 0)
        return [Ptr(fo, 0), Ptr(co, 0), Ptr(g1, 0)], (lambda: tm.read(Ptr(fo, 0), 3))
    res = H.run(fname, make_args)
    z = T.zero(1)
    sc = lambda v, s: (T.mul(0, v[0], s), T.mul(0, v[1], s))
    line = ((c, sc(b, xp), z), (z, sc(a, yp), z))
    want = T.mul(3, f, line)
    for path, ret, out in res:
        ok, idx, mdl = T.equal(3, out, want, "ell")
        if not ok:
            raise Violation("ell", "ell does not multiply the accumulator by c + (b x_P) v + (a y_P) v w (component %d differs)" % idx, H.counterexample(mdl, {"function": "ell"}))
    return dict(H.stats(), paths=len(res), sample="ell over Fq atoms")


def ob_final_exponent(alias=False):
    """final_exponentiation over exponents modulo q^12 - 1; alias: result object == input object"""
    P = prog()
    I = eir.Interp(P)
    N = Q ** 12 - 1

    def rd(p):
        c = p.obj.cells.get(p.off)
        if c is not None and c[0] == 576 and isinstance(c[1], tuple) and c[1][0] == "exp":
            return c[1][1]
        if p.obj.name.endswith("Fq123oneE"):
            return 0
        raise ExecError("abstract-bytes", "exponent cell expected at %r" % (p,))

    def wr(p, e):
        I._check_access(p, 576, 1, True)
        I.store_cell(p.obj, p.off, 576, ("exp", e % N))
    I.add_intercept(B + r"Fq12::conjugate\(.*\)", lambda I_, n, a, s: wr(a[0], rd(a[1]) * Q ** 6), "conjugate")
    I.add_intercept(B + r"Fq12::inverse\(.*\)", lambda I_, n, a, s: wr(a[0], -rd(a[1])), "inverse")
    I.add_intercept(B + r"Fq12::multiply\(.*Fq12 const&, .*Fq12 const&\)", lambda I_, n, a, s: wr(a[0], rd(a[1]) + rd(a[2])), "multiply")
    I.add_intercept(B + r"Fq12::square\(.*\)", lambda I_, n, a, s: wr(a[0], 2 * rd(a[1])), "square")
    I.add_intercept(B + r"Fq12::copy\(.*\)", lambda I_, n, a, s: wr(a[0], rd(a[1])), "copy")

    def h_frob(I_, n, a, s):
        if not is_conc(a[2]):
            raise ExecError("unsupported", "symbolic Frobenius power")
        wr(a[0], rd(a[1]) * Q ** a[2])
    I.add_intercept(B + r"Fq12::frobenius_map\(.*\)", h_frob, "frobenius_map")
    fname = P.find1(B + r"final_exponentiation\(.*\)")
    a = Obj("a", 576, "arg", 16, not alias)
    a.cells[0] = (576, ("exp", 1))
    out = a if alias else Obj("out", 576, "arg", 16)
    I.call_named(fname, [Ptr(out, 0), Ptr(a, 0)])
    e = rd(Ptr(out, 0))
    want = 3 * (N // R_ORDER) % N
    if N % R_ORDER != 0:
        raise Inconclusive("r does not divide q^12 - 1")
    if e != want:
        raise Violation("final-exponent", "final_exponentiation raises to an exponent that is not 3 (q^12 - 1) / r (mod q^12 - 1); e * r mod (q^12-1) = %d" % (e * R_ORDER % N),
                        {"exponent_mod_r_cofactor": hex(e % R_ORDER)})
    return {"queries": 1, "paths": 1, "functions": [P.demangled[fname][:80]],
            "sample": "exponent = 3 (q^12-1)/r exactly (4314-bit integer comparison; %d intercepted group operations)" % sum(I.intercept_hits.values())}


def lib_fq12(I, o, off=0):
    """read a concrete Fq12 (Montgomery bytes) as nested canonical ints ((c0,c1,c2),(c3,c4,c5)) with ci = (a, b)"""
    def fq(k):
        v = I.load_bytes(o, off + 48 * k, 48)
        return v * RINV % Q
    vals = [fq(k) for k in range(12)]
    return tuple(tuple((vals[2 * (3 * h + j)], vals[2 * (3 * h + j) + 1]) for j in range(3)) for h in range(2))


def ob_generators():
    P = build.load_program("A", files=["src/bls12_381/bls12_381.cpp", "src/bls12_381/curve.cpp"], tag="c01_gen")
    I = eir.Interp(P)
    gp = [n for n in P.gl if n.endswith("17generator_pairingE")]
    g1n = [n for n in P.gl if n.endswith("8G1Affine9generatorE")]
    g2n = [n for n in P.gl if n.endswith("8G2Affine9generatorE")]
    if not (gp and g1n and g2n):
        raise Inconclusive("generator constants not found in the IR")
    og = I.global_obj(gp[0])
    const = refpairing.tower_to_poly(lib_fq12(I, og))
    o1, o2 = I.global_obj(g1n[0]), I.global_obj(g2n[0])
    rd = lambda o, k: I.load_bytes(o, 48 * k, 48) * RINV % Q
    g1 = (rd(o1, 0), rd(o1, 1))
    g2 = ((rd(o2, 0), rd(o2, 1)), (rd(o2, 2), rd(o2, 3)))
    if not refpairing.on_curve((refpairing.f12([g1[0]]), refpairing.f12([g1[1]]))) or not refpairing.on_curve(refpairing.untwist(*g2)):
        raise Violation("generators:on-curve", "a published generator is not on its curve", {})
    ref = refpairing.pairing(g1, g2)
    if ref != const:
        raise Violation("generators:constant", "generator_pairing is not the reference pairing of the published generators", {"reference_c0": hex(ref[0]), "constant_c0": hex(const[0])})
    if refpairing.powf(ref, R_ORDER) != refpairing.ONE or ref == refpairing.ONE:
        raise Violation("generators:order", "the reference pairing value does not have order r", {})
    # native
    from engine import replay
    out = replay.run(["genpair"])[0]
    if not out.startswith("SAME"):
        raise Violation("generators:native", "native pairing(G1 generator, G2 generator) differs from generator_pairing: " + out[:120], {})
    # exported C pointer
    gt = [n for n in P.gl if n == "embedded_pairing_bls12_381_gt_generator"]
    if gt:
        v = I.global_obj(gt[0]).cells.get(0)
        if not (v and isinstance(v[1], Ptr) and v[1].obj is og and v[1].off == 0):
            raise Violation("generators:c-export", "embedded_pairing_bls12_381_gt_generator does not designate generator_pairing", {})
    return {"queries": 3, "paths": 1, "functions": ["generator_pairing constant", "native pairing on generators"],
            "sample": "reference pairing == constant == native value; order r"}


def register(chk):
    for rep in ("gen", "z1"):
        chk.add("step:doubling:%s" % rep, ob_doubling_step, rep)
        chk.add("step:addition:%s" % rep, ob_addition_step, rep)
    chk.add("ell", ob_ell)
    chk.add("final-exponent", ob_final_exponent)
    chk.add("generators", ob_generators)
    chk.add("miller_loop:single:affine", c08.ob_single, False)
    chk.add("miller_loop:single:prepared", c08.ob_single, True)
    chk.add("prepare", c08.ob_prepare)
    chk.add("wrappers", c08.ob_wrappers)


def include_in(chk):
    """this check's obligations registered inside a check of a layer above (framework.Check.include)"""
    prog()
    miller.prog()
    register(chk)


def main(argv=None):
    chk = Check("C01", "proof", argv)
    prog()
    miller.prog()
    register(chk)
    chk.explanation = __doc__.strip()
    chk.bounds = ["no bound on P, Q: step kernels over free indeterminates (any twist point with y != 0 in any Jacobian representative; any chord with distinct x), "
                  "identity operands by symbolic flags; the 63-step loop and the exponentiation chains are executed in full (concrete trip counts)",
                  "points outside the order-r subgroups are outside the claim (degenerate steps: no proper prefix of |x| is 0 or +-1 modulo r, as |x| < 2^64 < r)"]
    chk.trusted = ["T8 (Vercauteren's optimal-ate theorem; subfield factors vanish)", "T4 chord-and-tangent law", "C04 (tower arithmetic incl. multiply_by_c014, conjugate = q^6-Frobenius, frobenius_map)",
                   "C05/C06 for bilinearity in scalars", "engine/refpairing.py as the definition-level oracle for the generator value", "z3"]
    # lower layers whose specifications this check relies on: their obligations are part of this check's claim (framework.Check.include)
    for dep in ['C02', 'C03', 'C04', 'C05', 'C06', 'C07', 'C19', 'C20']:      # C06/C07: the 'consequently e(aP,bQ) = e(P,Q)^(ab)' clause is about [a]P, [b]Q and g^(ab)
        chk.include(dep)
    # every pairing entry point goes through the shared multi-pair Miller loop; its identity short-circuit must skip a pair, not abandon the
    # product: C08's obligations for that routine
    chk.include("C08", only=r"^miller_loop:n=")
    chk.run()
    chk.finish()


if __name__ == "__main__":
    main()
