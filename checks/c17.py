"""C17 - untrusted bytes never cause out-of-bounds or misaligned accesses in the parsers (DESIGN.md section 5, C17, part 1).

Every *_unmarshalled_length / *_set_length / *_unmarshal of WKD-IBE and LQ-IBE and embedded_pairing_bls12_381_{g1,g2,gt}_unmarshal is executed from
the IR of the current tree (C wrapper + template it dispatches to), compressed and uncompressed, checked and unchecked, on
  * an input buffer that is an object of SYMBOLIC size n (64-bit vector, 1 <= n <= 2^20), base alignment 1, constant, with arbitrary contents
    (a byte that is read for the first time is a fresh symbolic byte);
  * a destination object of exactly sizeof(struct) holding a stale symbolic slot count, and - for Params / SecretKey - a slot array of exactly
    the l elements that set_length reported (set_length runs first; l is then enumerated over -1, 0..lmax by the solver).
Model of the layer below: checks/marsh.py (decode / read_big_endian read exactly Encoding::size / 576 bytes at the pointer they are given - and
that access is bounds-checked against n like any other; decode of arbitrary bytes returns a free Boolean, so both outcomes are explored).
  parse:<kind>:<enc>:checked=<c>   solver VCs (A-MEM, one per access): every read of the buffer satisfies offset + width <= n under the path condition;
        every write stays inside the destination object / the l-element slot array / locals; no read of uninitialised memory; no signed
        overflow, bad shift or division by zero in the length arithmetic.  When length discovery answers -1 the object's slot count is untouched.
        When unmarshal accepts: get_marshalled_length(result) = n (variable-length kinds), and marshalling the result into a buffer of
        exactly that many bytes writes all of them and nothing else (C15 (a) on the parsed object).
        Fixed-size kinds have no length discovery: the precondition is n >= the library's own *_get_marshalled_length(compressed).
  parse:fq12-io                    the REAL Fq12/Fq6/Fq2::read_big_endian on an n-byte buffer (n >= 576 symbolic) over 48-byte Fq::read_big_endian tokens
  parse-beyond:<kind>:<enc>:checked=<c>   (Params / SecretKey) the complement of parse:*'s bound: length discovery reports r > lmax slots, r SYMBOLIC up to
        INT_MAX (a negative count other than -1 is itself a violation); the slot array is an object of symbolic size r * sizeof(slot); unmarshal's slot
        loop is cut after 2 iterations; every buffer read / destination write of the header and of those iterations is a solver VC against n / r
  lengthfn:<kind>:<enc>            *_unmarshalled_length on the n-byte buffer reads inside [0, n) for every n >= 1 (it may only look at byte 0)
  align:<kind>:<enc>:<direction>   every access made by unmarshal / by the re-marshal satisfies the alignment the IR declares for it although the
        buffer is only 1-aligned.  A finding is reported with the key  S7:FreeSlotMarshalled-idx-align:<function>  (other misalignments:
        align:<function>) and the instruction's buffer offsets.
Part 2 of C17 ("every other API call on valid arguments is free of UB") is NOT decided here: it is covered only to the extent that the same
A-MEM assertions (bounds, declared alignment, read-before-write, shift range, nsw/nuw, noalias) are active in the interpreter runs of the other
properties (C02-C16, C18, C19), on the paths and within the bounds those runs explore.  The Go bindings are out of scope (no Go toolchain).
"""
import sys
import os
sys.path.insert(0, os.path.dirname(os.path.dirname(os.path.abspath(__file__))))
sys.path.insert(0, os.path.dirname(os.path.abspath(__file__)))

import z3
import marsh
from marsh import World, BY_NAME, KINDS, BLS_KINDS, call, c_marshal, c_unmarshal, fname
from engine import eir
from engine.eir import Ptr, Obj, is_conc, MemViolation, as_bv
from engine.framework import Check, Violation, Inconclusive

TAG = "c17"
NMAX = 1 << 20
MINUS1 = 0xffffffff


def scenario(W, kind, comp, checked, lmax):
    """set_length, unmarshal and (on acceptance) re-marshal on an n-byte buffer of arbitrary contents; returns outcome counts"""
    I = W.I
    n = z3.BitVec("n", 64)
    fb = z3.BitVec("buf[0]", 8)
    I.assumptions = [z3.UGE(n, 1), z3.ULE(n, NMAX)]
    lfix = None
    if not kind.var:
        lfix = marsh.fixed_length(W, kind, comp)
        I.assumptions.append(z3.UGE(n, lfix))
    st = {"paths": 0, "badlen": 0, "rejected": 0, "accepted": 0, "ls": set()}

    def once():
        del I.codec[:]
        buf = Obj("buf", n, "arg", 1, True)
        buf.lazy = "buf"
        out, stale = marsh.new_dest(W, kind)
        l = 0
        if kind.var:
            I.branch(fb != 0)                                    # case split: signature element announced or not
            r = as_bv(call(W, kind, "set_length", Ptr(out, 0), Ptr(buf, 0), n, int(comp)), 32)
            I.path.pc.append(z3.Or(r == MINUS1, z3.ULE(r, lmax)))     # stated bound on the slot counts examined
            v = I.concretize(r, 32, limit=lmax + 2)
            lnow = as_bv(I.load_bytes(out, kind.off(W.P, kind.var[0]), 4), 32)
            if v == MINUS1:
                I.check_vc(lnow == stale, "stale", "length discovery answered -1 but the object's slot count changed")
                return "badlen", None
            I.check_vc(lnow == v, "stale", "set_length reported %d slots but the object's slot count is different" % v)
            l = v
            I.store_cell(out, kind.off(W.P, kind.var[0]), 4, l)      # same value, now as a constant (just proved equal): keeps later offsets concrete
            marsh.attach_array(W, kind, out, l)
        ret = c_unmarshal(W, kind, out, buf, comp, checked)
        if ret is not None and not I.branch(ret):
            return "rejected", l
        if kind.var:
            l2 = as_bv(call(W, kind, "get_marshalled_length", Ptr(out, 0), int(comp)), 64)
            I.check_vc(l2 == n, "length", "unmarshal accepted an n-byte buffer but the object's marshalled length is not n")
            size = I.concretize(l2, 64, limit=1)
        else:
            size = lfix
        buf2 = Obj("buf2", size, "arg", 1)
        c_marshal(W, kind, buf2, out, comp)
        miss = marsh.uncovered(buf2, size)
        if miss:
            raise MemViolation("short", "re-marshalling the accepted object leaves %d of %d bytes unwritten (first at %d)" % (len(miss), size, miss[0]))
        return "accepted", l
    for path, (what, l) in I.explore(once, 4096):
        st["paths"] += 1
        st[what] += 1
        if l is not None:
            st["ls"].add(l)
    return st


def as_violation(key, e, what):
    mdl = getattr(e, "model", None)
    ce = {}
    if mdl is not None:
        for d in mdl.decls():
            if d.name() in ("n", "buf[0]", "out.stale_l"):
                ce[d.name()] = mdl[d].as_long()
    return Violation("%s:%s" % (key, e.kind), "%s: %s" % (what, e), ce)


def ob_parse(kname, comp, checked, lmax):
    kind = BY_NAME[kname]
    W = World(TAG)
    key = "parse:%s:%s:checked=%d" % (kname, fname(comp), checked)
    try:
        st = scenario(W, kind, comp, checked, lmax)
    except MemViolation as e:
        raise as_violation(key, e, "%s on an n-byte buffer of arbitrary bytes" % kind.fn("unmarshal"))
    want = set(range(lmax + 1)) if kind.var else {0}
    if not st["accepted"] or st["ls"] != want or (kind.var and not st["badlen"]) or (kind.ndec(0, 0) and not st["rejected"]):
        raise Inconclusive("vacuity guard: outcomes %r" % (st,))
    fns = [kind.fn("unmarshal"), kind.fn("marshal")] + ([kind.fn("set_length"), kind.fn("get_marshalled_length")] if kind.var else [])
    return W.stats(st["paths"], fns, "%d paths: %d length rejected, %d rejected by unmarshal, %d accepted and re-marshalled; l in %s; %d alignment findings (see align:*)" % (
        st["paths"], st["badlen"], st["rejected"], st["accepted"], sorted(st["ls"]), len(W.I.align_events)))


K_BEYOND = 2      # slot-loop iterations explored when the reported slot count exceeds lmax


def ob_parse_beyond(kname, comp, checked, lmax):
    """the case the parse:* obligations exclude: length discovery reports r > lmax slots (r stays SYMBOLIC, any value up to INT_MAX).  The slot array
    is an object of symbolic size r * sizeof(slot); unmarshal's slot loop is cut when its header is reached for the (K+1)-th time; every buffer
    read (offset + width <= n) and every destination write (inside the object / the r-slot array) of that prefix is a solver VC.  A reported
    count that is negative but not -1 is a violation by itself (no caller can size an array from it)."""
    from engine import loopcut
    kind = BY_NAME[kname]
    W = World(TAG)
    I = W.I
    key = "parse-beyond:%s:%s:checked=%d" % (kname, fname(comp), checked)
    n, fb = z3.BitVec("n", 64), z3.BitVec("buf[0]", 8)
    I.assumptions = [z3.UGE(n, 1), z3.ULE(n, NMAX)]
    fn = W.P.fn[W.P.find1(r"bool embedded_pairing::wkdibe::%s::unmarshal<%s>\(.*\)" % (kind.struct.split("::")[-1], "true" if comp else "false"))]
    heads = sorted(set(h for _, h in loopcut.back_edges(fn)))
    if len(heads) != 1:
        raise Inconclusive("%s has %d loops, expected the slot loop only" % (W.P.demangled[fn.name][:60], len(heads)))
    visits = [0]

    def hook(I_, f, block, prev, regs):
        if f is fn and block == heads[0]:
            visits[0] += 1
            if visits[0] > K_BEYOND:
                raise eir.LoopCut(f, block, prev, regs)
        return None
    I.loop_hook = hook
    st = {"paths": 0, "cut": 0, "rejected": 0, "accepted": 0}

    def once():
        visits[0] = 0
        del I.codec[:]
        buf = Obj("buf", n, "arg", 1, True)
        buf.lazy = "buf"
        out, stale = marsh.new_dest(W, kind)
        I.branch(fb != 0)
        r = as_bv(call(W, kind, "set_length", Ptr(out, 0), Ptr(buf, 0), n, int(comp)), 32)
        I.check_vc(z3.Or(r == MINUS1, r >= 0), "length", "length discovery reports a negative slot count other than -1")
        I.path.pc.append(z3.And(z3.UGT(r, lmax), z3.ULE(r, 0x7fffffff)))          # the complement of parse:*'s bound
        if not I.feasible(z3.BoolVal(True)):
            raise eir.PathAbort()
        lnow = as_bv(I.load_bytes(out, kind.off(W.P, kind.var[0]), 4), 32)
        I.check_vc(lnow == r, "stale", "set_length reported r slots but the object's slot count is different")
        arr = Obj("out.slots", z3.ZeroExt(32, r) * z3.BitVecVal(marsh.elem_stride(W, kind), 64), "arg", 16)
        I.store_cell(out, kind.off(W.P, kind.var[2]), 8, Ptr(arr, 0))
        try:
            ret = c_unmarshal(W, kind, out, buf, comp, checked)
        except eir.LoopCut:
            return "cut"
        return "accepted" if I.branch(ret) else "rejected"
    try:
        for path, what in I.explore(once, 1024):
            st["paths"] += 1
            st[what] += 1
    except MemViolation as e:
        raise as_violation(key, e, "%s after length discovery reported more than %d slots" % (kind.fn("unmarshal"), lmax))
    if not st["cut"] or not st["rejected"]:
        raise Inconclusive("vacuity guard: outcomes %r" % (st,))
    return W.stats(st["paths"], [kind.fn("set_length"), kind.fn("unmarshal")],
                   "reported count symbolic in (%d, 2^31): %d paths, %d reach the cut after %d slot iterations, %d rejected by a decode before, %d returned true" % (
                       lmax, st["paths"], st["cut"], K_BEYOND, st["rejected"], st["accepted"]))


def ob_lengthfn(kname, comp):
    kind = BY_NAME[kname]
    W = World(TAG)
    I = W.I
    n = z3.BitVec("n", 64)
    I.assumptions = [z3.UGE(n, 1)]
    key = "lengthfn:%s:%s" % (kname, fname(comp))

    def once():
        buf = Obj("buf", n, "arg", 1, True)
        buf.lazy = "buf"
        return call(W, kind, "unmarshalled_length", Ptr(buf, 0), n, int(comp))
    try:
        np_ = sum(1 for _ in I.explore(once, 64))
    except MemViolation as e:
        raise as_violation(key, e, kind.fn("unmarshalled_length"))
    return W.stats(np_, [kind.fn("unmarshalled_length")], "every n >= 1 (64 bit), %d paths" % np_)


def ob_align(kname, comp, direction, lmax):
    kind = BY_NAME[kname]
    W = World(TAG)
    key = "align:%s:%s:%s" % (kname, fname(comp), direction)
    try:
        st = scenario(W, kind, comp, 1, lmax)
    except MemViolation as e:
        raise Inconclusive("the parse scenario itself fails (%s); see parse:*" % e)
    ev = sorted(set(e for e in W.I.align_events if (direction == "unmarshal") == ("unmarshal" in e[0])), key=str)
    if ev:
        fn = ev[0][0]
        where = sorted(set((e[1], e[2]) for e in ev if e[0] == fn))
        fkey = ("S7:FreeSlotMarshalled-idx-align:" if "FreeSlot" in fn else "align:") + fn
        raise Violation(fkey, "%s performs a %d-byte %s with declared alignment %d at offsets %s of an object that is only 1-aligned (the caller's byte buffer): "
                        "undefined behaviour, faults on Cortex-M0+" % (fn, ev[0][3], "store" if ev[0][5] else "load", ev[0][4],
                                                                    ", ".join("%s+%s" % w for w in where[:8])),
                        {"function": fn, "accesses": [list(map(str, e)) for e in ev[:16]]})
    return W.stats(st["paths"], [kind.fn(direction)], "%d paths, no access with a declared alignment the 1-aligned buffer cannot guarantee" % st["paths"])


def replay_align(res):
    """native confirmation of an alignment finding: the current tree built with the shipped flags, src/wkdibe/marshal.cpp additionally with
    -fsanitize=alignment; harness/c17_align.cpp marshals / unmarshals a two-slot SecretKey on a 16-aligned buffer.  True iff UBSan reports a
    misaligned access during the call that the finding names."""
    import glob
    import subprocess
    from engine import build
    ce = res.counterexample or {}
    fn = ce.get("function") if isinstance(ce, dict) else None
    if not fn or "FreeSlot" not in fn:
        return None
    d = build.workdir("c17_native")
    verif = os.path.dirname(os.path.dirname(os.path.abspath(__file__)))
    flags = ["-std=c++17", "-I" + os.path.join(build.REPO, "include"), "-Ofast", "-fno-vectorize"]
    procs, objs = [], []
    for s_ in build.sources(build.REPO, "A") + [os.path.join(verif, "harness", "c17_align.cpp")]:
        o = os.path.join(d, os.path.basename(os.path.dirname(s_)) + "_" + os.path.basename(s_)[:-4] + ".o")
        san = ["-fsanitize=alignment", "-g"] if s_.endswith("wkdibe/marshal.cpp") else []
        procs.append(subprocess.Popen(["clang++-14", "-c"] + flags + san + [s_, "-o", o], stderr=subprocess.PIPE, text=True))
        objs.append(o)
    for s_ in sorted(glob.glob(os.path.join(build.REPO, "src/core/arch/x86_64/*.s"))):
        o = os.path.join(d, "asm_" + os.path.basename(s_)[:-2] + ".o")
        procs.append(subprocess.Popen(["as", s_, "-o", o], stderr=subprocess.PIPE, text=True))
        objs.append(o)
    for p_ in procs:
        _, err = p_.communicate()
        if p_.returncode != 0:
            raise RuntimeError("native build failed: " + err[-800:])
    exe = os.path.join(d, "c17_align")
    subprocess.run(["clang++-14", "-fsanitize=alignment"] + objs + ["-o", exe], check=True, capture_output=True)
    r = subprocess.run([exe], capture_output=True, text=True, timeout=120)
    phase, hits = None, []
    for line in r.stderr.split("\n"):
        if line.startswith("PHASE "):
            phase = line[6:].strip()
        elif "misaligned address" in line and phase == fn:
            hits.append(line.strip())
    ce["native_replay"] = {"build": "shipped flags; src/wkdibe/marshal.cpp with -fsanitize=alignment", "stdout": r.stdout.strip().split("\n"), "ubsan": hits[:4]}
    return bool(hits)


def register(chk):
    def add(name, fn, *args):
        chk.add(name, marsh.guarded, name, fn, *args)
    lmax = 8 if chk.tier == "quick" else 12
    add("parse:fq12-io", marsh.fq12_io, TAG, True)
    for kind in KINDS + BLS_KINDS:
        for comp in marsh.forms(kind):
            for checked in ((1,) if kind.nocomp else (1, 0)):
                add("parse:%s:%s:checked=%d" % (kind.name, fname(comp), checked), ob_parse, kind.name, comp, checked, lmax if kind.var else 0)
                if kind.var:
                    add("parse-beyond:%s:%s:checked=%d" % (kind.name, fname(comp), checked), ob_parse_beyond, kind.name, comp, checked, lmax)
            if kind.var:
                add("lengthfn:%s:%s" % (kind.name, fname(comp)), ob_lengthfn, kind.name, comp)
            for d in ("unmarshal", "marshal"):
                add("align:%s:%s:%s" % (kind.name, fname(comp), d), ob_align, kind.name, comp, d, min(lmax, 2) if kind.var else 0)
    return lmax


def main(argv=None):
    chk = Check("C17", "proof", argv)
    chk.replayer = replay_align
    marsh.prog(TAG)
    marsh.prog(TAG + "_tower", marsh.TOWER_FILES)
    lmax = register(chk)
    chk.explanation = __doc__.strip()
    chk.bounds = ["buffer length n: every value in [1, 2^20] (symbolic); contents: every byte string; first byte: every value",
                  "slot counts reported by length discovery: -1 and 0..%d (enumerated by the solver; the slot loops are unrolled, no loop cut beyond)" % lmax,
                  "for l > %d only the header and the first %d slot iterations are explored (parse-beyond:*: l symbolic up to INT_MAX, slot loop cut, no re-marshal, "
                  "no inductive argument for the remaining iterations)" % (lmax, K_BEYOND),
                  "alignment obligations: slot counts 0..2 (the offsets of all slots are congruent modulo 4)",
                  "x86-64 IR (configuration A); the thumbv6m / aarch64 IR of the same sources is not re-run here"]
    chk.trusted = ["contract of Encoding::decode / Fq::read_big_endian: they access exactly Encoding::size / 48 bytes at `this` / the given pointer with byte accesses "
                   "(the real decode runs on an exact-size buffer with the same A-MEM assertions in C09, Fq I/O in C02); the Fq12 level is run for real in parse:fq12-io",
                   "clang -O1 IR of the current tree, E-IR, z3; native confirmation of alignment findings uses clang's -fsanitize=alignment on src/wkdibe/marshal.cpp only"]
    chk.assumptions = ["fixed-size kinds (ciphertext, signature, master keys, LQ-IBE objects, g1/g2/gt): the caller passes at least *_get_marshalled_length(compressed) bytes "
                       "(the API has no length parameter for them)",
                       "the destination object is valid writable memory of sizeof(struct) and, for Params / SecretKey, points to l slots where l is what set_length returned",
                       "part 2 of the property (all other API calls are free of UB) is decided for the calls the included obligations execute (C02 byte I/O, C03, C09, C11-C14, C16, C19), not for every call sequence"]
    chk.rule = ("one evaluation = one obligation = one symbolic exploration (all n, all contents) of a parser entry point; every memory access on every path is a "
                "solver VC against the symbolic buffer length or a concrete bounds test against the exact-size destination objects")
    # the element decoder itself (C17's own obligations model it as "reads exactly the encoding"): its byte-level obligations from C09, for every byte string
    chk.include("C09", only=r"decode-memory|canonical")
    # ... and the byte I/O of the field elements below it (BigInt::read/write_big_endian run for real on a 1-aligned buffer whose address is
    # symbolic, so a word-wise fast path behind an address test is decided against that test): C02's Fq I/O obligations
    chk.include("C02", only=r"more:Fq::(read|write)_big_endian|more:BigInt")
    # the assembly kernels of every back end: each load, store, push, pop and return is a checked access against the frame and the operand
    # objects (stack discipline, callee-saved registers, no access outside the operands): C03's obligations
    chk.include("C03")
    # every C struct must have the size and alignment of the C++ object its wrapper casts it to (an under-aligned or undersized C object is an
    # out-of-bounds / misaligned access for a valid C caller): C19's layout and wrapper obligations
    chk.include("C19")
    # part 2 of the property (valid calls): the WKD-IBE operations executed on keys, lists and slot arrays of exactly the documented sizes
    # (every access is a checked access): the obligations of C11, C13 and C14
    for dep in ("C11", "C13", "C14"):
        chk.include(dep)
    # ... encrypt / decrypt (C12's positive obligations: every key pattern against every ciphertext list shape) and the LQ-IBE operations (C16)
    chk.include("C12", only=r"^decrypt:")
    chk.include("C16")
    # statelessness (no call leaves anything behind in a global or static) is a premise of every per-call obligation: C20's IR obligations
    chk.include("C20")
    chk.run()
    chk.finish()


if __name__ == "__main__":
    main()
