"""Reference BLS12-381 arithmetic, definition level, independent of the library's formulas (DESIGN.md section 3.6).

Fq12 is represented directly as Fq[w]/(w^12 - 2 w^6 + 2) (since w^6 = xi = 1 + u and u^2 = -1 give (w^6 - 1)^2 = -1), i.e. polynomials of
degree < 12 with coefficients mod q - no tower, no Karatsuba, no sparse products.  Curve points are affine over Fq12, the Miller loop is the
textbook double-and-add with explicit untwisting, the final exponentiation is pow(f, 3 (q^12 - 1) / r) by square-and-multiply.
"""
Q = 0x1a0111ea397fe69a4b1ba7b6434bacd764774b84f38512bf6730d2a0f6b0f6241eabfffeb153ffffb9feffffffffaaab
R = 0x73eda753299d7d483339d80809a1d80553bda402fffe5bfeffffffff00000001
X_ABS = 0xd201000000010000        # |x|, x is negative
# modulus polynomial w^12 - 2 w^6 + 2
MODP = [2, 0, 0, 0, 0, 0, -2, 0, 0, 0, 0, 0, 1]


def f12(c):
    return [x % Q for x in c] + [0] * (12 - len(c))


ONE = f12([1])
ZERO = f12([0])


def add(a, b):
    return [(x + y) % Q for x, y in zip(a, b)]


def sub(a, b):
    return [(x - y) % Q for x, y in zip(a, b)]


def neg(a):
    return [(-x) % Q for x in a]


def mul(a, b):
    t = [0] * 23
    for i, x in enumerate(a):
        if x:
            for j, y in enumerate(b):
                t[i + j] += x * y
    # reduce with w^12 = 2 w^6 - 2
    for k in range(22, 11, -1):
        c = t[k]
        if c:
            t[k] = 0
            t[k - 6] += 2 * c
            t[k - 12] -= 2 * c
    return [x % Q for x in t[:12]]


def scal(a, s):
    return [x * s % Q for x in a]


def powf(a, e):
    r = ONE
    for bit in bin(e)[2:]:
        r = mul(r, r)
        if bit == "1":
            r = mul(r, a)
    return r


def _pdeg(p):
    d = len(p) - 1
    while d >= 0 and p[d] % Q == 0:
        d -= 1
    return d


def _pdivmod(a, b):
    a = [x % Q for x in a]
    db = _pdeg(b)
    binv = pow(b[db], -1, Q)
    q = [0] * max(len(a), 1)
    while True:
        da = _pdeg(a)
        if da < db:
            break
        c = a[da] * binv % Q
        q[da - db] = c
        for i in range(db + 1):
            a[da - db + i] = (a[da - db + i] - c * b[i]) % Q
    return q, a


def _pmul(a, b):
    t = [0] * (len(a) + len(b))
    for i, x in enumerate(a):
        if x:
            for j, y in enumerate(b):
                t[i + j] = (t[i + j] + x * y) % Q
    return t


def inv(a):
    """inverse in Fq[w]/(w^12 - 2w^6 + 2) by the extended Euclidean algorithm on polynomials over Fq"""
    r0, r1 = [x % Q for x in MODP], list(a)
    s0, s1 = [0], [1]
    while _pdeg(r1) > 0:
        q, r = _pdivmod(r0, r1)
        r0, r1 = r1, r
        qs = _pmul(q, s1)
        n = max(len(s0), len(qs))
        s0, s1 = s1, [((s0[i] if i < len(s0) else 0) - (qs[i] if i < len(qs) else 0)) % Q for i in range(n)]
    if _pdeg(r1) < 0:
        raise ZeroDivisionError("not invertible")
    c = pow(r1[0], -1, Q)
    res = [x * c % Q for x in s1]
    res = (res + [0] * 12)[:max(12, _pdeg(res) + 1)]
    _, res = _pdivmod(res, [x % Q for x in MODP]) if _pdeg(res) >= 12 else (None, res)
    res = (res + [0] * 12)[:12]
    return res


def is_zero(a):
    return all(x == 0 for x in a)


def from_fq2(c0, c1):
    """c0 + c1 u with u = w^6 - 1"""
    e = [0] * 12
    e[0] = (c0 - c1) % Q
    e[6] = c1 % Q
    return e


def tower_to_poly(t):
    """library layout Fq12 = ((c0 + c1 v + c2 v^2) + (c3 + c4 v + c5 v^2) w), v = w^2, each ci = (a, b) = a + b u  ->  polynomial in w"""
    out = ZERO
    for half in range(2):
        for k in range(3):
            a, b = t[half][k]
            e = from_fq2(a, b)
            sh = 2 * k + half
            out = add(out, mul(e, f12([0] * sh + [1])))
    return out


W = f12([0, 1])
W2 = mul(W, W)
W3 = mul(W2, W)


def untwist(x2, y2):
    """(x', y') on E': y^2 = x^3 + 4(1+u) over Fq2 (pairs)  ->  point on E: y^2 = x^3 + 4 over Fq12"""
    x = mul(from_fq2(*x2), inv(W2))
    y = mul(from_fq2(*y2), inv(W3))
    return (x, y)


def on_curve(P):
    x, y = P
    return sub(mul(y, y), add(mul(mul(x, x), x), f12([4]))) == ZERO


def line(T, S, P):
    """value at P of the line through T and S (tangent if equal); affine points over Fq12; vertical lines are not needed here"""
    (x1, y1), (x2, y2), (xp, yp) = T, S, P
    if x1 == x2 and y1 == y2:
        lam = mul(scal(mul(x1, x1), 3), inv(scal(y1, 2)))
    else:
        lam = mul(sub(y2, y1), inv(sub(x2, x1)))
    return sub(sub(yp, y1), mul(lam, sub(xp, x1))), lam


def padd(T, S):
    (x1, y1), (x2, y2) = T, S
    _, lam = line(T, S, T)
    x3 = sub(sub(mul(lam, lam), x1), x2)
    y3 = sub(mul(lam, sub(x1, x3)), y1)
    return (x3, y3)


def miller(P, Qp):
    """f_{|x|, Q}(P), conjugated (x < 0); P = (xp, yp) ints in Fq, Qp already untwisted"""
    Pe = (f12([P[0]]), f12([P[1]]))
    f = ONE
    T = Qp
    for bit in bin(X_ABS)[3:]:
        l, _ = line(T, T, Pe)
        f = mul(mul(f, f), l)
        T = padd(T, T)
        if bit == "1":
            l, _ = line(T, Qp, Pe)
            f = mul(f, l)
            T = padd(T, Qp)
    # conjugation = q^6-power Frobenius = w -> -w
    return [c if i % 2 == 0 else (-c) % Q for i, c in enumerate(f)]


def pairing(P, Q2):
    """reference value of the library's pairing: reduced optimal-ate pairing cubed"""
    f = miller(P, untwist(*Q2))
    return powf(f, 3 * ((Q ** 12 - 1) // R))
