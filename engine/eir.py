"""E-IR: symbolic interpreter for the LLVM IR of jedi-pairing (see DESIGN.md section 3.2).

Values
  integers   python int (concrete, already reduced to the type's width) or z3 BitVecRef;
             i1 may also be a z3 BoolRef or an ACond (abstract predicate decided by an oracle)
  pointers   Ptr(obj, off) with concrete or (for table look-ups) symbolic offset; FnRef(name)
  abstract   any python object stored as one memory cell (ring element, group element, ...)

Forking is replay based: a run is re-executed from the start under a prefix of branch decisions, so no
state copying is needed; the functions we execute are a few thousand instructions at most.
"""
import re
import z3
from . import irparse as ir


# names of the IR functions whose bodies were interpreted in this process (coverage audit: tools/coverage_audit.py)
EXECUTED = set()

class ExecError(Exception):
    """Something the interpreter cannot model: the run is inconclusive."""
    def __init__(self, kind, msg):
        Exception.__init__(self, "%s: %s" % (kind, msg))
        self.kind = kind
        self.msg = msg


class MemViolation(ExecError):
    """A-MEM assertion failed on a concrete path (bounds / alignment / uninitialised / noalias)."""
    pass


class LoopCut(Exception):
    """raised by a phi_hook when control returns to a cut loop header: the path ends here (regs = values after the phis)"""
    def __init__(self, fn, block, prev, regs):
        Exception.__init__(self, "loop cut at %s:%s" % (fn.name, block))
        self.fn = fn
        self.block = block
        self.prev = prev
        self.regs = dict(regs)


class PathAbort(Exception):
    """current path is infeasible or cut by the harness"""
    pass


# ----------------------------------------------------------------------------------------
class Obj:
    _n = 0

    def __init__(self, name, size, kind, align=1, const=False):
        Obj._n += 1
        self.id = Obj._n
        self.name = name
        self.size = size          # int, or z3 BitVecRef(64) for symbolic-length buffers
        self.kind = kind          # 'alloca' | 'global' | 'arg' | 'heap'
        self.align = align
        self.const = const
        self.cells = {}           # off -> (size, value)
        self.dead = False
        self.written = False

    def __repr__(self):
        return "<obj %s #%d>" % (self.name, self.id)


class Ptr:
    __slots__ = ("obj", "off")

    def __init__(self, obj, off=0):
        self.obj = obj
        self.off = off

    def __repr__(self):
        return "&%s+%s" % (self.obj.name if self.obj else "null", self.off)

    def is_null(self):
        return self.obj is None


NULL = Ptr(None, 0)


class FnRef:
    def __init__(self, name):
        self.name = name
    def __repr__(self):
        return "fn:" + self.name


class Undef:
    def __repr__(self):
        return "undef"


UNDEF = Undef()


class ACond:
    """abstract predicate: kind in {'atom','not','and','or'}"""
    def __init__(self, kind, args):
        self.kind = kind
        self.args = args
    def __repr__(self):
        return "%s%r" % (self.kind, self.args)


def acond_not(c):
    if isinstance(c, ACond) and c.kind == "not":
        return c.args[0]
    return ACond("not", [c])


class Agg:
    """first-class aggregate value (only for {iN, i1} results of with.overflow and small struct returns)"""
    def __init__(self, els):
        self.els = els


def is_conc(v):
    return isinstance(v, int)


def mask(bits):
    return (1 << bits) - 1


def to_signed(v, bits):
    return v - (1 << bits) if v >> (bits - 1) else v


def as_bv(v, bits):
    if isinstance(v, int):
        return z3.BitVecVal(v, bits)
    if isinstance(v, z3.BoolRef):
        return z3.If(v, z3.BitVecVal(1, bits), z3.BitVecVal(0, bits))
    if isinstance(v, z3.BitVecRef):
        assert v.size() == bits, (v.size(), bits)
        return v
    raise ExecError("unsupported", "cannot make bit-vector from %r" % (v,))


def as_bool(v):
    if isinstance(v, int):
        return bool(v)
    if isinstance(v, z3.BoolRef):
        return v
    if isinstance(v, z3.BitVecRef):
        return v == z3.BitVecVal(1, v.size()) if v.size() == 1 else v != 0
    if isinstance(v, ACond):
        return v
    raise ExecError("unsupported", "cannot make bool from %r" % (v,))


def simp(e):
    if isinstance(e, z3.ExprRef):
        e = z3.simplify(e)
        if z3.is_bv_value(e):
            return e.as_long()
        if z3.is_true(e):
            return 1
        if z3.is_false(e):
            return 0
    return e


# ----------------------------------------------------------------------------------------
class Program:
    """several IR modules 'linked' by name"""

    def __init__(self, modules):
        self.modules = modules
        self.layouts = {id(m): ir.Layout(m) for m in modules}
        self.fn = {}
        self.gl = {}
        for m in modules:
            for name, f in m.functions.items():
                if f.is_decl:
                    self.fn.setdefault(name, f)
                else:
                    old = self.fn.get(name)
                    if old is None or old.is_decl:
                        self.fn[name] = f
            for name, g in m.globals.items():
                old = self.gl.get(name)
                if old is None or (old[0].external and not g.external):
                    self.gl[name] = (g, m)
        self.demangled = {}

    def layout(self, m):
        return self.layouts[id(m)]

    def demangle_all(self):
        import subprocess
        names = sorted(self.fn)
        out = subprocess.run(["llvm-cxxfilt-14"], input="\n".join(names), capture_output=True, text=True, check=True).stdout.split("\n")
        for n, d in zip(names, out):
            self.demangled[n] = d
        return self.demangled

    def find(self, pattern):
        """function names whose demangled name matches the regex (full match)"""
        if not self.demangled:
            self.demangle_all()
        rx = re.compile(pattern)
        return [n for n, d in self.demangled.items() if rx.fullmatch(d)]

    def find1(self, pattern, defined=True):
        r = [n for n in self.find(pattern) if not (defined and self.fn[n].is_decl)]
        if len(r) != 1:
            raise ExecError("spec", "pattern %r matches %d functions: %r" % (pattern, len(r), r[:5]))
        return r[0]


# ----------------------------------------------------------------------------------------
class Path:
    def __init__(self, decisions):
        self.decisions = list(decisions)   # prefix to replay
        self.taken = []                    # (cond, truth) actually taken, in order
        self.pc = []                       # z3 Bool path condition (bit-vector domain)
        self.hyps = []                     # abstract hypotheses (atom, truth)
        self.idx = 0
        self.notes = []
        self.known = {}
        self.keep = []


class Interp:
    MAX_STEPS = 2000000

    def __init__(self, program):
        self.prog = program
        self.globals = {}        # name -> Obj
        self.intercepts = []     # (regex on demangled name, handler, tag)
        self.intercept_hits = {}
        self.oracle = None       # decides ACond atoms: oracle(atom, path) -> True/False/None (fork)
        self.path = Path([])
        self.pending = []
        self.solver = z3.Solver()
        self.assumptions = []    # global z3 Bool assumptions (input preconditions)
        self.steps = 0
        self.events = []         # A-MEM observations (alignment etc.) that are not fatal
        self.check_align = True
        self.strict_uninit = True
        self.callstack = []
        self._mod_stack = []
        self.trace_calls = None  # optional list to append (name, args) of every call
        self.fresh_n = 0
        self.loop_hook = None
        self.phi_hook = None
        self.solver_timeout_ms = 600000
        self.lazy_feasibility = False   # True: every symbolic branch forks (no solver call); infeasible paths are the harness's business
        self.hard_feasibility = False   # affine interpreter: decide lazy feasibility queries in a child process with a hard deadline
        self.external_globals_symbolic = False   # True: an external global without definition holds arbitrary (symbolic) bytes instead of ending the path
        self.keep_after_lifetime_end = False   # harnesses that inspect a local object after the function returned
        self.max_call_depth = 200
        self.external_handler = None
        self.noalias_fatal = True   # False: a caller passing the written object to a __restrict parameter is recorded in .events only
        if not program.demangled:
            program.demangle_all()
        self._icache = {}

    # ------------------------------------------------------------------ objects and globals
    def new_obj(self, name, size, kind="arg", align=16, const=False):
        return Obj(name, size, kind, align, const)

    def fresh(self, prefix, bits):
        self.fresh_n += 1
        return z3.BitVec("%s!%d" % (prefix, self.fresh_n), bits)

    def global_obj(self, name):
        o = self.globals.get(name)
        if o is not None:
            return o
        ent = self.prog.gl.get(name)
        if ent is None:
            if name in self.prog.fn:
                return None
            raise ExecError("unsupported", "unknown global @" + name)
        g, m = ent
        lay = self.prog.layout(m)
        size, al = lay.size_align(g.ty)
        o = Obj("@" + name, size, "global", g.align or al, g.const)
        self.globals[name] = o
        if g.init is not None:
            self._init_const(o, 0, g.ty, g.init, lay)
        elif g.external:
            if not self.external_globals_symbolic:
                raise ExecError("unsupported", "external global without definition @" + name)
            # opt-in (harnesses that want to follow a path to its memory accesses): an external object holds arbitrary bytes
            o.const = True
            for k in range(0, size - size % 8, 8):
                o.cells[k] = (8, self.fresh("ext", 64))
            for k in range(size - size % 8, size):
                o.cells[k] = (1, self.fresh("ext", 8))
        return o

    def _init_const(self, o, off, ty, v, lay):
        ty = lay.resolve(ty)
        size = lay.size(ty)
        if isinstance(v, ir.ConstZero) or isinstance(v, ir.ConstNull) and not isinstance(ty, ir.PtrTy):
            self._zero_fill(o, off, ty, lay)
            return
        if isinstance(ty, ir.IntTy):
            if isinstance(v, ir.ConstInt):
                o.cells[off] = (size, v.v & mask(size * 8))
            elif isinstance(v, ir.ConstUndef):
                pass
            elif isinstance(v, ir.ConstExpr):
                o.cells[off] = (size, self.const_expr(v, lay))
            else:
                raise ExecError("unsupported", "int initialiser %r" % (v,))
            return
        if isinstance(ty, ir.PtrTy):
            if isinstance(v, ir.ConstNull):
                o.cells[off] = (size, NULL)
            else:
                o.cells[off] = (size, self.const_val(ty, v, lay))
            return
        if isinstance(ty, ir.ArrTy):
            if isinstance(v, ir.ConstBytes):
                for i, b in enumerate(v.data):
                    o.cells[off + i] = (1, b)
                return
            if isinstance(v, ir.ConstUndef):
                return
            es = lay.size(ty.el)
            for i, (t, e) in enumerate(v.els):
                self._init_const(o, off + i * es, ty.el, e, lay)
            return
        if isinstance(ty, ir.StructTy):
            if isinstance(v, ir.ConstUndef):
                return
            for i, (t, e) in enumerate(v.els):
                fo, ft = lay.field_offset(ty, i)
                self._init_const(o, off + fo, ft, e, lay)
            return
        raise ExecError("unsupported", "initialiser for %r" % (ty,))

    def _zero_fill(self, o, off, ty, lay):
        ty = lay.resolve(ty)
        if isinstance(ty, ir.IntTy):
            s = lay.size(ty)
            o.cells[off] = (s, 0)
        elif isinstance(ty, ir.PtrTy):
            o.cells[off] = (lay.ptr_bytes, NULL)
        elif isinstance(ty, ir.ArrTy):
            es = lay.size(ty.el)
            el = lay.resolve(ty.el)
            if isinstance(el, ir.IntTy):
                for i in range(ty.n):
                    o.cells[off + i * es] = (es, 0)
            else:
                for i in range(ty.n):
                    self._zero_fill(o, off + i * es, ty.el, lay)
        elif isinstance(ty, ir.StructTy):
            for i in range(len(ty.els)):
                fo, ft = lay.field_offset(ty, i)
                self._zero_fill(o, off + fo, ft, lay)
            # padding bytes: zero as well (zeroinitializer zeroes padding in practice for globals)
            self._fill_gaps(o, off, lay.size(ty))
        else:
            raise ExecError("unsupported", "zero fill %r" % (ty,))

    def _fill_gaps(self, o, off, size):
        covered = set()
        for co, (cs, _) in o.cells.items():
            if co + cs > off and co < off + size:
                covered.update(range(max(co, off), min(co + cs, off + size)))
        for b in range(off, off + size):
            if b not in covered:
                o.cells[b] = (1, 0)

    def run_static_initialisers(self):
        """execute llvm.global_ctors of every module (concrete mode)"""
        for m in self.prog.modules:
            g = m.globals.get("llvm.global_ctors")
            if g is None or g.init is None:
                continue
            for (t, e) in g.init.els:
                fnv = e.els[1][1]
                if isinstance(fnv, ir.GlobalRef):
                    self.call_function(m.functions[fnv.name], [])

    # ------------------------------------------------------------------ constants / operands
    def const_expr(self, v, lay):
        if v.op == "getelementptr":
            base = self.const_val(v.args[0][0], v.args[0][1], lay)
            idx = [(t, self.const_val(t, a, lay)) for (t, a) in v.args[1:]]
            return self.gep(base, v.extra, idx, lay)
        if v.op in ("bitcast", "addrspacecast"):
            return self.const_val(v.args[0][0], v.args[0][1], lay)
        if v.op == "ptrtoint":
            p = self.const_val(v.args[0][0], v.args[0][1], lay)
            if isinstance(p, Ptr) and p.is_null():
                return p.off
            raise ExecError("unsupported", "ptrtoint of non-null constant")
        if v.op == "inttoptr":
            x = self.const_val(v.args[0][0], v.args[0][1], lay)
            if x == 0:
                return NULL
            raise ExecError("unsupported", "inttoptr constant")
        if v.op in ir.BINOPS:
            t = v.args[0][0]
            a = self.const_val(t, v.args[0][1], lay)
            b = self.const_val(t, v.args[1][1], lay)
            return self.binop(v.op, lay.resolve(t).bits, a, b, [])
        raise ExecError("unsupported", "constant expression " + v.op)

    def const_val(self, ty, v, lay):
        if isinstance(v, ir.ConstInt):
            t = lay.resolve(ty)
            return v.v & mask(t.bits)
        if isinstance(v, ir.GlobalRef):
            if v.name in self.prog.gl:
                return Ptr(self.global_obj(v.name), 0)
            if v.name in self.prog.fn:
                return FnRef(v.name)
            raise ExecError("unsupported", "unknown symbol @" + v.name)
        if isinstance(v, ir.ConstNull):
            return NULL
        if isinstance(v, ir.ConstUndef):
            return UNDEF
        if isinstance(v, ir.ConstExpr):
            return self.const_expr(v, lay)
        if isinstance(v, ir.ConstZero):
            t = lay.resolve(ty)
            if isinstance(t, ir.IntTy):
                return 0
            if isinstance(t, ir.StructTy):
                return Agg([0 if isinstance(lay.resolve(e), ir.IntTy) else UNDEF for e in t.els])
        if isinstance(v, ir.ConstAgg):
            return Agg([self.const_val(t, e, lay) for (t, e) in v.els])
        raise ExecError("unsupported", "constant %r" % (v,))

    # ------------------------------------------------------------------ integer semantics
    def binop(self, op, bits, a, b, flags):
        if isinstance(a, Undef) or isinstance(b, Undef):
            raise ExecError("undef", "arithmetic on undef")
        if bits == 1 and (isinstance(a, (ACond, z3.BoolRef)) or isinstance(b, (ACond, z3.BoolRef))):
            return self._bool_binop(op, a, b)
        if isinstance(a, Ptr) or isinstance(b, Ptr):
            return self._ptr_arith(op, bits, a, b)
        m = mask(bits)
        if is_conc(a) and is_conc(b):
            if op == "add":
                r = a + b
                if "nuw" in flags and r > m:
                    raise MemViolation("ub", "nuw add overflows")
                if "nsw" in flags and not (-(1 << (bits - 1)) <= to_signed(a, bits) + to_signed(b, bits) < (1 << (bits - 1))):
                    raise MemViolation("ub", "nsw add overflows")
                return r & m
            if op == "sub":
                if "nuw" in flags and a < b:
                    raise MemViolation("ub", "nuw sub overflows")
                if "nsw" in flags and not (-(1 << (bits - 1)) <= to_signed(a, bits) - to_signed(b, bits) < (1 << (bits - 1))):
                    raise MemViolation("ub", "nsw sub overflows")
                return (a - b) & m
            if op == "mul":
                r = a * b
                if "nuw" in flags and r > m:
                    raise MemViolation("ub", "nuw mul overflows")
                return r & m
            if op == "and":
                return a & b
            if op == "or":
                return a | b
            if op == "xor":
                return a ^ b
            if op in ("shl", "lshr", "ashr"):
                if b >= bits:
                    raise MemViolation("ub", "shift amount %d >= width %d" % (b, bits))
                if op == "shl":
                    r = a << b
                    if "nuw" in flags and r > m:
                        raise MemViolation("ub", "nuw shl overflows")
                    return r & m
                if op == "lshr":
                    return a >> b
                return (to_signed(a, bits) >> b) & m
            if op in ("udiv", "urem", "sdiv", "srem"):
                if b == 0:
                    raise MemViolation("ub", "division by zero")
                if op == "udiv":
                    return a // b
                if op == "urem":
                    return a % b
                sa, sb = to_signed(a, bits), to_signed(b, bits)
                qq = abs(sa) // abs(sb)
                if (sa < 0) != (sb < 0):
                    qq = -qq
                if op == "sdiv":
                    return qq & m
                return (sa - qq * sb) & m
            raise ExecError("unsupported", "binop " + op)
        return self.sym_binop(op, bits, a, b, flags)

    def sym_binop(self, op, bits, a, b, flags):
        # cheap algebraic shortcuts keep terms small
        if op in ("and", "mul") and (a == 0 if is_conc(a) else False or (b == 0 if is_conc(b) else False)):
            return 0
        if op in ("add", "or", "xor", "shl", "lshr", "ashr", "sub") and is_conc(b) and b == 0:
            return a
        if op in ("add", "or", "xor") and is_conc(a) and a == 0:
            return b
        x = as_bv(a, bits)
        y = as_bv(b, bits)
        if op in ("shl", "lshr", "ashr"):
            self.check_vc(z3.ULT(y, bits), "ub", "shift amount may reach the bit width")
        if op in ("udiv", "urem", "sdiv", "srem"):
            self.check_vc(y != 0, "ub", "division by zero possible")
        if flags:
            self._check_wrap_flags(op, bits, x, y, flags)
        r = {
            "add": lambda: x + y, "sub": lambda: x - y, "mul": lambda: x * y,
            "and": lambda: x & y, "or": lambda: x | y, "xor": lambda: x ^ y,
            "shl": lambda: x << y, "lshr": lambda: z3.LShR(x, y), "ashr": lambda: x >> y,
            "udiv": lambda: z3.UDiv(x, y), "urem": lambda: z3.URem(x, y),
            "sdiv": lambda: x / y, "srem": lambda: z3.SRem(x, y),
        }[op]()
        return simp(r)

    def _check_wrap_flags(self, op, bits, x, y, flags):
        if op == "add":
            if "nuw" in flags:
                self.check_vc(z3.BVAddNoOverflow(x, y, False), "ub", "nuw add may overflow")
            if "nsw" in flags:
                self.check_vc(z3.And(z3.BVAddNoOverflow(x, y, True), z3.BVAddNoUnderflow(x, y)), "ub", "nsw add may overflow")
        elif op == "sub":
            if "nuw" in flags:
                self.check_vc(z3.UGE(x, y), "ub", "nuw sub may overflow")
            if "nsw" in flags:
                self.check_vc(z3.And(z3.BVSubNoOverflow(x, y), z3.BVSubNoUnderflow(x, y, True)), "ub", "nsw sub may overflow")
        elif op == "mul":
            if "nuw" in flags:
                self.check_vc(z3.BVMulNoOverflow(x, y, False), "ub", "nuw mul may overflow")
            if "nsw" in flags:
                self.check_vc(z3.And(z3.BVMulNoOverflow(x, y, True), z3.BVMulNoUnderflow(x, y)), "ub", "nsw mul may overflow")
        elif op == "shl":
            if "nuw" in flags:
                self.check_vc(z3.LShR(x << y, y) == x, "ub", "nuw shl may overflow")

    def _bool_binop(self, op, a, b):
        if isinstance(a, ACond) or isinstance(b, ACond):
            ca = a if isinstance(a, ACond) else None
            cb = b if isinstance(b, ACond) else None
            other = b if ca is not None and cb is None else (a if cb is not None and ca is None else None)
            if other is not None:
                c = ca or cb
                if is_conc(other):
                    if op == "xor":
                        return acond_not(c) if other else c
                    if op == "and":
                        return c if other else 0
                    if op == "or":
                        return 1 if other else c
                raise ExecError("unsupported", "mixing abstract and bit-vector predicates")
            if op == "and":
                return ACond("and", [a, b])
            if op == "or":
                return ACond("or", [a, b])
            if op == "xor":
                return ACond("or", [ACond("and", [a, acond_not(b)]), ACond("and", [acond_not(a), b])])
            raise ExecError("unsupported", "i1 op %s on abstract predicates" % op)
        x = as_bool(a)
        y = as_bool(b)
        if op == "and":
            return simp(z3.And(x, y))
        if op == "or":
            return simp(z3.Or(x, y))
        if op in ("xor", "add", "sub"):
            return simp(z3.Xor(x, y))
        raise ExecError("unsupported", "i1 op " + op)

    def _ptr_arith(self, op, bits, a, b):
        # only pointer difference / pointer +- int after ptrtoint are supported
        if isinstance(a, Ptr) and isinstance(b, Ptr) and op == "sub" and a.obj is b.obj:
            return self.binop("sub", bits, a.off, b.off, [])
        if isinstance(a, Ptr) and not isinstance(b, Ptr) and op in ("add", "sub"):
            return Ptr(a.obj, self.binop(op, bits, a.off, b, []))
        if isinstance(b, Ptr) and not isinstance(a, Ptr) and op == "add":
            return Ptr(b.obj, self.binop(op, bits, b.off, a, []))
        if op == "and" and isinstance(a, Ptr) and is_conc(b) and a.obj is not None:
            # alignment test idiom: ptr & (2^k - 1)
            if b < a.obj.align and (b & (b + 1)) == 0:
                return self.binop("and", bits, a.off, b, [])
            if (b & (b + 1)) == 0 and bits == 64:
                # the test asks for more than the object's declared alignment: the address becomes a symbolic multiple of that alignment,
                # the code may branch on it, and accesses that need more than the declared alignment are then decided against the path
                return simp((self.base_address(a.obj) + as_bv(a.off, 64)) & z3.BitVecVal(b, 64))
        raise ExecError("unsupported", "pointer arithmetic %s" % op)

    def base_address(self, o):
        ba = getattr(o, "base_sym", None)
        if ba is None:
            ba = o.base_sym = z3.BitVec("addr!%s!%d" % (o.name, o.id), 64)
            if o.align > 1:
                self.assumptions.append(z3.URem(ba, z3.BitVecVal(o.align, 64)) == 0)
        return ba

    def icmp(self, pred, bits, a, b):
        if isinstance(a, Ptr) or isinstance(b, Ptr):
            return self._ptr_cmp(pred, a, b)
        if isinstance(a, Undef) or isinstance(b, Undef):
            raise ExecError("undef", "icmp on undef")
        if isinstance(a, ZextCond) or isinstance(b, ZextCond):
            c, k = (a, b) if isinstance(a, ZextCond) else (b, a)
            if is_conc(k) and k in (0, 1) and pred in ("eq", "ne"):
                same = (pred == "eq") == bool(k)
                return c.cond if same else acond_not(c.cond)
            raise ExecError("unsupported", "icmp on widened abstract predicate")
        if bits == 1 and (isinstance(a, ACond) or isinstance(b, ACond)):
            # icmp eq/ne i1 x, const
            c, k = (a, b) if isinstance(a, ACond) else (b, a)
            if is_conc(k) and pred in ("eq", "ne"):
                same = (pred == "eq") == bool(k)
                return c if same else acond_not(c)
            raise ExecError("unsupported", "icmp on abstract predicate")
        if is_conc(a) and is_conc(b):
            sa, sb = to_signed(a, bits), to_signed(b, bits)
            return int({
                "eq": a == b, "ne": a != b, "ugt": a > b, "uge": a >= b, "ult": a < b, "ule": a <= b,
                "sgt": sa > sb, "sge": sa >= sb, "slt": sa < sb, "sle": sa <= sb}[pred])
        x = as_bv(a, bits)
        y = as_bv(b, bits)
        r = {
            "eq": lambda: x == y, "ne": lambda: x != y, "ugt": lambda: z3.UGT(x, y), "uge": lambda: z3.UGE(x, y),
            "ult": lambda: z3.ULT(x, y), "ule": lambda: z3.ULE(x, y), "sgt": lambda: x > y, "sge": lambda: x >= y,
            "slt": lambda: x < y, "sle": lambda: x <= y}[pred]()
        return simp(r)

    def _ptr_cmp(self, pred, a, b):
        if isinstance(a, FnRef) or isinstance(b, FnRef):
            if pred in ("eq", "ne"):
                same = isinstance(a, FnRef) and isinstance(b, FnRef) and a.name == b.name
                return int(same == (pred == "eq"))
        if not isinstance(a, Ptr) or not isinstance(b, Ptr):
            # comparison of pointer against integer 0
            if isinstance(a, Ptr) and is_conc(b) and b == 0:
                b = NULL
            elif isinstance(b, Ptr) and is_conc(a) and a == 0:
                a = NULL
            else:
                raise ExecError("unsupported", "pointer/int comparison")
        if a.obj is None or b.obj is None:
            if pred in ("eq", "ne"):
                same = a.obj is None and b.obj is None
                return int(same == (pred == "eq"))
            raise ExecError("unsupported", "ordering against null")
        if a.obj is b.obj:
            return self.icmp(pred, 64, a.off, b.off)
        if pred in ("eq", "ne"):
            return int(pred == "ne")
        raise ExecError("unsupported", "ordering of pointers into different objects")

    def cast(self, op, frm_bits, to_bits, a):
        if isinstance(a, Undef):
            return a
        if isinstance(a, ACond):
            if op in ("zext",):
                return ZextCond(a, to_bits)
            raise ExecError("unsupported", "cast %s of abstract predicate" % op)
        if isinstance(a, ZextCond):
            if op in ("zext",):
                return ZextCond(a.cond, to_bits)
            if op == "trunc":
                return a.cond if to_bits == 1 else ZextCond(a.cond, to_bits)
            raise ExecError("unsupported", "cast of abstract predicate")
        if is_conc(a):
            if op == "zext":
                return a
            if op == "sext":
                return to_signed(a, frm_bits) & mask(to_bits)
            if op == "trunc":
                return a & mask(to_bits)
        if isinstance(a, z3.BoolRef):
            if op == "zext":
                return z3.If(a, z3.BitVecVal(1, to_bits), z3.BitVecVal(0, to_bits))
            if op == "sext":
                return z3.If(a, z3.BitVecVal(mask(to_bits), to_bits), z3.BitVecVal(0, to_bits))
            if op == "trunc":
                return a
        x = as_bv(a, frm_bits)
        if op == "zext":
            return simp(z3.ZeroExt(to_bits - frm_bits, x))
        if op == "sext":
            return simp(z3.SignExt(to_bits - frm_bits, x))
        if op == "trunc":
            r = simp(z3.Extract(to_bits - 1, 0, x))
            if to_bits == 1 and not is_conc(r):
                return simp(r == 1)
            return r
        raise ExecError("unsupported", "cast " + op)

    # ------------------------------------------------------------------ solver plumbing
    def feasible(self, cond):
        s = self.solver
        s.push()
        try:
            for a in self.assumptions:
                s.add(a)
            for c in self.path.pc:
                s.add(c)
            s.add(cond)
            r = s.check()
        finally:
            s.pop()
        if r == z3.unknown:
            raise ExecError("solver", "unknown on feasibility query")
        return r == z3.sat

    def _feasible_bounded(self, cond, ms):
        s = self.solver
        s.push()
        try:
            s.set("timeout", ms)
            for a in self.assumptions:
                s.add(a)
            for c in self.path.pc:
                s.add(c)
            s.add(cond)
            r = s.check()
        finally:
            s.pop()
            s.set("timeout", self.solver_timeout_ms)
        return r != z3.unsat

    def check_vc(self, cond, kind, msg):
        """A-MEM verification condition under the current path condition; violated -> MemViolation with model"""
        s = self.solver
        s.push()
        try:
            for a in self.assumptions:
                s.add(a)
            for c in self.path.pc:
                s.add(c)
            s.add(z3.Not(cond))
            r = s.check()
            if r == z3.sat:
                mdl = s.model()
                e = MemViolation(kind, msg + " @ " + " > ".join(self.callstack[-3:]))
                e.model = mdl
                raise e
            if r == z3.unknown:
                raise ExecError("solver", "unknown on VC: " + msg)
        finally:
            s.pop()
        self.vc_count = getattr(self, "vc_count", 0) + 1

    def branch(self, cond):
        """returns python bool; forks on symbolic conditions"""
        cond = as_bool(cond) if not isinstance(cond, bool) else cond
        if isinstance(cond, bool):
            return cond
        if isinstance(cond, ZextCond):
            cond = cond.cond
        if isinstance(cond, ACond):
            return self._branch_acond(cond)
        cond = z3.simplify(cond)
        if z3.is_true(cond):
            return True
        if z3.is_false(cond):
            return False
        p = self.path
        # a condition already decided on this path (syntactically the same term, or its negation) needs neither the solver nor a decision:
        # the shortcut depends only on earlier decisions, so replays stay aligned
        neg = z3.is_not(cond)
        kid = (cond.arg(0) if neg else cond).get_id()
        if kid in p.known:
            return p.known[kid] != neg
        if p.idx < len(p.decisions):
            d = p.decisions[p.idx]
            p.idx += 1
        else:
            if self.lazy_feasibility is True:
                can_t = can_f = True      # fork without asking the solver; the harness discharges infeasible paths with its VCs
            elif self.lazy_feasibility:
                # bounded effort: a side whose feasibility is not decided within the given milliseconds is explored (over-approximation)
                can_t = self._feasible_bounded(cond, self.lazy_feasibility)
                can_f = self._feasible_bounded(z3.Not(cond), self.lazy_feasibility)
            else:
                can_t = self.feasible(cond)
                can_f = self.feasible(z3.Not(cond))
            if can_t and can_f:
                self.pending.append(p.decisions + [False])
                d = True
            elif can_t:
                d = True      # implied by the path condition: recorded all the same, so that replays of a decision prefix stay aligned
            elif can_f:
                d = False
            else:
                raise PathAbort()
            p.decisions.append(d)
            p.idx += 1
        p.pc.append(cond if d else z3.Not(cond))
        p.taken.append((cond, d))
        p.known[kid] = (d != neg)
        p.keep.append(cond)          # keeps the term alive so that its id is not reused
        return d

    def concretize(self, v, bits, limit=64):
        """fork on every feasible value of a symbolic integer (used for small table indices)"""
        if is_conc(v):
            return v
        p = self.path
        x = as_bv(v, bits)
        if p.idx < len(p.decisions):
            val = p.decisions[p.idx]
            p.idx += 1
        else:
            vals = []
            s = self.solver
            s.push()
            try:
                for a in self.assumptions:
                    s.add(a)
                for c in p.pc:
                    s.add(c)
                while len(vals) <= limit:
                    r = s.check()
                    if r == z3.unknown:
                        raise ExecError("solver", "unknown while enumerating values")
                    if r == z3.unsat:
                        break
                    val = s.model().eval(x, model_completion=True).as_long()
                    vals.append(val)
                    s.add(x != val)
            finally:
                s.pop()
            if len(vals) > limit:
                raise ExecError("budget", "more than %d feasible values for a concretised integer" % limit)
            if not vals:
                raise PathAbort()
            vals.sort()
            for other in vals[1:]:
                self.pending.append(p.decisions + [other])
            val = vals[0]
            p.decisions.append(val)
            p.idx += 1
        p.pc.append(x == val)
        p.taken.append((x == val, True))
        return val

    def _branch_acond(self, c):
        if c.kind == "not":
            return not self._branch_acond(c.args[0])
        if c.kind == "and":
            return self._branch_acond(c.args[0]) and self._branch_acond(c.args[1])
        if c.kind == "or":
            return self._branch_acond(c.args[0]) or self._branch_acond(c.args[1])
        atom = c.args
        p = self.path
        # same atom decided earlier on this path?
        for (a, t) in p.hyps:
            if a is atom or (self.oracle is not None and self.oracle.same_atom(a, atom)):
                return t
        r = self.oracle.decide(atom, p) if self.oracle else None
        if r is None:
            if p.idx < len(p.decisions):
                d = p.decisions[p.idx]
                p.idx += 1
            else:
                self.pending.append(p.decisions + [False])
                d = True
                p.decisions.append(d)
                p.idx += 1
            r = d
            p.hyps.append((atom, r))
            if self.oracle is not None:
                self.oracle.assume(atom, r, p)
        return r

    # ------------------------------------------------------------------ memory
    def _check_access(self, p, size, align, write):
        if not isinstance(p, Ptr):
            raise ExecError("unsupported", "memory access through %r" % (p,))
        if p.obj is None:
            raise MemViolation("null", "access through null pointer")
        o = p.obj
        if o.dead:
            raise MemViolation("lifetime", "access to dead object %s" % o.name)
        if write and o.const:
            raise MemViolation("const", "write to constant %s" % o.name)
        if is_conc(p.off) and is_conc(o.size):
            if p.off < 0 or p.off + size > o.size:
                raise MemViolation("oob", "%s of %d bytes at %s+%d (size %d)" % ("write" if write else "read", size, o.name, p.off, o.size))
        else:
            off = as_bv(p.off, 64)
            osz = as_bv(o.size, 64)
            self.check_vc(z3.And(z3.ULE(off, osz), z3.ULE(z3.BitVecVal(size, 64), osz - off)), "oob",
                          "%s of %d bytes may leave %s" % ("write" if write else "read", size, o.name))
        if align and align > 1 and self.check_align:
            if o.align % align != 0 and not (is_conc(p.off) and False):
                if o.align < align:
                    if getattr(o, "base_sym", None) is not None:
                        # the code has looked at the address: the access is fine exactly when the path taken implies the alignment
                        self.check_vc(z3.URem(o.base_sym + as_bv(p.off, 64), z3.BitVecVal(align, 64)) == 0, "align",
                                      "access with alignment %d to %s (base alignment %d) on a path whose address tests do not imply it" % (align, o.name, o.align))
                        return
                    raise MemViolation("align", "access with alignment %d to %s (base alignment %d)" % (align, o.name, o.align))
            if is_conc(p.off):
                if p.off % align != 0:
                    raise MemViolation("align", "access with alignment %d at offset %d of %s" % (align, p.off, o.name))
            else:
                self.check_vc(z3.URem(as_bv(p.off, 64), z3.BitVecVal(align, 64)) == 0, "align", "misaligned access possible")

    def unwritten(self, o, off, size):
        """no cell of the object overlaps [off, off+size): nothing was ever stored there (uninitialised for allocas and output arguments)"""
        if not is_conc(off):
            return False
        for co, (cs, _) in o.cells.items():
            if is_conc(co) and co < off + size and off < co + cs:
                return False
        return o.kind in ("alloca", "arg", "heap") and not o.const

    def load_bytes(self, o, off, size):
        """little-endian composite of [off, off+size) as python int / BitVecRef; raises on uninit/abstract"""
        c = o.cells.get(off)
        if c is not None and c[0] == size and (is_conc(c[1]) or isinstance(c[1], z3.BitVecRef)):
            return c[1]
        parts = []
        pos = off
        end = off + size
        cells = sorted((co, cs, cv) for co, (cs, cv) in o.cells.items() if co < end and co + cs > off)
        for co, cs, cv in cells:
            if co > pos:
                raise MemViolation("uninit", "read of uninitialised bytes %s+%d..%d" % (o.name, pos, co))
            if isinstance(cv, (Ptr, FnRef)) or not (is_conc(cv) or isinstance(cv, (z3.BitVecRef, z3.BoolRef))):
                raise ExecError("abstract-bytes", "byte-level read of abstract cell %s+%d (%s)" % (o.name, co, type(cv).__name__))
            lo = max(pos, co) - co
            hi = min(end, co + cs) - co
            if is_conc(cv):
                piece = (cv >> (8 * lo)) & mask(8 * (hi - lo))
            else:
                piece = z3.Extract(8 * hi - 1, 8 * lo, as_bv(cv, cs * 8))
            parts.append((hi - lo, piece))
            pos = co + hi
        if pos < end:
            raise MemViolation("uninit", "read of uninitialised bytes %s+%d..%d" % (o.name, pos, end))
        if all(is_conc(pc) for _, pc in parts):
            v = 0
            sh = 0
            for n, pc in parts:
                v |= pc << sh
                sh += 8 * n
            return v
        bvs = [as_bv(pc, 8 * n) for n, pc in parts]
        return simp(z3.Concat(*reversed(bvs))) if len(bvs) > 1 else simp(bvs[0])

    def clear_range(self, o, off, size):
        end = off + size
        for co in [co for co, (cs, cv) in o.cells.items() if co < end and co + cs > off]:
            cs, cv = o.cells.pop(co)
            if co >= off and co + cs <= end:
                continue
            if isinstance(cv, (Ptr, FnRef)) or not (is_conc(cv) or isinstance(cv, z3.BitVecRef)):
                raise ExecError("abstract-bytes", "partial overwrite of abstract cell %s+%d" % (o.name, co))
            if co < off:
                n = off - co
                o.cells[co] = (n, (cv & mask(8 * n)) if is_conc(cv) else simp(z3.Extract(8 * n - 1, 0, cv)))
            if co + cs > end:
                n = co + cs - end
                lo = end - co
                o.cells[end] = (n, (cv >> (8 * lo)) if is_conc(cv) else simp(z3.Extract(8 * cs - 1, 8 * lo, cv)))

    def store_cell(self, o, off, size, val):
        self.clear_range(o, off, size)
        o.cells[off] = (size, val)
        o.written = True

    def load(self, p, ty, lay, align=None):
        t = lay.resolve(ty)
        size = lay.size(t)
        self._check_access(p, size, align, False)
        o = p.obj
        if not is_conc(p.off):
            return self._load_symoff(o, p.off, t, size, lay)
        if getattr(o, "sym_array", None) is not None and isinstance(t, ir.IntTy) and p.off not in o.cells:
            return self._load_symoff(o, p.off, t, size, lay)
        if isinstance(t, ir.PtrTy):
            c = o.cells.get(p.off)
            if c is None:
                raise MemViolation("uninit", "read of uninitialised pointer %s+%d" % (o.name, p.off))
            if c[0] == size and isinstance(c[1], (Ptr, FnRef)):
                return c[1]
            if c[0] == size and is_conc(c[1]) and c[1] == 0:
                return NULL
            raise ExecError("unsupported", "pointer load from non-pointer cell %s+%d" % (o.name, p.off))
        if isinstance(t, ir.IntTy):
            c = o.cells.get(p.off)
            if c is not None and c[0] == size and isinstance(c[1], (ACond, ZextCond, z3.BoolRef)):
                return c[1] if t.bits != 1 or not isinstance(c[1], ZextCond) else c[1].cond
            v = self.load_bytes(o, p.off, size)
            if t.bits < size * 8:
                v = v & mask(t.bits) if is_conc(v) else simp(z3.Extract(t.bits - 1, 0, v))
            if t.bits == 1 and not is_conc(v):
                v = simp(v == 1)
            return v
        raise ExecError("unsupported", "load of type %r" % (t,))

    def _load_symoff(self, o, off, t, size, lay):
        arr = getattr(o, "sym_array", None)
        if arr is not None and isinstance(t, ir.IntTy):
            # object modelled as a z3 array of bytes (index: 64-bit byte offset): used for digit strings read at a symbolic index
            offbv = as_bv(off, 64)
            bs = [z3.Select(arr, offbv + k) for k in range(size)]
            v = z3.Concat(*reversed(bs)) if size > 1 else bs[0]
            if t.bits < size * 8:
                v = z3.Extract(t.bits - 1, 0, v)
            return simp(v)
        if not isinstance(t, ir.IntTy) or not is_conc(o.size):
            raise ExecError("unsupported", "symbolic-offset load of %r from %s" % (t, o.name))
        offbv = as_bv(off, 64)
        res = None
        for k in range(0, o.size - size + 1, size):
            if not self.feasible(offbv == k):
                continue
            v = self.load_bytes(o, k, size)
            v = as_bv(v, size * 8)
            res = v if res is None else z3.If(offbv == k, v, res)
        if res is None:
            raise PathAbort()
        if t.bits < size * 8:
            res = z3.Extract(t.bits - 1, 0, res)
        return simp(res)

    def store(self, p, ty, val, lay, align=None):
        t = lay.resolve(ty)
        size = lay.size(t)
        self._check_access(p, size, align, True)
        if not is_conc(p.off):
            return self._store_symoff(p.obj, p.off, t, size, val)
        if isinstance(val, Undef):
            self.clear_range(p.obj, p.off, size)
            return
        if isinstance(t, ir.IntTy) and t.bits == 1:
            if isinstance(val, z3.BoolRef):
                val = z3.If(val, z3.BitVecVal(1, 8), z3.BitVecVal(0, 8))
            elif isinstance(val, ACond):
                val = ZextCond(val, 8)
        elif isinstance(t, ir.IntTy) and t.bits < size * 8 and not is_conc(val) and isinstance(val, z3.BitVecRef):
            val = z3.ZeroExt(size * 8 - t.bits, val)
        self.store_cell(p.obj, p.off, size, val)

    def _store_symoff(self, o, off, t, size, val):
        if not is_conc(o.size):
            raise ExecError("unsupported", "symbolic-offset store into symbolic-size object")
        offbv = as_bv(off, 64)
        cands = [k for k in range(0, o.size - size + 1, size) if self.feasible(offbv == k)]
        if not cands:
            raise PathAbort()
        if len(cands) == 1:
            self.store_cell(o, cands[0], size, val)
            return
        for k in cands:
            try:
                old = self.load_bytes(o, k, size)
            except MemViolation:
                old = self.fresh("uninit", size * 8)
            new = z3.If(offbv == k, as_bv(val, size * 8), as_bv(old, size * 8))
            self.store_cell(o, k, size, simp(new))

    def memcpy(self, dst, src, n, move=False):
        if not is_conc(n):
            raise ExecError("unsupported", "memcpy with symbolic length")
        if n == 0:
            return
        self._check_access(dst, n, 1, True)
        self._check_access(src, n, 1, False)
        if not (is_conc(dst.off) and is_conc(src.off)):
            raise ExecError("unsupported", "memcpy with symbolic offsets")
        so, do = src.obj, dst.obj
        if so is do and dst.off == src.off:
            return
        if so is do and not move and src.off < dst.off + n and dst.off < src.off + n:
            raise MemViolation("overlap", "memcpy with overlapping ranges in %s" % so.name)
        # snapshot source cells clipped to the range
        pieces = []
        end = src.off + n
        for co, (cs, cv) in sorted(so.cells.items()):
            if co + cs <= src.off or co >= end:
                continue
            if co >= src.off and co + cs <= end:
                pieces.append((co - src.off, cs, cv))
            else:
                lo = max(co, src.off)
                hi = min(co + cs, end)
                if isinstance(cv, (Ptr, FnRef)) or not (is_conc(cv) or isinstance(cv, z3.BitVecRef)):
                    raise ExecError("abstract-bytes", "memcpy splits abstract cell %s+%d" % (so.name, co))
                if is_conc(cv):
                    v = (cv >> (8 * (lo - co))) & mask(8 * (hi - lo))
                else:
                    v = simp(z3.Extract(8 * (hi - co) - 1, 8 * (lo - co), cv))
                pieces.append((lo - src.off, hi - lo, v))
        self.clear_range(do, dst.off, n)
        for rel, cs, cv in pieces:
            do.cells[dst.off + rel] = (cs, cv)
        do.written = True

    def memset(self, dst, byte, n):
        if not is_conc(n):
            raise ExecError("unsupported", "memset with symbolic length")
        if n == 0:
            return
        self._check_access(dst, n, 1, True)
        if not is_conc(dst.off):
            raise ExecError("unsupported", "memset with symbolic offset")
        self.clear_range(dst.obj, dst.off, n)
        if is_conc(byte):
            # word-sized cells keep later word loads cheap
            pos = dst.off
            end = dst.off + n
            b = byte & 0xff
            while pos < end:
                step = 8 if (pos % 8 == 0 and pos + 8 <= end) else 1
                dst.obj.cells[pos] = (step, int.from_bytes(bytes([b]) * step, "little"))
                pos += step
        else:
            for i in range(n):
                dst.obj.cells[dst.off + i] = (1, byte)
        dst.obj.written = True

    def memcmp(self, a, b, n, is_bcmp):
        if not is_conc(n):
            raise ExecError("unsupported", "memcmp with symbolic length")
        if n == 0:
            return 0
        self._check_access(a, n, 1, False)
        self._check_access(b, n, 1, False)
        hook = getattr(self, "memcmp_hook", None)
        if hook is not None:
            r = hook(a, b, n)
            if r is not None:
                return r
        xa = [self.load_bytes(a.obj, a.off + i, 1) for i in range(n)]
        xb = [self.load_bytes(b.obj, b.off + i, 1) for i in range(n)]
        if all(is_conc(v) for v in xa + xb):
            for u, v in zip(xa, xb):
                if u != v:
                    return (1 if u > v else mask(32)) if not is_bcmp else 1
            return 0
        res = z3.BitVecVal(0, 32)
        for u, v in reversed(list(zip(xa, xb))):
            u8, v8 = as_bv(u, 8), as_bv(v, 8)
            res = z3.If(u8 == v8, res, z3.If(z3.ULT(u8, v8), z3.BitVecVal(mask(32), 32), z3.BitVecVal(1, 32)))
        return simp(res)

    # ------------------------------------------------------------------ GEP
    def gep(self, base, srcty, idx, lay):
        if isinstance(base, Undef):
            raise ExecError("undef", "gep on undef")
        if not isinstance(base, Ptr):
            raise ExecError("unsupported", "gep on %r" % (base,))
        off = base.off
        ty = srcty
        first = True
        for (it, iv) in idx:
            ibits = lay.resolve(it).bits
            if first:
                es = lay.size(ty)
                off = self._addoff(off, iv, ibits, es)
                first = False
                continue
            t = lay.resolve(ty)
            if isinstance(t, ir.StructTy):
                if not is_conc(iv):
                    raise ExecError("unsupported", "symbolic struct index")
                fo, ft = lay.field_offset(t, iv)
                off = self._addoff(off, fo, 64, 1)
                ty = ft
            elif isinstance(t, ir.ArrTy):
                es = lay.size(t.el)
                off = self._addoff(off, iv, ibits, es)
                ty = t.el
            else:
                raise ExecError("unsupported", "gep into %r" % (t,))
        return Ptr(base.obj, off)

    def _addoff(self, off, iv, ibits, scale):
        if is_conc(iv):
            d = to_signed(iv, ibits) * scale
            if is_conc(off):
                return off + d
            return simp(off + z3.BitVecVal(d & mask(64), 64))
        x = as_bv(iv, ibits)
        if ibits < 64:
            x = z3.SignExt(64 - ibits, x)
        elif ibits > 64:
            x = z3.Extract(63, 0, x)
        r = as_bv(off, 64) + x * z3.BitVecVal(scale, 64)
        return simp(r)

    # ------------------------------------------------------------------ calls
    def add_intercept(self, pattern, handler, tag=None):
        self.intercepts.append((re.compile(pattern), handler, tag or pattern))
        self._icache.clear()

    def find_intercept(self, name):
        if name in self._icache:
            return self._icache[name]
        d = self.prog.demangled.get(name, name)
        r = None
        for rx, h, tag in self.intercepts:
            if rx.fullmatch(d) or rx.fullmatch(name):
                r = (h, tag)
                break
        self._icache[name] = r
        return r

    def call_named(self, name, args, site=None):
        if self.trace_calls is not None:
            self.trace_calls.append((name, list(args)))
        ic = self.find_intercept(name)
        if ic is not None:
            h, tag = ic
            self.intercept_hits[tag] = self.intercept_hits.get(tag, 0) + 1
            return h(self, name, args, site)
        if name.startswith("llvm."):
            return self.intrinsic(name, args)
        if name in ("memcpy", "memmove"):
            self.memcpy(args[0], args[1], args[2], move=(name == "memmove"))
            return args[0]
        if name == "memset":
            self.memset(args[0], self.cast("trunc", 32, 8, args[1]), args[2])
            return args[0]
        if name in ("memcmp", "bcmp"):
            return self.memcmp(args[0], args[1], args[2], name == "bcmp")
        f = self.prog.fn.get(name)
        if self._mod_stack:
            # a definition in the calling function's own module wins (internal-linkage names such as __cxx_global_var_init
            # exist once per TU)
            lf = self._mod_stack[-1].functions.get(name)
            if lf is not None and not lf.is_decl:
                f = lf
        if f is None or f.is_decl:
            if self.external_handler is not None:
                return self.external_handler(self, name, args, site)
            d = self.prog.demangled.get(name, name)
            if "::" in d and d.rstrip().endswith(")") and args and isinstance(args[0], Ptr) and args[0].obj is not None and args[0].obj.const:
                # a mutating (non-const) member function, whose body this program does not contain, is called on an object the harness handed
                # over as a read-only input: the callee writes *this
                raise MemViolation("const", "non-const member %s called on the read-only input %s" % (d.split("(")[0], args[0].obj.name))
            raise ExecError("unsupported", "call to external function " + name)
        return self.call_function(f, args)

    def intrinsic(self, name, args):
        if name.startswith("llvm.lifetime.start"):
            p = args[1]
            if isinstance(p, Ptr) and p.obj is not None and p.obj.kind == "alloca" and is_conc(p.off) and p.off == 0:
                p.obj.cells.clear()
            return None
        if name.startswith("llvm.lifetime.end"):
            p = args[1]
            if self.keep_after_lifetime_end:
                return None
            if isinstance(p, Ptr) and p.obj is not None and p.obj.kind == "alloca" and is_conc(p.off) and p.off == 0:
                p.obj.cells.clear()
            return None
        if name.startswith("llvm.invariant.") or name.startswith("llvm.assume") or name.startswith("llvm.experimental.noalias") \
                or name.startswith("llvm.dbg."):
            return None
        if name.startswith("llvm.memcpy") or name.startswith("llvm.memmove"):
            self.memcpy(args[0], args[1], args[2], move=name.startswith("llvm.memmove"))
            return None
        if name.startswith("llvm.memset"):
            self.memset(args[0], args[1], args[2])
            return None
        m = re.match(r"llvm\.(u|s)(add|sub|mul)\.with\.overflow\.i(\d+)", name)
        if m:
            bits = int(m.group(3))
            a, b = args
            op = m.group(2)
            if m.group(1) == "u":
                wa = self.cast("zext", bits, 2 * bits, a)
                wb = self.cast("zext", bits, 2 * bits, b)
                w = self.binop(op, 2 * bits, wa, wb, [])
                r = self.cast("trunc", 2 * bits, bits, w)
                if op == "sub":
                    ov = self.icmp("ult", bits, a, b)
                else:
                    ov = self.icmp("ne", 2 * bits, self.binop("lshr", 2 * bits, w, bits, []), 0)
                return Agg([r, ov])
            raise ExecError("unsupported", name)
        m = re.match(r"llvm\.(umin|umax|smin|smax)\.i(\d+)", name)
        if m:
            bits = int(m.group(2))
            pred = {"umin": "ult", "umax": "ugt", "smin": "slt", "smax": "sgt"}[m.group(1)]
            c = self.icmp(pred, bits, args[0], args[1])
            return self.select(c, args[0], args[1], bits)
        m = re.match(r"llvm\.bswap\.i(\d+)", name)
        if m:
            bits = int(m.group(1))
            a = args[0]
            if is_conc(a):
                return int.from_bytes(a.to_bytes(bits // 8, "little"), "big")
            x = as_bv(a, bits)
            return simp(z3.Concat(*[z3.Extract(8 * i + 7, 8 * i, x) for i in range(bits // 8)]))
        m = re.match(r"llvm\.fsh(l|r)\.i(\d+)", name)
        if m:
            bits = int(m.group(2))
            a, b, c = args
            wa = self.cast("zext", bits, 2 * bits, a)
            wb = self.cast("zext", bits, 2 * bits, b)
            w = self.binop("or", 2 * bits, self.binop("shl", 2 * bits, wa, bits, []), wb, [])
            cm = self.binop("urem", bits, c, bits, [])
            cw = self.cast("zext", bits, 2 * bits, cm)
            if m.group(1) == "l":
                w = self.binop("shl", 2 * bits, w, cw, [])
                return self.cast("trunc", 2 * bits, bits, self.binop("lshr", 2 * bits, w, bits, []))
            w = self.binop("lshr", 2 * bits, w, cw, [])
            return self.cast("trunc", 2 * bits, bits, w)
        raise ExecError("unsupported", "intrinsic " + name)

    def select(self, c, a, b, bits=None):
        if isinstance(c, ZextCond):
            c = c.cond
        if isinstance(c, ACond):
            return a if self.branch(c) else b
        if is_conc(c):
            return a if c else b
        cb = as_bool(c)
        if isinstance(a, (Ptr, FnRef)) or isinstance(b, (Ptr, FnRef)):
            if isinstance(a, Ptr) and isinstance(b, Ptr) and a.obj is b.obj:
                return Ptr(a.obj, simp(z3.If(cb, as_bv(a.off, 64), as_bv(b.off, 64))))
            return a if self.branch(cb) else b
        if isinstance(a, Undef):
            return b
        if isinstance(b, Undef):
            return a
        if isinstance(a, (ACond, z3.BoolRef)) or isinstance(b, (ACond, z3.BoolRef)) or bits == 1:
            if isinstance(a, ACond) or isinstance(b, ACond):
                return a if self.branch(cb) else b
            return simp(z3.If(cb, as_bool(a) if not is_conc(a) else z3.BoolVal(bool(a)),
                              as_bool(b) if not is_conc(b) else z3.BoolVal(bool(b))))
        if isinstance(a, ZextCond) or isinstance(b, ZextCond):
            return a if self.branch(cb) else b
        if bits is None:
            bits = a.size() if isinstance(a, z3.BitVecRef) else b.size()
        return simp(z3.If(cb, as_bv(a, bits), as_bv(b, bits)))

    def call_function(self, fn, args):
        if len(self.callstack) > self.max_call_depth:
            raise ExecError("unsupported", "call depth")
        self.callstack.append(self.prog.demangled.get(fn.name, fn.name).split("(")[0][-60:])
        self._mod_stack.append(fn.module)
        try:
            return self._exec(fn, args)
        finally:
            self.callstack.pop()
            self._mod_stack.pop()

    def operand(self, v, ty, regs, lay):
        if isinstance(v, ir.Reg):
            try:
                return regs[v.name]
            except KeyError:
                raise ExecError("unsupported", "use of undefined register %" + v.name)
        return self.const_val(ty, v, lay)

    def run_from(self, fn, block, prev, regs):
        """continue `fn` at the entry of `block` (as if coming from `prev`) with the given register file: used by harnesses that cut a
        function into segments between chosen blocks; the register file is typically the one carried by a LoopCut"""
        self.callstack.append(self.prog.demangled.get(fn.name, fn.name).split("(")[0][-60:])
        self._mod_stack.append(fn.module)
        try:
            return self._exec(fn, None, start=(block, prev, dict(regs)))
        finally:
            self.callstack.pop()
            self._mod_stack.pop()

    def _exec(self, fn, args, start=None):
        EXECUTED.add(fn.name)
        lay = self.prog.layout(fn.module)
        regs = {}
        allocas = []
        if start is not None:
            block, prev, regs = start
        else:
            if len(args) != len(fn.params):
                raise ExecError("unsupported", "arity mismatch calling " + fn.name)
            for prm, a in zip(fn.params, args):
                regs[prm.name] = a
            block = fn.order[0]
            prev = None
        try:
            while True:
                instrs = fn.blocks[block]
                if self.loop_hook is not None:
                    r = self.loop_hook(self, fn, block, prev, regs)
                    if r is not None:
                        return r[0]
                # phis first, evaluated simultaneously
                k = 0
                newvals = []
                while k < len(instrs) and instrs[k].op == "phi":
                    ins = instrs[k]
                    for (v, lab) in ins.args:
                        if lab == prev:
                            newvals.append((ins.res, self.operand(v, ins.ty, regs, lay)))
                            break
                    else:
                        raise ExecError("unsupported", "phi without incoming for %s" % prev)
                    k += 1
                for r, v in newvals:
                    regs[r] = v
                if self.phi_hook is not None and k:
                    # loop-cut support: called after the phis of a block have been evaluated; may overwrite them (havoc) or
                    # raise LoopCut to end the path at a back edge
                    self.phi_hook(self, fn, block, prev, regs)
                nxt = None
                for ins in instrs[k:]:
                    self.steps += 1
                    if self.steps > self.MAX_STEPS:
                        raise ExecError("budget", "step budget exhausted")
                    op = ins.op
                    if op == "call":
                        rv = self._do_call(ins, regs, lay)
                        if ins.res is not None:
                            regs[ins.res] = rv
                    elif op == "getelementptr":
                        base = self.operand(ins.args[0][1], ins.args[0][0], regs, lay)
                        idx = [(t, self.operand(v, t, regs, lay)) for (t, v) in ins.args[1:]]
                        regs[ins.res] = self.gep(base, ins.ty, idx, lay)
                    elif op == "bitcast":
                        regs[ins.res] = self.operand(ins.args[0], ins.extra, regs, lay)
                    elif op == "load":
                        p = self.operand(ins.args[0], None, regs, lay)
                        regs[ins.res] = self.load(p, ins.ty, lay, ins.extra)
                    elif op == "store":
                        v = self.operand(ins.args[0], ins.ty, regs, lay)
                        p = self.operand(ins.args[1], None, regs, lay)
                        self.store(p, ins.ty, v, lay, ins.extra)
                    elif op == "alloca":
                        size, al = lay.size_align(ins.ty)
                        if ins.args:
                            cnt = self.operand(ins.args[0][1], ins.args[0][0], regs, lay)
                            if not is_conc(cnt):
                                raise ExecError("unsupported", "symbolic alloca count")
                            size *= cnt
                        o = Obj("%s.%%%s" % (self.callstack[-1] if self.callstack else fn.name, ins.res), size, "alloca", ins.extra or al)
                        allocas.append(o)
                        regs[ins.res] = Ptr(o, 0)
                    elif op in ir.BINOPS:
                        t = lay.resolve(ins.ty)
                        a = self.operand(ins.args[0], ins.ty, regs, lay)
                        b = self.operand(ins.args[1], ins.ty, regs, lay)
                        regs[ins.res] = self.binop(op, t.bits, a, b, ins.extra)
                    elif op == "icmp":
                        t = lay.resolve(ins.ty)
                        a = self.operand(ins.args[0], ins.ty, regs, lay)
                        b = self.operand(ins.args[1], ins.ty, regs, lay)
                        bits = t.bits if isinstance(t, ir.IntTy) else 64
                        regs[ins.res] = self.icmp(ins.extra, bits, a, b)
                    elif op in ("zext", "sext", "trunc"):
                        a = self.operand(ins.args[0], ins.extra, regs, lay)
                        regs[ins.res] = self.cast(op, lay.resolve(ins.extra).bits, lay.resolve(ins.ty).bits, a)
                    elif op == "select":
                        c = self.operand(ins.args[0], ir.IntTy(1), regs, lay)
                        a = self.operand(ins.args[1], ins.ty, regs, lay)
                        b = self.operand(ins.args[2], ins.ty, regs, lay)
                        t = lay.resolve(ins.ty)
                        regs[ins.res] = self.select(c, a, b, t.bits if isinstance(t, ir.IntTy) else None)
                    elif op == "br":
                        if not ins.args:
                            nxt = ins.extra[0]
                        else:
                            c = self.operand(ins.args[0], ir.IntTy(1), regs, lay)
                            nxt = ins.extra[0] if self.branch(c) else ins.extra[1]
                        break
                    elif op == "switch":
                        t = lay.resolve(ins.ty)
                        c = self.operand(ins.args[0], ins.ty, regs, lay)
                        dflt, cases = ins.extra
                        nxt = dflt
                        for cv, lab in cases:
                            if self.branch(self.icmp("eq", t.bits, c, cv & mask(t.bits))):
                                nxt = lab
                                break
                        break
                    elif op == "ret":
                        if ins.args:
                            return self.operand(ins.args[0], ins.ty, regs, lay)
                        return None
                    elif op == "freeze":
                        regs[ins.res] = self.operand(ins.args[0], ins.ty, regs, lay)
                    elif op == "extractvalue":
                        a = self.operand(ins.args[0], ins.ty, regs, lay)
                        for i in ins.extra:
                            a = a.els[i]
                        regs[ins.res] = a
                    elif op == "insertvalue":
                        a = self.operand(ins.args[0], ins.ty, regs, lay)
                        b = self.operand(ins.args[1], ins.extra[0], regs, lay)
                        t = lay.resolve(ins.ty)
                        els = list(a.els) if isinstance(a, Agg) else [UNDEF] * len(t.els)
                        if len(ins.extra[1]) != 1:
                            raise ExecError("unsupported", "nested insertvalue")
                        els[ins.extra[1][0]] = b
                        regs[ins.res] = Agg(els)
                    elif op == "ptrtoint":
                        regs[ins.res] = self.operand(ins.args[0], ins.extra, regs, lay)
                    elif op == "inttoptr":
                        v = self.operand(ins.args[0], ins.extra, regs, lay)
                        if is_conc(v) and v == 0:
                            v = NULL
                        if not isinstance(v, Ptr):
                            raise ExecError("unsupported", "inttoptr of non-pointer value")
                        regs[ins.res] = v
                    elif op == "unreachable":
                        raise MemViolation("ub", "reached 'unreachable' in " + fn.name)
                    else:
                        raise ExecError("unsupported", "opcode " + op)
                if nxt is None:
                    raise ExecError("unsupported", "block %s of %s falls through" % (block, fn.name))
                prev, block = block, nxt
        finally:
            for o in allocas:
                o.dead = True

    def _do_call(self, ins, regs, lay):
        callee = ins.extra
        if isinstance(callee, ir.GlobalRef):
            name = callee.name
        else:
            cv = self.operand(callee, None, regs, lay)
            if not isinstance(cv, FnRef):
                raise ExecError("unsupported", "indirect call through %r" % (cv,))
            name = cv.name
        args = [self.operand(av, at, regs, lay) for (at, av, attrs) in ins.args]
        if name.startswith(("llvm.memcpy", "llvm.memmove", "llvm.memset")) and self.find_intercept(name) is None:
            # the alignment the compiler assumed for a typed aggregate copy is carried by the call-site
            # `align N` attributes of the pointer operands; the code generator may use aligned vector moves
            n = args[2]
            if not (is_conc(n) and n == 0):
                for k, (at, av, attrs) in enumerate(ins.args[:2]):
                    al = attrs.get("align") if attrs else None
                    if al and al > 1 and isinstance(args[k], Ptr) and args[k].obj is not None:
                        self._check_access(args[k], n if is_conc(n) else 0, al, k == 0)
        self.check_noalias(name, ins, args)
        return self.call_named(name, args, ins)

    def check_noalias(self, name, ins, args):
        """A-MEM: an argument passed to a noalias (__restrict) parameter must not overlap the object that the
        callee writes through its first parameter (member functions write *this)."""
        f = self.prog.fn.get(name)
        if f is None or not f.params:
            return
        d = self.prog.demangled.get(name, name)
        is_const_method = d.rstrip().endswith("const")
        for i, (prm, a) in enumerate(zip(f.params, args)):
            if not prm.attrs.get("noalias") or not isinstance(a, Ptr) or a.obj is None:
                continue
            n_i = prm.attrs.get("dereferenceable", 1)
            for j, (prm2, b) in enumerate(zip(f.params, args)):
                if j == i or not isinstance(b, Ptr) or b.obj is not a.obj:
                    continue
                written = (j == 0 and not is_const_method) or (i == 0 and not is_const_method) or \
                          (prm2.attrs.get("noalias") and j < i and False)
                if not written:
                    continue
                n_j = prm2.attrs.get("dereferenceable", 1)
                if is_conc(a.off) and is_conc(b.off) and a.off < b.off + n_j and b.off < a.off + n_i:
                    msg = "argument %d of %s is __restrict but overlaps argument %d" % (i, d.split("(")[0], j)
                    if not self.noalias_fatal:
                        if ("noalias", msg) not in self.events:
                            self.events.append(("noalias", msg))
                        continue
                    raise MemViolation("noalias", msg)

    # ------------------------------------------------------------------ driver
    def explore(self, run_once, max_paths=4096):
        """run_once() is executed for every feasible decision sequence; yields (path, result)"""
        self.pending = [[]]
        n = 0
        while self.pending:
            dec = self.pending.pop()
            n += 1
            if n > max_paths:
                raise ExecError("budget", "more than %d paths" % max_paths)
            self.path = Path(dec)
            self.steps = 0
            try:
                res = run_once()
            except PathAbort:
                continue
            yield self.path, res


class ZextCond:
    """an abstract predicate widened to an integer (bool stored in memory / returned as i8/i32)"""
    def __init__(self, cond, bits):
        self.cond = cond
        self.bits = bits
