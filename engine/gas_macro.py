"""Reader for the GNU-as *divided syntax* Thumb-1 sources of src/core/arch/armv6_m/*.s (DESIGN.md section 3.1, F-ASM ARMv6-M).

clang's integrated assembler rejects these files (pre-UAL mnemonics without the 's' suffix), so the macro layer of
GNU as is re-implemented here for exactly the directives the files use (.macro/.endm with \\arg substitution, nested
invocation, labels, .globl/.type/.text/.thumb) and every instruction is parsed into an `Ins`.  Anything not understood
is an error, never skipped.  Two independent checks keep this reader honest on every run:
  * `encodable()`  - each instruction must have a 16-bit ARMv6-M encoding (register classes, immediate ranges, Rd==Rn rules);
  * `crosscheck()` - the expanded stream, rewritten to unified syntax, is assembled by clang for thumbv6m and the
                     llvm-objdump disassembly must agree instruction by instruction (text, size, label offsets).
"""
import ast
import os
import re
import subprocess

LOW = ["r%d" % i for i in range(8)]
REGNAMES = {("r%d" % i): ("r%d" % i) for i in range(13)}
REGNAMES.update({"sp": "sp", "r13": "sp", "lr": "lr", "r14": "lr", "pc": "pc", "r15": "pc"})
IGNORED_DIRECTIVES = (".globl", ".global", ".type", ".text", ".thumb")


class AsmSyntaxError(Exception):
    pass


class Ins:
    """mn: divided-syntax mnemonic; ops: parsed operands
         ('r', name) | ('i', int) | ('list', [names]) | ('mem', base, off) | ('wb', name) | ('sym', name)"""
    __slots__ = ("mn", "ops", "where", "text", "addr", "size")

    def __init__(self, mn, ops, where, text):
        self.mn, self.ops, self.where, self.text = mn, ops, where, text
        self.addr = 0
        self.size = 4 if mn == "bl" else 2

    def __repr__(self):
        return "%s  [%s]" % (self.text, self.where)


class Program:
    def __init__(self):
        self.ins = []
        self.labels = {}       # name -> instruction index
        self.globals = set()
        self.files = []

    def finish(self):
        a = 0
        for i in self.ins:
            i.addr = a
            a += i.size
        self.label_addr = {n: (self.ins[k].addr if k < len(self.ins) else a) for n, k in self.labels.items()}


def eval_expr(s, where):
    """integer expression of + - * ( ) and literals (what remains of '4*\\i+48' after substitution)"""
    try:
        tree = ast.parse(s.strip(), mode="eval")
    except SyntaxError:
        raise AsmSyntaxError("%s: bad expression %r" % (where, s))

    def ev(n):
        if isinstance(n, ast.Expression):
            return ev(n.body)
        if isinstance(n, ast.Constant) and isinstance(n.value, int):
            return n.value
        if isinstance(n, ast.BinOp) and isinstance(n.op, (ast.Add, ast.Sub, ast.Mult)):
            a, b = ev(n.left), ev(n.right)
            return a + b if isinstance(n.op, ast.Add) else a - b if isinstance(n.op, ast.Sub) else a * b
        if isinstance(n, ast.UnaryOp) and isinstance(n.op, ast.USub):
            return -ev(n.operand)
        raise AsmSyntaxError("%s: unsupported expression %r" % (where, s))
    return ev(tree)


def split_top(s):
    out, cur, depth = [], "", 0
    for ch in s:
        if ch in "{[(":
            depth += 1
        elif ch in "}])":
            depth -= 1
        if ch == "," and depth == 0:
            out.append(cur.strip())
            cur = ""
        else:
            cur += ch
    if cur.strip():
        out.append(cur.strip())
    return out


def parse_operand(s, where):
    s = s.strip()
    low = s.lower()
    if low in REGNAMES:
        return ("r", REGNAMES[low])
    if low.endswith("!") and low[:-1].strip() in REGNAMES:
        return ("wb", REGNAMES[low[:-1].strip()])
    if s.startswith("#"):
        return ("i", eval_expr(s[1:], where))
    if s.startswith("{") and s.endswith("}"):
        regs = []
        for part in split_top(s[1:-1]):
            m = re.fullmatch(r"(\w+)\s*-\s*(\w+)", part)
            if m:
                a, b = REGNAMES.get(m.group(1).lower()), REGNAMES.get(m.group(2).lower())
                if a is None or b is None or not (a.startswith("r") and b.startswith("r")):
                    raise AsmSyntaxError("%s: bad register range %r" % (where, part))
                ia, ib = int(a[1:]), int(b[1:])
                if ia > ib:
                    raise AsmSyntaxError("%s: descending register range %r" % (where, part))
                regs += ["r%d" % k for k in range(ia, ib + 1)]
            elif part.lower() in REGNAMES:
                regs.append(REGNAMES[part.lower()])
            else:
                raise AsmSyntaxError("%s: bad register list element %r" % (where, part))
        return ("list", regs)
    if s.startswith("[") and s.endswith("]"):
        parts = split_top(s[1:-1])
        if not parts or parts[0].lower() not in REGNAMES or len(parts) > 2:
            raise AsmSyntaxError("%s: bad memory operand %r" % (where, s))
        off = 0
        if len(parts) == 2:
            if not parts[1].startswith("#"):
                raise AsmSyntaxError("%s: register-offset addressing is not used by these sources: %r" % (where, s))
            off = eval_expr(parts[1][1:], where)
        return ("mem", REGNAMES[parts[0].lower()], off)
    if re.fullmatch(r"[A-Za-z_.][\w.$]*", s):
        return ("sym", s)
    raise AsmSyntaxError("%s: cannot parse operand %r" % (where, s))


def _substitute(line, binding):
    def rep(m):
        return binding.get(m.group(1), m.group(0))
    return re.sub(r"\\([A-Za-z_][A-Za-z0-9_]*)", rep, line)


def read(paths):
    """expand and parse the given .s files into one Program (files are independent translation units; labels are global)"""
    prog = Program()
    for path in paths:
        macros = {}
        prog.files.append(path)
        raw = open(path).read().split("\n")
        lines = [(re.sub(r"@.*$", "", l).rstrip(), "%s:%d" % (os.path.basename(path), n + 1)) for n, l in enumerate(raw)]
        i = 0
        body = []
        while i < len(lines):                       # pass 1: collect macro definitions
            text, where = lines[i]
            t = text.strip()
            if t.startswith(".macro"):
                head = t[len(".macro"):].replace(",", " ").split()
                if not head:
                    raise AsmSyntaxError("%s: .macro without a name" % where)
                name, params = head[0], head[1:]
                i += 1
                mb = []
                while i < len(lines) and lines[i][0].strip() != ".endm":
                    if lines[i][0].strip().startswith(".macro"):
                        raise AsmSyntaxError("%s: nested .macro definition" % lines[i][1])
                    mb.append(lines[i])
                    i += 1
                if i == len(lines):
                    raise AsmSyntaxError("%s: .macro %s without .endm" % (where, name))
                if name in macros:
                    raise AsmSyntaxError("%s: macro %s redefined" % (where, name))
                macros[name] = (params, mb)
            else:
                body.append((text, where))
            i += 1

        def emit(text, where, depth):
            t = text.strip()
            if not t:
                return
            if depth > 16:
                raise AsmSyntaxError("%s: macro recursion" % where)
            m = re.match(r"^([A-Za-z_.][\w.$]*)\s*:\s*(.*)$", t)
            if m:
                if m.group(1) in prog.labels:
                    raise AsmSyntaxError("%s: label %s defined twice" % (where, m.group(1)))
                prog.labels[m.group(1)] = len(prog.ins)
                return emit(m.group(2), where, depth)
            head = t.split(None, 1)
            mn = head[0]
            rest = head[1] if len(head) > 1 else ""
            if mn.startswith("."):
                if mn in (".globl", ".global"):
                    prog.globals.add(rest.strip())
                if mn not in IGNORED_DIRECTIVES:
                    raise AsmSyntaxError("%s: directive %s is not understood by this reader" % (where, mn))
                return
            if mn in macros:
                params, mb = macros[mn]
                args = split_top(rest)
                if len(args) != len(params):
                    raise AsmSyntaxError("%s: macro %s takes %d arguments, got %d" % (where, mn, len(params), len(args)))
                binding = dict(zip(params, args))
                for btext, bwhere in mb:
                    emit(_substitute(btext, binding), "%s>%s" % (where, bwhere.split(":")[-1]), depth + 1)
                return
            if "\\" in t:
                raise AsmSyntaxError("%s: unresolved macro argument in %r" % (where, t))
            ops = [parse_operand(o, where) for o in split_top(rest)]
            prog.ins.append(Ins(mn.lower(), ops, where, " ".join(t.split())))
        for text, where in body:
            emit(text, where, 0)
    prog.finish()
    return prog


# ---------------------------------------------------------------------------------------------------------------
# ARMv6-M encodability and the unified-syntax rendering (the style llvm-objdump prints)
# ---------------------------------------------------------------------------------------------------------------
def _lo(op):
    return op[0] == "r" and op[1] in LOW


def _fmt_list(regs):
    return "{" + ", ".join(regs) + "}"


def unified(ins):
    """(unified-syntax text as llvm-objdump prints it, flag behaviour) or raises AsmSyntaxError when the instruction has
    no 16-bit ARMv6-M encoding.  flag behaviour: 'nzcv' | 'nzc' | 'nz' | 'poison' | ''  (what the instruction writes)."""
    mn, o, w = ins.mn, ins.ops, ins.where

    def bad(why):
        raise AsmSyntaxError("%s: `%s` has no ARMv6-M Thumb encoding (%s)" % (w, ins.text, why))
    kinds = tuple(x[0] for x in o)
    if mn in ("add", "sub"):
        if kinds == ("r", "r", "r"):
            if all(_lo(x) for x in o):
                return "%ss %s, %s, %s" % (mn, o[0][1], o[1][1], o[2][1]), "nzcv"
            bad("three-register form needs low registers")
        if kinds == ("r", "r", "i"):
            d, n, imm = o[0][1], o[1][1], o[2][1]
            if d == "sp" and n == "sp":
                if imm % 4 or not 0 <= imm <= 508:
                    bad("sp adjustment out of range")
                return "%s sp, #%d" % (mn, imm), ""
            if n == "sp" and mn == "add" and d in LOW:
                if imm % 4 or not 0 <= imm <= 1020:
                    bad("sp offset out of range")
                return "add %s, sp, #%d" % (d, imm), ""
            if d in LOW and n in LOW:
                if d == n and 0 <= imm <= 255:
                    return "%ss %s, #%d" % (mn, d, imm), "nzcv"
                if 0 <= imm <= 7:
                    return "%ss %s, %s, #%d" % (mn, d, n, imm), "nzcv"
            bad("immediate form")
        bad("operand form")
    if mn in ("adc", "sbc", "eor", "and", "orr", "bic"):
        if kinds == ("r", "r", "r") and all(_lo(x) for x in o):
            if o[0][1] != o[1][1]:
                bad("destination must equal the first source")
            return "%ss %s, %s" % (mn, o[0][1], o[2][1]), ("nzcv" if mn in ("adc", "sbc") else "nz")
        if kinds == ("r", "r") and all(_lo(x) for x in o):
            return "%ss %s, %s" % (mn, o[0][1], o[1][1]), ("nzcv" if mn in ("adc", "sbc") else "nz")
        bad("operand form")
    if mn == "mul":
        if kinds == ("r", "r", "r") and all(_lo(x) for x in o):
            d, a, b = o[0][1], o[1][1], o[2][1]
            if d == b:
                return "muls %s, %s, %s" % (d, a, d), "nz"
            if d == a:
                return "muls %s, %s, %s" % (d, b, d), "nz"
            bad("destination must equal one source")
        bad("operand form")
    if mn in ("lsl", "lsr"):
        if kinds == ("r", "r", "i") and _lo(o[0]) and _lo(o[1]):
            imm = o[2][1]
            if (mn == "lsl" and 1 <= imm <= 31) or (mn == "lsr" and 1 <= imm <= 32):
                return "%ss %s, %s, #%d" % (mn, o[0][1], o[1][1], imm), "nzc"
            bad("shift amount")
        bad("operand form (register-specified shifts are not used by these sources)")
    if mn == "neg":
        if kinds == ("r", "r") and _lo(o[0]) and _lo(o[1]):
            return "rsbs %s, %s, #0" % (o[0][1], o[1][1]), "nzcv"
        bad("operand form")
    if mn == "uxth":
        if kinds == ("r", "r") and _lo(o[0]) and _lo(o[1]):
            return "uxth %s, %s" % (o[0][1], o[1][1]), ""
        bad("operand form")
    if mn == "mov":
        if kinds == ("r", "r"):
            if _lo(o[0]) and _lo(o[1]):
                # GNU as may pick the flag-setting pre-UAL encoding (adds rd, rm, #0 / movs) or the flag-preserving one
                return "mov %s, %s" % (o[0][1], o[1][1]), "poison"
            if "pc" in (o[0][1], o[1][1]):
                bad("mov involving pc is not used by these sources")
            return "mov %s, %s" % (o[0][1], o[1][1]), ""
        if kinds == ("r", "i") and _lo(o[0]) and 0 <= o[1][1] <= 255:
            return "movs %s, #%d" % (o[0][1], o[1][1]), "nz"
        bad("operand form")
    if mn in ("ldr", "str"):
        if kinds == ("r", "mem") and _lo(o[0]):
            base, off = o[1][1], o[1][2]
            if base == "sp":
                if off % 4 or not 0 <= off <= 1020:
                    bad("sp-relative offset")
            elif base in LOW:
                if off % 4 or not 0 <= off <= 124:
                    bad("offset")
            else:
                bad("base register")
            return "%s %s, [%s%s]" % (mn, o[0][1], base, ", #%d" % off if off else ""), ""
        bad("operand form")
    if mn in ("ldm", "ldmia", "stm", "stmia"):
        if kinds == ("wb", "list") and o[0][1] in LOW and o[1][1] and all(r in LOW for r in o[1][1]):
            regs = o[1][1]
            if sorted(regs, key=lambda r: int(r[1:])) != regs or len(set(regs)) != len(regs):
                bad("register list must be ascending")
            if o[0][1] in regs:
                bad("base register in the list with write-back")
            return "%s %s!, %s" % (mn[:3], o[0][1], _fmt_list(regs)), ""
        bad("operand form")
    if mn in ("push", "pop"):
        extra = "lr" if mn == "push" else "pc"
        if kinds == ("list",) and o[0][1] and all(r in LOW or r == extra for r in o[0][1]):
            regs = o[0][1]
            lows = [r for r in regs if r in LOW]
            if sorted(lows, key=lambda r: int(r[1:])) != lows or len(set(regs)) != len(regs) or (extra in regs and regs[-1] != extra):
                bad("register list must be ascending")
            return "%s %s" % (mn, _fmt_list(regs)), ""
        bad("register list")
    if mn == "bx":
        if kinds == ("r",):
            return "bx %s" % o[0][1], ""
        bad("operand form")
    if mn == "bl":
        if kinds == ("sym",):
            return "bl %s" % o[0][1], ""
        bad("operand form")
    raise AsmSyntaxError("%s: mnemonic `%s` is not understood by this reader" % (w, mn))


def micro(ins):
    """canonical micro-operation the interpreter executes, derived from the divided-syntax operands (encodability is checked by
    unified()):  (op, dst, src1, src2-or-immediate)  |  (ldr/str, rt, base, off)  |  (ldm/stm, base, regs)  |  (push/pop, regs)"""
    mn, o = ins.mn, ins.ops
    v = [x[1] if x[0] != "mem" else x[1:] for x in o]
    if mn in ("add", "sub", "adc", "sbc", "eor", "and", "orr", "bic", "mul"):
        d, a, b = (v[0], v[0], v[1]) if len(v) == 2 else v
        if mn == "mul":
            a, b = sorted((a, b))
        return (mn, d, a, b)
    if mn in ("lsl", "lsr"):
        return (mn, v[0], v[1], v[2])
    if mn == "neg":
        return ("rsb", v[0], v[1], 0)
    if mn in ("uxth", "mov"):
        return (mn, v[0], v[1], None)
    if mn in ("ldr", "str"):
        return (mn, v[0], v[1][0], v[1][1])
    if mn in ("ldm", "ldmia", "stm", "stmia"):
        return (mn[:3], v[0], tuple(v[1]))
    if mn in ("push", "pop"):
        return (mn, tuple(v[0]))
    if mn in ("bx", "bl"):
        return (mn, v[0])
    raise AsmSyntaxError("%s: mnemonic `%s` is not understood by this reader" % (ins.where, mn))


def micro_of_unified(text):
    """the same canonical form, parsed back independently from llvm-objdump's unified-syntax text of clang's encoding"""
    head = text.split(None, 1)
    mn, rest = head[0], (head[1] if len(head) > 1 else "")
    o = [parse_operand(x, "objdump") for x in split_top(rest)] if mn != "bl" else []
    v = [x[1] if x[0] != "mem" else x[1:] for x in o]
    base = mn[:-1] if mn.endswith("s") and mn not in ("muls",) else mn
    if mn == "muls":
        a, b = sorted((v[1], v[2]))
        return ("mul", v[0], a, b)
    if base in ("add", "sub", "adc", "sbc", "eor", "and", "orr", "bic", "rsb"):
        d, a, b = (v[0], v[0], v[1]) if len(v) == 2 else v
        return (base, d, a, b)
    if base in ("lsl", "lsr"):
        return (base, v[0], v[1], v[2])
    if mn in ("uxth", "mov", "movs"):
        return (base if mn != "movs" else "mov", v[0], v[1], None)
    if mn in ("ldr", "str"):
        return (mn, v[0], v[1][0], v[1][1])
    if mn in ("ldm", "stm"):
        return (mn, v[0], tuple(v[1]))
    if mn in ("push", "pop"):
        return (mn, tuple(v[0]))
    if mn == "bx":
        return (mn, v[0])
    if mn == "bl":
        return (mn, None)
    raise AsmSyntaxError("unexpected instruction in clang's object: " + text)


def crosscheck(prog, workdir):
    """assemble the unified rewrite with clang for thumbv6m and compare with llvm-objdump; returns a summary dict or raises
    AsmSyntaxError with the first disagreement"""
    lines = [".syntax unified", ".text", ".thumb"]
    by_index = {}
    for n, k in prog.labels.items():
        by_index.setdefault(k, []).append(n)
    externs = set()
    texts = []
    for k, ins in enumerate(prog.ins):
        for n in by_index.get(k, []):
            lines += [".globl %s" % n, ".type %s, %%function" % n, ".thumb_func", "%s:" % n]
        u, _ = unified(ins)
        texts.append(u)
        if ins.mn == "bl":
            externs.add(ins.ops[0][1])
        lines.append("    " + u)
    src = os.path.join(workdir, "t1_unified.s")
    obj = os.path.join(workdir, "t1_unified.o")
    with open(src, "w") as f:
        f.write("\n".join(lines) + "\n")
    r = subprocess.run(["clang-14", "-c", "-target", "thumbv6m-none-eabi", "-x", "assembler", src, "-o", obj], capture_output=True, text=True)
    if r.returncode != 0:
        raise AsmSyntaxError("clang (thumbv6m) rejects the unified rewrite: %s" % r.stderr[-1500:])
    out = subprocess.run(["llvm-objdump-14", "-d", obj], capture_output=True, text=True, check=True).stdout
    dis = []
    labels = {}
    for line in out.split("\n"):
        m = re.match(r"^([0-9a-f]+) <([^>]+)>:", line)
        if m:
            labels[m.group(2)] = int(m.group(1), 16)
            continue
        m = re.match(r"^\s*([0-9a-f]+):\s+((?:[0-9a-f]{2} )+)\s*(.*)$", line)
        if m:
            nbytes = len(m.group(2).split())
            text = re.sub(r"\s+", " ", re.sub(r"\s*(@|<).*$", "", m.group(3).replace("\t", " "))).strip()
            dis.append((int(m.group(1), 16), nbytes, text))
    if len(dis) != len(prog.ins):
        raise AsmSyntaxError("reader expands to %d instructions, clang's assembler emits %d" % (len(prog.ins), len(dis)))
    for ins, want, (addr, nbytes, got) in zip(prog.ins, texts, dis):
        if addr != ins.addr or nbytes != ins.size:
            raise AsmSyntaxError("%s: `%s` is at %#x (%d bytes) in our layout, %#x (%d bytes) in clang's" % (ins.where, ins.text, ins.addr, ins.size, addr, nbytes))
        g = re.sub(r"#0x([0-9a-f]+)", lambda m: "#%d" % int(m.group(1), 16), got)
        if ins.mn == "bl":
            g, want = g.split()[0], "bl"
        if g != want:
            raise AsmSyntaxError("%s: `%s` reads back from clang's object as `%s`, expected `%s`" % (ins.where, ins.text, got, want))
        mine, theirs = micro(ins), micro_of_unified(got if ins.mn != "bl" else "bl")
        if ins.mn == "bl":
            mine = ("bl", None)
        if mine != theirs:
            raise AsmSyntaxError("%s: `%s` is executed as %r but clang's encoding decodes to %r" % (ins.where, ins.text, mine, theirs))
    for n, a in prog.label_addr.items():
        if labels.get(n) != a:
            raise AsmSyntaxError("label %s is at %#x in our layout, %s in clang's" % (n, a, labels.get(n)))
    return {"instructions": len(dis), "labels": len(labels), "bytes": sum(d[1] for d in dis), "externs": sorted(externs)}
