"""Obligations for the word-level kernels (C02/C03), for the x86-64 E-ASM front end.

One mathematical specification per kernel, shared by every back end, stated over the integers:
  bigint add/sub/double : res = (a op b) mod 2^384, returned carry/borrow/shifted-out bit
  fpbase add/sub/double : for a, b < p:  res = (a op b) mod p  (hence res < p)
  768-bit product/square: res = sum_{i,j} a_i b_j 2^(64(i+j))   (word products are opaque integers)
  Montgomery reduction  : for a < p*2^384:  T*2^384 = a + U*p and T < 2p at the first compare (affine prefix),
                          res = T >= p ? T - p : T  from an arbitrary T < 2p (suffix, separate small context)
All VCs are linear integer arithmetic decided by z3; bit-identity across back ends follows because each back end
is proved equal to the same function.
"""
import z3

from .eir import ExecError, MemViolation, Ptr, Obj, is_conc
from .framework import Violation, Inconclusive
from .dom_lin import LinCtx, LV
from . import easm_x86

Q = 0x1a0111ea397fe69a4b1ba7b6434bacd764774b84f38512bf6730d2a0f6b0f6241eabfffeb153ffffb9feffffffffaaab
QINV64 = (-pow(Q, -1, 1 << 64)) % (1 << 64)
M64 = (1 << 64) - 1
R384 = 1 << 384


def words_of(v, n, w=64):
    return [(v >> (w * i)) & ((1 << w) - 1) for i in range(n)]


def read_words(o, n, size=8):
    out = []
    for i in range(n):
        c = o.cells.get(size * i)
        if c is None or c[0] != size:
            raise MemViolation("uninit", "result word %d of %s was never written" % (i, o.name))
        out.append(c[1])
    return out


def lin_obj(L, name, nwords, prefix, const=False, values=None, w=64):
    o = Obj(name, (w // 8) * nwords, "arg", 16, const)
    vs = []
    for i in range(nwords):
        v = L.const(values[i]) if values is not None else L.var("%s%d" % (prefix, i), w)
        o.cells[(w // 8) * i] = (w // 8, v)
        vs.append(v)
    return o, vs


def lin_sum(L, ws, shift=64):
    tot = L.const(0)
    for i, w in enumerate(ws):
        tot = L.add(tot, L.scale(w, 1 << (shift * i)))
    return tot


def model_inputs(L, env, prefix, n, w=64):
    return sum(env.get("%s%d" % (prefix, i), 0) << (w * i) for i in range(n))


# ---------------------------------------------------------------------------------------------------------------
SIMPLE = {
    # kind: (n inputs, takes modulus)
    "bigint_384_add": (2, False), "bigint_384_subtract": (2, False), "bigint_384_multiply2": (1, False),
    "fpbase_384_add": (2, True), "fpbase_384_subtract": (2, True), "fpbase_384_multiply2": (1, True),
}


def simple_spec(kind, zA, zB, O, ret):
    """z3 Int formula: the kernel's specification (O = integer value of the result words, ret = returned word or None)"""
    if kind == "bigint_384_add":
        return z3.And(z3.If(zA + zB >= R384, z3.And(O == zA + zB - R384, ret == 1), z3.And(O == zA + zB, ret == 0)))
    if kind == "bigint_384_subtract":
        return z3.If(zA < zB, z3.And(O == zA - zB + R384, ret == 1), z3.And(O == zA - zB, ret == 0))
    if kind == "bigint_384_multiply2":
        return z3.If(2 * zA >= R384, z3.And(O == 2 * zA - R384, ret == 1), z3.And(O == 2 * zA, ret == 0))
    # The modular kernels are specified for ALL 384-bit operands (C03 quantifies over all operand pairs, not only canonical ones): the function the
    # portable template computes - truncated sum / difference / double, then one conditional correction by q decided by (carry or >= q) resp. borrow,
    # everything modulo 2^384.  For operands below q this is (a op b) mod q.
    def m384(t):
        return t % R384
    if kind == "fpbase_384_add":
        T = m384(zA + zB)
        return z3.If(z3.Or(zA + zB >= R384, T >= Q), O == m384(T - Q), O == T)
    if kind == "fpbase_384_subtract":
        T = m384(zA - zB)
        return z3.If(zA < zB, O == m384(T + Q), O == T)
    if kind == "fpbase_384_multiply2":
        T = m384(2 * zA)
        return z3.If(z3.Or(2 * zA >= R384, T >= Q), O == m384(T - Q), O == T)
    raise ValueError(kind)


def x86_simple(aprog, kind, alias=0, timeout_ms=60000):
    """alias: 0 none, 1 res==a, 2 res==b, 3 res==a==b"""
    sym = "embedded_pairing_core_arch_x86_64_" + kind
    nin, has_p = SIMPLE[kind]
    L = LinCtx(timeout_ms)
    X = easm_x86.X86(aprog, "lin", L, timeout_ms)
    X.lin_branch = True
    av = [L.var("a%d" % i) for i in range(6)]
    bv = av if (nin == 1 or alias == 3) else [L.var("b%d" % i) for i in range(6)]
    A, B = lin_sum(L, av), lin_sum(L, bv)
    zA, zB = L.z(A), L.z(B)
    # no range assumption on the operands of the modular kernels: all 384-bit values (see simple_spec)

    def once():
        oa = Obj("a", 48, "arg", 16)
        for i in range(6):
            oa.cells[8 * i] = (8, av[i])
        ob = None
        if nin == 2:
            if alias == 3:
                ob = oa
            else:
                ob = Obj("b", 48, "arg", 16)
                for i in range(6):
                    ob.cells[8 * i] = (8, bv[i])
        op, _ = lin_obj(L, "p", 6, "p", const=True, values=words_of(Q, 6))
        ores = oa if alias in (1, 3) else (ob if alias == 2 else Obj("res", 48, "arg", 16))
        for o in (oa, ob):
            if o is not None and o is not ores:
                o.const = True
        args = [Ptr(ores, 0), Ptr(oa, 0)] + ([Ptr(ob, 0)] if nin == 2 else []) + ([Ptr(op, 0)] if has_p else [])
        rax = X.call(sym, args, [oa, op, ores] + ([ob] if ob is not None else []))
        return rax, read_words(ores, 6)
    npaths = 0
    for pc, (rax, out) in X.explore(once):
        npaths += 1
        O = L.z(lin_sum(L, out))
        ret = None
        if not has_p:
            if not isinstance(rax, LV):
                raise Violation("x86:%s:ret" % kind, "%s leaves no integer return value in rax" % sym, {"kernel": kind, "backend": "x86"})
            ret = L.z(rax)
        vc = z3.Implies(z3.And(*pc) if pc else z3.BoolVal(True), simple_spec(kind, zA, zB, O, ret))
        ok = L.prove(vc, kind)
        if ok is None:
            raise Inconclusive("solver unknown on %s" % kind)
        if not ok:
            env = L.model_for(z3.Not(vc)) or {}
            a_val = model_inputs(L, env, "a", 6)
            b_val = a_val if (alias == 3 or nin == 1) else model_inputs(L, env, "b", 6)
            raise Violation("x86:%s:alias=%d" % (kind, alias),
                            "%s differs from the specification%s" % (sym, " when res aliases operand pattern %d" % alias if alias else ""),
                            {"kernel": kind, "backend": "x86", "alias": alias, "a": hex(a_val), "b": hex(b_val)})
    return {"queries": L.queries + X.queries, "solver_s": L.solver_time, "paths": npaths, "functions": [sym],
            "sample": "%s alias=%d: %d paths, linear-integer VC per path" % (sym, alias, npaths)}


# ---------------------------------------------------------------------------------------------------------------
def x86_multiply(aprog, variant, square, timeout_ms=60000):
    kname = ("bmi2_adx_" if variant == "bmi2_adx" else "") + ("bigint_768_square" if square else "bigint_768_multiply")
    sym = "embedded_pairing_core_arch_x86_64_" + kname
    L = LinCtx(timeout_ms)
    X = easm_x86.X86(aprog, "lin", L, timeout_ms)
    oa, av = lin_obj(L, "a", 6, "a", const=True)
    ob, bv_ = (oa, av) if square else lin_obj(L, "b", 6, "b", const=True)
    ores = Obj("res", 96, "arg", 16)
    args = [Ptr(ores, 0), Ptr(oa, 0)] + ([] if square else [Ptr(ob, 0)])
    X.call(sym, args, [oa, ob, ores])
    key = "x86:%s" % kname
    extra = {"kernel": "x86_" + kname, "backend": "x86"}
    if X.cut_done or X.pc:
        raise Inconclusive("unexpected data-dependent branch in " + sym)
    out = read_words(ores, 12)
    got = lin_sum(L, out)
    want = L.const(0)
    for i in range(6):
        for j in range(6):
            want = L.add(want, L.scale(L.mul(av[i], bv_[j]), 1 << (64 * (i + j))))
    ident = L.eq(got, want)
    ok = L.prove(ident, "product identity")
    if ok is None:
        hit = L.wrap_search(lambda env: L.evaluate(got, env) != L.evaluate(want, env), [c[2] for c in X.lost_carries if len(c) > 2], 5000, 120, True)
        if hit is not None:
            ce = dict(extra)
            ce["a"] = hex(sum(hit.get("a%d" % i, 0) << (64 * i) for i in range(6)))
            ce["b"] = hex(sum(hit.get(("a%d" if square else "b%d") % i, 0) << (64 * i) for i in range(6)))
            raise Violation(key, "%s: result is not sum a_i*b_j*2^(64(i+j)) (input found by the lost-carry search after the solver gave up)" % sym, ce)
        raise Inconclusive("solver unknown on the product identity of " + sym)
    if not ok:
        ce = dict(extra)
        ce["lost_carries"] = ["%#x %s" % (a, t) for a, t, _ in X.lost_carries]
        # a replayable input needs the opaque word products to be real products: first the small targeted queries (an input that makes one dropped
        # carry / truncation quotient non-zero), then the whole negated identity with real products, last the linear model (may not replay)
        lost = [c[2] for c in X.lost_carries if len(c) > 2]
        mism = lambda e: L.evaluate(got, e) != L.evaluate(want, e)
        env = (L.concretised_search(mism, lost, 40, 8000, 120) or L.wrap_search(mism, lost, 8000, 60, True)
               or nia_model(L, z3.Not(ident)) or L.model_for(z3.Not(ident)) or {})
        ce["a"] = hex(model_inputs(L, env, "a", 6))
        ce["b"] = hex(model_inputs(L, env, "a" if square else "b", 6))
        raise Violation(key, "%s: result is not sum a_i*b_j*2^(64(i+j))%s" % (
            sym, "; carries dropped without being provably zero: %s" % "; ".join(ce["lost_carries"]) if X.lost_carries else ""), ce)
    return {"queries": L.queries, "solver_s": L.solver_time, "paths": 1, "functions": [sym],
            "sample": "%s: %d instructions, %d dropped carries proved zero, identity over %d opaque word products" % (
                sym, X.steps, X.proved_carries, len(L.products))}


def nia_model(L, cond, timeout_ms=30000):
    """try to find a counter-model in which the opaque word products really are products (non-linear query);
    None if the solver does not find one in time.  Used only to obtain replayable inputs."""
    s = z3.Solver()
    s.set("timeout", timeout_ms)
    for a in L.solver.assertions():
        s.add(a)
    for i, k in L.kind.items():
        if isinstance(k, tuple) and k[0] == "prod":
            s.add(L.zv[i] == L.z(k[1]) * L.z(k[2]))
    s.add(cond)
    if s.check() == z3.sat:
        m = s.model()
        return {L.names[i]: m.eval(L.zv[i], model_completion=True).as_long() for i in range(len(L.names))}
    return None


def x86_montgomery(aprog, variant, timeout_ms=120000):
    kname = ("bmi2_adx_" if variant == "bmi2_adx" else "") + "fpbase_384_montgomery_reduce"
    sym = "embedded_pairing_core_arch_x86_64_" + kname
    key = "x86:%s" % kname
    extra = {"kernel": "x86_" + kname, "backend": "x86"}
    L = LinCtx(timeout_ms)
    X = easm_x86.X86(aprog, "lin", L, timeout_ms)
    X.lin_branch = True
    X.lin_cut = True
    a_vars = [L.var("a%d" % i) for i in range(12)]
    A = lin_sum(L, a_vars)
    L.solver.add(L.z(A) < Q * R384)          # documented domain of the reduction input
    imuls = []
    orig_mul = X._mul_full

    def mul_hook(x, y):
        lo, hi = orig_mul(x, y)
        if not X.cut_done and ((isinstance(y, LV) and y.is_const() and y.c == QINV64) or (isinstance(x, LV) and x.is_const() and x.c == QINV64)):
            imuls.append(lo)
        return lo, hi
    X._mul_full = mul_hook

    def once():
        del imuls[:]
        oa = Obj("a", 96, "arg", 16)
        for i in range(12):
            oa.cells[8 * i] = (8, a_vars[i])
        op, _ = lin_obj(L, "p", 6, "p", const=True, values=words_of(Q, 6))
        ores = Obj("res", 48, "arg", 16)
        X.call(sym, [Ptr(ores, 0), Ptr(oa, 0), Ptr(op, 0), L.const(QINV64)], [oa, op, ores])
        return read_words(ores, 6), list(imuls)
    paths = list(X.explore(once))
    if not X.cut_done:
        raise Inconclusive("no compare reached in " + sym)
    L2 = X.lin2
    cut = X.cut_defs
    sigma = None
    for pc, (out, ims) in paths:
        names = [L2.names[list(w.t)[0]] if (isinstance(w, LV) and len(w.t) == 1 and w.c == 0 and list(w.t.values()) == [1]) else None for w in out]
        if all(n in cut for n in names):
            sigma = names
            break
    if sigma is None:
        raise Violation(key + ":shape", "%s: no path returns the unreduced words unchanged" % sym, extra)
    ims = paths[0][1][1]
    if len(ims) != 6:
        raise Inconclusive("expected 6 multiplications by inv before the compare, saw %d" % len(ims))
    Tl = lin_sum(L, [cut[n][1] for n in sigma])
    U = lin_sum(L, ims)
    ident = L.z(Tl) * R384 == L.z(A) + L.z(U) * Q
    def reference(env):
        a_ = sum(env["a%d" % i] << (64 * i) for i in range(12))
        for i in range(6):
            u = ((a_ >> (64 * i)) & ((1 << 64) - 1)) * QINV64 % (1 << 64)
            a_ += (u * Q) << (64 * i)
        return a_ >> 384
    ok = None
    if X.lost_carries:
        # a carry was dropped without being provably zero: evaluate the encoding at a few inputs before asking for the proof (a routine that is
        # wrong on a sizeable fraction of its inputs is refuted here at once; the solver then spends its budget only on plausible code)
        hit = L.point_search(lambda env: L.evaluate(Tl, env) != reference(env))
        if hit is not None:
            ce = dict(extra)
            ce["a"] = hex(sum(hit["a%d" % i] << (64 * i) for i in range(12)))
            ce["lost_carries"] = ["%#x %s" % (a, t) for a, t, _ in X.lost_carries]
            raise Violation(key + ":identity", "%s: T*2^384 != a + U*p at the first compare (the encoding evaluated at an input; carries dropped without being provably "
                            "zero: %s)" % (sym, "; ".join(ce["lost_carries"][:4])), ce)
    if ok is None:
        ok = L.prove_hard(ident, "montgomery identity", 100)
    if ok is None:
        # lost-carry search (see LinCtx.wrap_search): inputs that make a truncation quotient or a dropped carry non-zero, checked against the definition
        hit = L.wrap_search(lambda env: L.evaluate(Tl, env) != reference(env), [c[2] for c in X.lost_carries if len(c) > 2])
        if hit is not None:
            ce = dict(extra)
            ce["a"] = hex(sum(hit["a%d" % i] << (64 * i) for i in range(12)))
            ce["lost_carries"] = ["%#x %s" % (a, t) for a, t, _ in X.lost_carries]
            raise Violation(key + ":identity", "%s: T*2^384 != a + U*p at the first compare (input found by the lost-carry search after the solver gave up on the identity)" % sym, ce)
        raise Inconclusive("solver unknown on the Montgomery identity")
    if not ok:
        env = L.model_for(z3.Not(ident)) or {}
        ce = dict(extra)
        ce["a"] = hex(model_inputs(L, env, "a", 12))
        ce["lost_carries"] = ["%#x %s" % (a, t) for a, t, _ in X.lost_carries]
        raise Violation(key + ":identity", "%s: T*2^384 != a + U*p at the first compare%s" % (
            sym, "; carries dropped without being provably zero: %s" % "; ".join(ce["lost_carries"]) if X.lost_carries else ""), ce)
    L.solver.add(ident)
    ok = L.prove(L.z(Tl) < 2 * Q, "T < 2p")
    if not ok:
        raise Inconclusive("cannot establish T < 2p")
    T2 = L2.z(lin_sum(L2, [cut[n][0] for n in sigma]))
    L2.solver.add(T2 < 2 * Q)
    npaths = 0
    for pc, (out, _) in paths:
        npaths += 1
        O = L2.z(lin_sum(L2, out))
        vc = z3.Implies(z3.And(*pc) if pc else z3.BoolVal(True), z3.If(T2 >= Q, O == T2 - Q, O == T2))
        ok = L2.prove(vc, "final subtraction")
        if ok is None:
            raise Inconclusive("solver unknown on the final subtraction")
        if not ok:
            env = L2.model_for(z3.Not(vc)) or {}
            tval = sum(env.get(n, 0) << (64 * i) for i, n in enumerate(sigma))
            a_in = tval * R384 if tval < Q else tval * R384 - (R384 - 1) * Q
            ce = dict(extra)
            ce.update({"T": hex(tval), "a": hex(a_in)})
            raise Violation(key + ":final-subtract", "%s: final conditional subtraction is wrong for the unreduced value T=%#x" % (sym, tval), ce)
    return {"queries": L.queries + L2.queries + X.queries, "solver_s": L.solver_time + L2.solver_time, "paths": npaths, "functions": [sym],
            "sample": "%s: affine prefix (%d instr., %d carries proved zero, %d zero-word lemmas), cut at %#x, %d suffix paths" % (
                sym, X.steps, X.proved_carries, len(L.lemmas), X.cut_at, npaths)}
