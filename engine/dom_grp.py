"""D-GRP: group elements as formal discrete logarithms (DESIGN.md section 3.3).

Every element of G1, G2 or GT is represented by its discrete logarithm with respect to a fixed generator of its group (P, Q, e(P,Q));
the logarithm is a polynomial in *formal symbols* (one per random scalar drawn by the code and one per independently sampled group
element) whose coefficients are integer terms over the *input scalars* (attribute ids, messages: z3 Int variables in [0, 2^256)).
Group addition is polynomial addition, scalar multiplication is polynomial multiplication, the pairing multiplies the logarithms of its
arguments.  Two elements are equal for all values of the symbols iff their polynomials agree coefficient-wise modulo the group order r;
each coefficient comparison is a z3 query over the integer input variables under the current path condition.
Positive statements proved this way hold for every value of the formal symbols (ring homomorphism: evaluation).  Negative statements
("does not decrypt") are meant in the generic-group sense (T9): the residual polynomial is not the zero polynomial.
"""
import z3

from .eir import ExecError, Ptr, is_conc, Obj
from . import eir

R_ORDER = 0x73eda753299d7d483339d80809a1d80553bda402fffe5bfeffffffff00000001
TWO256 = 1 << 256


def _mmul(m1, m2):
    if not m1:
        return m2
    if not m2:
        return m1
    d = dict(m1)
    for v, e in m2:
        d[v] = d.get(v, 0) + e
    return tuple(sorted(d.items()))


def _is0(c):
    return isinstance(c, int) and c == 0


def _cadd(a, b):
    if _is0(a):
        return b
    if _is0(b):
        return a
    r = a + b
    return r if isinstance(r, int) else z3.simplify(r)


def _cmul(a, b):
    if _is0(a) or _is0(b):
        return 0
    if isinstance(a, int) and a == 1:
        return b
    if isinstance(b, int) and b == 1:
        return a
    r = a * b
    return r if isinstance(r, int) else r


class Poly:
    """polynomial in formal symbols; coefficients are python ints or z3 Int terms"""
    __slots__ = ("t",)

    def __init__(self, t=None):
        self.t = t or {}

    @staticmethod
    def const(c):
        return Poly({(): c} if not _is0(c) else {})

    @staticmethod
    def sym(name):
        return Poly({((name, 1),): 1})

    def __add__(self, o):
        r = dict(self.t)
        for m, c in o.t.items():
            v = _cadd(r.get(m, 0), c)
            if _is0(v):
                r.pop(m, None)
            else:
                r[m] = v
        return Poly(r)

    def __neg__(self):
        return Poly({m: -c for m, c in self.t.items()})

    def __sub__(self, o):
        return self + (-o)

    def __mul__(self, o):
        r = {}
        for m1, c1 in self.t.items():
            for m2, c2 in o.t.items():
                m = _mmul(m1, m2)
                v = _cadd(r.get(m, 0), _cmul(c1, c2))
                if _is0(v):
                    r.pop(m, None)
                else:
                    r[m] = v
        return Poly(r)

    def is_const(self):
        return all(m == () for m in self.t)

    def const_term(self):
        return self.t.get((), 0)

    def coeff(self, mono):
        return self.t.get(mono, 0)

    def monos(self):
        return set(self.t)

    def __repr__(self):
        if not self.t:
            return "0"
        parts = []
        for m, c in sorted(self.t.items(), key=lambda kv: str(kv[0])):
            ms = "*".join("%s%s" % (v, "^%d" % e if e > 1 else "") for v, e in m) or "1"
            cs = str(c) if isinstance(c, int) else "(" + str(c)[:60] + ")"
            parts.append("%s*%s" % (cs, ms))
        return " + ".join(parts)


class GE:
    """group element: group in {'G1','G2','GT'} and its formal logarithm"""
    __slots__ = ("g", "p")

    def __init__(self, g, p):
        self.g = g
        self.p = p

    def __repr__(self):
        return "%s[%r]" % (self.g, self.p)


class SV:
    """scalar value (element of Z, acting modulo r on group elements)"""
    __slots__ = ("p",)

    def __init__(self, p):
        self.p = p

    def __repr__(self):
        return "SV[%r]" % (self.p,)


class Grp:
    """context: input integer variables, their range constraints, the solver, statistics"""

    def __init__(self, timeout_ms=60000):
        self.solver = z3.Solver()
        self.solver.set("timeout", timeout_ms)
        self.constraints = []
        self.queries = 0
        self.nsym = 0
        self.ivars = {}

    def fresh_sym(self, prefix):
        self.nsym += 1
        return Poly.sym("%s%d" % (prefix, self.nsym))

    def sym(self, name):
        return Poly.sym(name)

    def ivar(self, name, hi=TWO256):
        """an input integer in [0, hi)"""
        if name not in self.ivars:
            v = z3.Int(name)
            self.ivars[name] = v
            self.constraints += [v >= 0, v < hi]
        return self.ivars[name]

    def coeff_zero_mod_r(self, d, pc=(), want_model=False):
        """is the integer term d == 0 (mod r) for all values of the input variables satisfying constraints + pc ?"""
        if isinstance(d, int):
            return (d % R_ORDER == 0), None
        self.queries += 1
        s = self.solver
        s.push()
        try:
            for c in self.constraints:
                s.add(c)
            for c in pc:
                s.add(c)
            s.add(d % R_ORDER != 0)
            r = s.check()
            if r == z3.unknown:
                raise ExecError("solver", "unknown on coefficient comparison")
            if r == z3.sat:
                return False, (s.model() if want_model else True)
            return True, None
        finally:
            s.pop()

    def equal(self, p, q, pc=()):
        """(ok, failing monomial, model)"""
        d = p - q
        for m, c in d.t.items():
            ok, mdl = self.coeff_zero_mod_r(c, pc, True)
            if not ok:
                return False, m, mdl
        return True, None, None

    def equal_formula(self, p, q):
        """z3 Bool: the two polynomials agree modulo r (conjunction over monomials)"""
        d = p - q
        cs = []
        for m, c in d.t.items():
            if isinstance(c, int):
                if c % R_ORDER != 0:
                    return z3.BoolVal(False)
            else:
                cs.append(c % R_ORDER == 0)
        return z3.And(*cs) if cs else z3.BoolVal(True)

    def model_values(self, mdl):
        if mdl is None or mdl is True:
            return {}
        return {n: hex(mdl.eval(v, model_completion=True).as_long()) for n, v in self.ivars.items()}


# ---------------------------------------------------------------------------------------------------------------
# memory <-> abstract values
# ---------------------------------------------------------------------------------------------------------------
SIZES = {"G1": 144, "G2": 288, "G1A": 112, "G2A": 208, "GT": 576, "SC": 32, "PX": 32}
GROUP_OF = {"G1": "G1", "G1A": "G1", "G2": "G2", "G2A": "G2", "GT": "GT"}

FQ_ONE_MONT = 0x15f65ec3fa80e4935c071a97a256ec6d77ce5853705257455f48985753c758baebf4000bc40c0002760900000002fffd


class GrpMem:
    def __init__(self, I, G):
        self.I = I
        self.G = G

    def read(self, p, kind):
        size = SIZES[kind]
        if not isinstance(p, Ptr) or p.obj is None:
            raise ExecError("unsupported", "group operand %r" % (p,))
        self.I._check_access(p, size if kind not in ("G1A", "G2A") else size - 15, 1, False)
        if not is_conc(p.off):
            raise ExecError("unsupported", "group operand at symbolic offset")
        o = p.obj
        c = o.cells.get(p.off)
        if c is not None and isinstance(c[1], (GE, SV)):
            v = c[1]
            if kind in ("SC", "PX"):
                if not isinstance(v, SV):
                    raise ExecError("abstract-bytes", "scalar read of a group element at %r" % (p,))
                return v
            if not isinstance(v, GE) or v.g != GROUP_OF[kind]:
                raise ExecError("abstract-bytes", "read of %s where %r is stored (%r)" % (kind, v, p))
            return v
        # concrete bytes: the identity constants and concrete integers
        if kind == "SC":
            v = self.I.load_bytes(o, p.off, 32)
            if is_conc(v):
                return SV(Poly.const(v))
            raise ExecError("abstract-bytes", "scalar with symbolic raw bytes at %r" % (p,))
        if kind in ("G1", "G2"):
            fs = 48 if kind == "G1" else 96
            z = self.I.load_bytes(o, p.off + 2 * fs, fs)
            if is_conc(z) and z == 0:
                return GE(kind, Poly())
            raise ExecError("abstract-bytes", "raw projective point that is not the identity at %r" % (p,))
        if kind == "GT":
            v = self.I.load_bytes(o, p.off, 576)
            if is_conc(v) and v == FQ_ONE_MONT:
                return GE("GT", Poly())
            raise ExecError("abstract-bytes", "raw Fq12 value that is not one at %r" % (p,))
        raise ExecError("abstract-bytes", "raw bytes read as %s at %r" % (kind, p))

    def write(self, p, kind, v):
        size = SIZES[kind]
        self.I._check_access(p, size if kind not in ("G1A", "G2A") else size - 15, 1, True)
        if not is_conc(p.off):
            raise ExecError("unsupported", "group result at symbolic offset")
        self.I.store_cell(p.obj, p.off, size if kind not in ("G1A", "G2A") else size - 15, v)

    def new(self, name, kind, v=None):
        o = Obj(name, SIZES[kind], "arg", 16)
        if v is not None:
            o.cells[0] = (SIZES[kind] if kind not in ("G1A", "G2A") else SIZES[kind] - 15, v)
        return o


# ---------------------------------------------------------------------------------------------------------------
# intercepts: the group layer (specifications established by C05/C06/C07/C01/C08/C10)
# ---------------------------------------------------------------------------------------------------------------
B = r"embedded_pairing::bls12_381::"
CORE = r"embedded_pairing::core::"
P1 = r"(?:%sProjective<%sFq>|%sG1)" % (B, B, B)
P2 = r"(?:%sProjective<%sFq2>|%sG2)" % (B, B, B)
A1 = r"(?:%sAffine<%sFq, %sFr, %sg1_b_coeff_var>|%sG1Affine)" % (B, B, B, B, B)
A2 = r"(?:%sAffine<%sFq2, %sFr, %sg2_b_coeff_var>|%sG2Affine)" % (B, B, B, B, B)
FQ12 = B + "Fq12"
BI256 = CORE + r"BigInt<256>"
PX = B + "PowersOfX"
ANY = r"\(.*\)"


def install(I, G, hooks=None):
    M = GrpMem(I, G)
    hooks = hooks or {}

    def kind_of_param(name, idx):
        """classify parameter idx of the demangled function by its declared type"""
        d = I.prog.demangled[name]
        return d

    def scalar_int(sv, what):
        if not sv.p.is_const():
            raise ExecError("unsupported", "%s on a scalar that is not an input integer (%r)" % (what, sv))
        return sv.p.const_term()

    for kind, PR, AR in (("G1", P1, A1), ("G2", P2, A2)):
        ak = kind + "A"

        def h_add(I_, name, args, site, kind=kind, ak=ak, AR=AR):
            d = I_.prog.demangled[name]
            second_affine = "Affine" in d.split("(", 1)[1].split(",")[-1]
            a = M.read(args[1], kind)
            b = M.read(args[2], ak if second_affine else kind)
            M.write(args[0], kind, GE(kind, a.p + b.p))

        def h_copy(I_, name, args, site, kind=kind):
            M.write(args[0], kind, M.read(args[1], kind))

        def h_dbl(I_, name, args, site, kind=kind):
            a = M.read(args[1], kind)
            M.write(args[0], kind, GE(kind, a.p + a.p))

        def h_neg(I_, name, args, site, kind=kind):
            M.write(args[0], kind, GE(kind, -M.read(args[1], kind).p))

        def h_from_affine(I_, name, args, site, kind=kind, ak=ak):
            M.write(args[0], kind, M.read(args[1], ak))

        def h_from_proj(I_, name, args, site, kind=kind, ak=ak):
            M.write(args[0], ak, M.read(args[1], kind))

        def h_aneg(I_, name, args, site, kind=kind, ak=ak):
            M.write(args[0], ak, GE(kind, -M.read(args[1], ak).p))

        def h_acopy(I_, name, args, site, ak=ak):
            M.write(args[0], ak, M.read(args[1], ak))

        def h_mul(I_, name, args, site, kind=kind, ak=ak):
            d = I_.prog.demangled[name]
            params = d.split("(", 1)[1]
            base_affine = "Affine" in params.split(",")[0]
            a = M.read(args[1], ak if base_affine else kind)
            s = M.read(args[2], "PX" if "PowersOfX" in params else "SC")
            M.write(args[0], kind, GE(kind, a.p * s.p))

        def h_mul_hb(I_, name, args, site, kind=kind, ak=ak):
            """multiply_doubleadd[_restrict](base, scalar, highest_bit): the ladder reads bits highest_bit..0 only, so the result is
            [scalar mod 2^(highest_bit+1)] base (the loop itself: C06's doubleadd obligations)"""
            d = I_.prog.demangled[name]
            params = d.split("(", 1)[1]
            base_affine = "Affine" in params.split(",")[0]
            hb = args[3]
            if not is_conc(hb):
                raise ExecError("unsupported", "multiply_doubleadd with a symbolic highest_bit")
            hb = hb if hb < (1 << 31) else hb - (1 << 32)
            a = M.read(args[1], ak if base_affine else kind)
            s = M.read(args[2], "SC")
            if hb >= 255:
                M.write(args[0], kind, GE(kind, a.p * s.p))
                return
            if hb < -1:
                raise ExecError("unsupported", "multiply_doubleadd with highest_bit = %d (the loop does not terminate before the bit index wraps)" % hb)
            k = scalar_int(s, "multiply_doubleadd(highest_bit=%d)" % hb)
            k = k % (1 << (hb + 1))
            M.write(args[0], kind, GE(kind, a.p * Poly.const(k)))

        def h_rand(I_, name, args, site, kind=kind):
            M.write(args[0], kind, GE(kind, G.fresh_sym("gen" + kind + "_")))

        def h_iszero(I_, name, args, site, kind=kind):
            a = M.read(args[0], kind)
            ok, _, _ = G.equal(a.p, Poly(), I_.path.pc)
            if ok:
                return 1
            if all(isinstance(c, int) for c in a.p.t.values()):
                return 0
            raise ExecError("undecided-branch", "is_zero of a group element whose logarithm depends on input scalars")
        I.add_intercept(PR + r"::add" + ANY, h_add, kind + "::add")
        I.add_intercept(PR + r"::copy" + ANY, h_copy, kind + "::copy")
        I.add_intercept(PR + r"::multiply2" + ANY, h_dbl, kind + "::multiply2")
        I.add_intercept(PR + r"::negate" + ANY, h_neg, kind + "::negate")
        I.add_intercept(r"void " + PR + r"::from_affine<.*>" + ANY, h_from_affine, kind + "::from_affine")
        I.add_intercept(PR + r"::from_affine" + ANY, h_from_affine, kind + "::from_affine")
        I.add_intercept(AR + r"::from_projective" + ANY, h_from_proj, ak + "::from_projective")
        I.add_intercept(AR + r"::negate" + ANY, h_aneg, ak + "::negate")
        I.add_intercept(AR + r"::copy" + ANY, h_acopy, ak + "::copy")
        I.add_intercept(r"(?:void )?" + PR + r"::multiply(?:_endomorphism|_frobenius|_wnaf|_doubleadd)?(?:<.*>)?\(.*(?:BigInt<256>|PowersOfX) const&\)", h_mul, kind + "::multiply")
        I.add_intercept(r"(?:void )?" + PR + r"::multiply_doubleadd(?:_restrict)?(?:<.*>)?\(.*BigInt<256> const&, int\)", h_mul_hb, kind + "::multiply_doubleadd(highest_bit)")
        I.add_intercept(PR + r"::random_generator" + ANY, h_rand, kind + "::random_generator")
        I.add_intercept(PR + r"::is_zero\(\) const", h_iszero, kind + "::is_zero")

    # ---- scalars
    def h_zpstar(I_, name, args, site):
        s = SV(G.fresh_sym("rnd"))
        if hooks.get("random_scalar"):
            s = hooks["random_scalar"](s)
        if len(args) == 3:
            M.write(args[0], "PX", s)
            M.write(args[1], "SC", s)
        else:
            M.write(args[0], "SC", s)
    I.add_intercept(r"embedded_pairing::(?:wkdibe|lqibe)::random_zpstar" + ANY, h_zpstar, "random_zpstar")

    def h_px_random(I_, name, args, site):
        s = SV(G.fresh_sym("rnd"))
        M.write(args[0], "PX", s)
        M.write(args[1], "SC", s)
    I.add_intercept(PX + r"::random" + ANY, h_px_random, "PowersOfX::random")

    def h_sub(I_, name, args, site):
        a = scalar_int(M.read(args[1], "SC"), "BigInt::subtract")
        b = scalar_int(M.read(args[2], "SC"), "BigInt::subtract")
        if isinstance(a, int) and isinstance(b, int):
            M.write(args[0], "SC", SV(Poly.const((a - b) % TWO256)))
            return int(a < b)
        borrow = a < b
        M.write(args[0], "SC", SV(Poly.const(z3.If(borrow, a - b + TWO256, a - b))))
        return borrow

    def h_addi(I_, name, args, site):
        a = scalar_int(M.read(args[1], "SC"), "BigInt::add")
        b = scalar_int(M.read(args[2], "SC"), "BigInt::add")
        if isinstance(a, int) and isinstance(b, int):
            M.write(args[0], "SC", SV(Poly.const((a + b) % TWO256)))
            return int(a + b >= TWO256)
        carry = a + b >= TWO256
        M.write(args[0], "SC", SV(Poly.const(z3.If(carry, a + b - TWO256, a + b))))
        return carry

    def h_eq(I_, name, args, site):
        a = scalar_int(M.read(args[0], "SC"), "BigInt::equal")
        b = scalar_int(M.read(args[1], "SC"), "BigInt::equal")
        if isinstance(a, int) and isinstance(b, int):
            return int(a == b)
        return a == b
    def h_hash_reduce(I_, name, args, site):
        """Fr::hash_reduce (C10): clear bit 255, subtract r once if the rest is >= r (r has 255 bits, so the result is below r); returns the cleared bit"""
        a = scalar_int(M.read(args[0], "SC"), "Fr::hash_reduce")
        if isinstance(a, int):
            t = a % (1 << 255)
            M.write(args[0], "SC", SV(Poly.const(t - R_ORDER if t >= R_ORDER else t)))
            return int(a >= (1 << 255))
        t = a % (1 << 255)
        M.write(args[0], "SC", SV(Poly.const(z3.If(t >= R_ORDER, t - R_ORDER, t))))
        return a >= (1 << 255)
    I.add_intercept(B + r"Fr::hash_reduce\(\)", h_hash_reduce, "Fr::hash_reduce")
    I.add_intercept(BI256 + r"::subtract" + ANY, h_sub, "BigInt<256>::subtract")
    I.add_intercept(BI256 + r"::add" + ANY, h_addi, "BigInt<256>::add")
    I.add_intercept(BI256 + r"::equal" + ANY, h_eq, "BigInt<256>::equal")

    # ---- target group and pairings
    def h_pairing(I_, name, args, site):
        a = M.read(args[1], "G1A")
        b = M.read(args[2], "G2A")
        M.write(args[0], "GT", GE("GT", a.p * b.p))
    I.add_intercept(r"void " + B + r"pairing<" + B + r"G2Affine>" + ANY, h_pairing, "pairing")

    def h_product(I_, name, args, site):
        n, m = args[2], args[4]
        if not is_conc(n) or not is_conc(m):
            raise ExecError("unsupported", "pairing_product with symbolic list length")
        if m != 0:
            raise ExecError("unsupported", "pairing_product with prepared pairs in the group model")
        tot = Poly()
        lay = I_.prog.layout(I_.prog.fn[name].module)
        for i in range(n):
            base = args[1]
            stride = 8 + 8 + 288            # AffinePair { G1Affine* g1; G2Affine* g2; G2 r; }
            g1p = I_.load(Ptr(base.obj, base.off + i * stride), eir.ir.PtrTy(eir.ir.IntTy(8)), lay)
            g2p = I_.load(Ptr(base.obj, base.off + i * stride + 8), eir.ir.PtrTy(eir.ir.IntTy(8)), lay)
            tot = tot + M.read(g1p, "G1A").p * M.read(g2p, "G2A").p
        M.write(args[0], "GT", GE("GT", tot))
    I.add_intercept(B + r"pairing_product" + ANY, h_product, "pairing_product")

    def h_gt_mul(I_, name, args, site):
        M.write(args[0], "GT", GE("GT", M.read(args[1], "GT").p + M.read(args[2], "GT").p))

    def h_gt_inv(I_, name, args, site):
        M.write(args[0], "GT", GE("GT", -M.read(args[1], "GT").p))

    def h_gt_sq(I_, name, args, site):
        a = M.read(args[1], "GT")
        M.write(args[0], "GT", GE("GT", a.p + a.p))

    def h_gt_copy(I_, name, args, site):
        M.write(args[0], "GT", M.read(args[1], "GT"))

    def h_gt_exp(I_, name, args, site):
        d = I_.prog.demangled[name]
        s = M.read(args[2], "PX" if "PowersOfX" in d else "SC")
        M.write(args[0], "GT", GE("GT", M.read(args[1], "GT").p * s.p))

    def h_gt_equal(I_, name, args, site):
        a, b = M.read(args[0], "GT"), M.read(args[1], "GT")
        f = G.equal_formula(a.p, b.p)
        if hooks.get("gt_equal"):
            hooks["gt_equal"](a, b, f)
        f = z3.simplify(f)
        if z3.is_true(f):
            return 1
        if z3.is_false(f):
            return 0
        return f
    I.add_intercept(FQ12 + r"::multiply\(" + FQ12 + r" const&, " + FQ12 + r" const&\)", h_gt_mul, "GT::multiply")
    I.add_intercept(FQ12 + r"::inverse" + ANY, h_gt_inv, "GT::inverse")
    I.add_intercept(FQ12 + r"::conjugate" + ANY, h_gt_inv, "GT::conjugate")
    I.add_intercept(FQ12 + r"::square(?:_cyclotomic)?" + ANY, h_gt_sq, "GT::square")
    I.add_intercept(FQ12 + r"::copy" + ANY, h_gt_copy, "GT::copy")
    I.add_intercept(FQ12 + r"::exponentiate_gt(?:_div|_nodiv)?" + ANY, h_gt_exp, "GT::exponentiate_gt")
    I.add_intercept(FQ12 + r"::equal" + ANY, h_gt_equal, "GT::equal")
    return M
