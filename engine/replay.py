"""Native replay: builds /repo's current tree with the Makefile's flags plus replay/driver.cpp and feeds it commands."""
import glob
import os
import subprocess
from . import build

VERIF = os.path.dirname(os.path.dirname(os.path.abspath(__file__)))
_built = {}

CONFIG_FLAGS = {"A": [], "P64": ["-DDISABLE_ASM"], "P32": ["-DDISABLE_ASM", "-U__SIZEOF_INT128__"]}


def build_native(config="A", repo=None):
    repo = repo or build.REPO
    key = (config, repo)
    if key in _built:
        return _built[key]
    d = build.workdir("native_" + config)
    flags = ["-std=c++17", "-I" + os.path.join(repo, "include"), "-Ofast", "-fno-vectorize"] + CONFIG_FLAGS[config]
    srcs = build.sources(repo, config)
    objs = []
    procs = []
    for s in srcs + [os.path.join(VERIF, "replay", "driver.cpp")]:
        o = os.path.join(d, os.path.basename(os.path.dirname(s)) + "_" + os.path.basename(s)[:-4] + ".o")
        extra = ["-I" + os.path.join(VERIF, "replay"), "-I" + os.path.join(repo, "src")] if s.endswith("driver.cpp") else []
        procs.append((s, subprocess.Popen(["clang++-14", "-c"] + flags + extra + [s, "-o", o], stderr=subprocess.PIPE, text=True)))
        objs.append(o)
    if config == "A":
        for s in sorted(glob.glob(os.path.join(repo, "src/core/arch/x86_64/*.s"))):
            o = os.path.join(d, "asm_" + os.path.basename(s)[:-2] + ".o")
            procs.append((s, subprocess.Popen(["as", s, "-o", o], stderr=subprocess.PIPE, text=True)))
            objs.append(o)
    for s, p in procs:
        _, err = p.communicate()
        if p.returncode != 0:
            raise RuntimeError("native build failed on %s:\n%s" % (s, err[-3000:]))
    exe = os.path.join(d, "driver")
    r = subprocess.run(["clang++-14"] + objs + ["-o", exe], capture_output=True, text=True)
    if r.returncode != 0:
        raise RuntimeError("link failed:\n" + r.stderr[-3000:])
    _built[key] = exe
    return exe


def run(lines, config="A", timeout=600):
    exe = build_native(config)
    r = subprocess.run([exe], input="\n".join(lines) + "\n", capture_output=True, text=True, timeout=timeout)
    if r.returncode != 0:
        raise RuntimeError("driver exit %d: %s" % (r.returncode, r.stderr[-500:]))
    return r.stdout.strip().split("\n")


def hex_fq(v):
    return "%096x" % v
