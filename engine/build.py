"""Regenerates LLVM IR / objects from /repo's current working tree (never cached across runs)."""
import os
import shutil
import subprocess
import glob
from . import irparse, eir

REPO = os.environ.get("VERIF_REPO", "/repo")
_WORK_BASE = os.environ.get("VERIF_WORK", os.path.join(os.path.dirname(os.path.dirname(os.path.abspath(__file__))), ".work"))
# One scratch tree per check process (run-<pid>): checks for different properties share program tags (C18 reuses C06's and C07's programs, ...),
# and workdir() wipes its directory, so two checks running at the same time must not share a tree.  Forked obligation workers inherit WORK.
_OWNER = os.getpid()
WORK = os.path.join(_WORK_BASE, "run-%d" % _OWNER)


def _cleanup():
    if os.getpid() == _OWNER:
        shutil.rmtree(WORK, ignore_errors=True)


def _reap_stale():
    """remove trees left behind by runs that were killed"""
    try:
        for d in os.listdir(_WORK_BASE):
            if d.startswith("run-"):
                try:
                    os.kill(int(d[4:]), 0)
                except (ProcessLookupError, ValueError):
                    shutil.rmtree(os.path.join(_WORK_BASE, d), ignore_errors=True)
                except PermissionError:
                    pass
    except FileNotFoundError:
        pass


import atexit
_reap_stale()
os.makedirs(WORK, exist_ok=True)
atexit.register(_cleanup)

IRFLAGS = ["-std=c++17", "-O1", "-fno-inline", "-fno-vectorize", "-fno-slp-vectorize", "-fno-unroll-loops",
           "-fno-exceptions", "-S", "-emit-llvm"]

CONFIGS = {
    "A": [],                                            # as shipped on x86-64 (assembly back end)
    "P64": ["-DDISABLE_ASM"],                           # portable, 64-bit words
    "P32": ["-DDISABLE_ASM", "-U__SIZEOF_INT128__"],    # portable, 32-bit words
}

HOOK_DEFINE = "-DJEDI_PAIRING_VERIF"


def sources(repo=None, config="A"):
    repo = repo or REPO
    out = []
    for d in ("src/core", "src/bls12_381", "src/wkdibe", "src/lqibe") + (("src/core/arch/x86_64",) if config == "A" else ()):
        out += sorted(glob.glob(os.path.join(repo, d, "*.cpp")))
    return out


def workdir(tag):
    d = os.path.join(WORK, tag)
    if os.path.isdir(d):
        shutil.rmtree(d)
    os.makedirs(d)
    return d


def emit_ir(config="A", files=None, tag=None, extra=(), repo=None):
    """compile the given repo-relative sources (default: all) to textual IR; returns {relpath: ll-path}.
    Within one run (one scratch tree) a tag is compiled once: concurrent obligation workers that need the same program wait on a lock and reuse it."""
    import fcntl
    import hashlib
    import json
    repo = repo or REPO
    tag = tag or ("ir_" + config)
    if files is None:
        srcs = sources(repo, config)
    else:
        srcs = [os.path.join(repo, f) for f in files]
    key = hashlib.sha1(json.dumps([config, srcs, list(extra), repo]).encode()).hexdigest()
    os.makedirs(WORK, exist_ok=True)
    with open(os.path.join(WORK, tag + ".lock"), "w") as lk:
        fcntl.flock(lk, fcntl.LOCK_EX)
        d = os.path.join(WORK, tag)
        marker = os.path.join(d, ".done")
        if os.path.exists(marker):
            try:
                m = json.load(open(marker))
                if m.get("key") == key and all(os.path.exists(p) for p in m["out"].values()):
                    return m["out"]
            except (ValueError, KeyError):
                pass
        d = workdir(tag)
        procs = []
        out = {}
        for s in srcs:
            rel = os.path.relpath(s, repo)
            ll = os.path.join(d, rel.replace("/", "_")[:-4] + ".ll")
            cmd = ["clang++-14", "-I" + os.path.join(repo, "include")] + IRFLAGS + CONFIGS[config] + [HOOK_DEFINE] + list(extra) + [s, "-o", ll]
            procs.append((rel, ll, subprocess.Popen(cmd, stdout=subprocess.PIPE, stderr=subprocess.PIPE, text=True)))
        for rel, ll, p in procs:
            so, se = p.communicate()
            if p.returncode != 0:
                raise RuntimeError("clang failed on %s:\n%s" % (rel, se[-2000:]))
            out[rel] = ll
        with open(marker, "w") as f:
            json.dump({"key": key, "out": out}, f)
        return out


def load_program(config="A", files=None, tag=None, extra=(), repo=None):
    lls = emit_ir(config, files, tag, extra, repo)
    mods = [irparse.parse_module(p) for p in lls.values()]
    return eir.Program(mods)
