"""Pointer-provenance facts of a whole build configuration as Horn clauses for z3's fixed-point engine (C20).

IR side (all functions of all TUs, flow-insensitive, context-insensitive, field-insensitive, inclusion based):
    PT(v, o)      SSA value v may point into abstract object o
    Heap(o, o')   some cell of object o may hold a pointer into o'
  abstract objects: one per global (internal ones per TU), one per function name, one per alloca site, and EXT = all
  memory owned by the caller (everything reachable from the pointer arguments of any library function).
  Every parameter of every defined function may point to EXT (any function may be called from outside) *and* receives
  the points-to sets of all actual arguments of all call sites of that name in all TUs.
Assembly side (x86-64, flow-sensitive per instruction):
    Holds(pc, reg, src)   before pc, reg may hold the value that argument register #src held on entry, or DATA
  from which AsmWrites(routine, i) / AsmReads(routine, i) are derived; calls from the IR into a routine (direct, or
  through a dispatch pointer whose points-to set the same fixed point computes) write through exactly those arguments.
Queries (all decided by z3.Fixedpoint, engine=datalog, over finite bit-vector sorts) are posed by checks/c20.py.
"""
import re
import subprocess
import z3

from . import irparse as ir

EXT = "<caller-memory>"
ARGREGS = ["rdi", "rsi", "rdx", "rcx", "r8", "r9"]
DATA = 6                  # Holds(...) source id: not one of the entry argument registers
REGS64 = ["rax", "rbx", "rcx", "rdx", "rsi", "rdi", "rbp", "rsp"] + ["r%d" % i for i in range(8, 16)]

INIT_FN = re.compile(r"(__cxx_global_var_init(\.\d+)?|_GLOBAL__sub_I_.*)$")
MEMCPY = re.compile(r"(llvm\.memcpy\.|llvm\.memmove\.|memcpy$|memmove$)")
MEMSET = re.compile(r"(llvm\.memset\.|memset$)")
# callees that write no memory and return no pointer (pure arithmetic intrinsics, markers, comparisons)
NOWRITE = re.compile(r"(llvm\.lifetime\.|llvm\.invariant\.|llvm\.assume|llvm\.experimental\.noalias|llvm\.dbg\.|"
                     r"llvm\.[us](add|sub|mul)\.with\.overflow\.|llvm\.fsh[lr]\.|llvm\.bswap\.|llvm\.[us](min|max)\.|"
                     r"llvm\.ct(lz|tz|pop)\.|llvm\.abs\.|memcmp$|bcmp$)")


class Problem(Exception):
    """the fact extractor met something it has no rule for (the obligation becomes inconclusive, never proved)"""


def global_refs(v, out=None):
    out = set() if out is None else out
    if isinstance(v, ir.GlobalRef):
        out.add(v.name)
    elif isinstance(v, ir.ConstExpr):
        for (_, a) in v.args:
            global_refs(a, out)
    elif isinstance(v, ir.ConstAgg):
        for (_, a) in v.els:
            global_refs(a, out)
    return out


class Horn:
    OUT = ["BadWrite", "BadCallee", "Unres", "UnresCall", "GlobalWrite", "CallTarget", "BadBase", "Dead", "AsmWrites", "AsmReads"]

    def __init__(self):
        self.fp = z3.Fixedpoint()
        self.fp.set(engine="datalog")
        self.V = z3.BitVecSort(20)
        self.O = z3.BitVecSort(16)
        self.S = z3.BitVecSort(16)
        self.I = z3.BitVecSort(16)      # argument index / entry-register id   (all 16 bit so that one output relation can carry any verdict tuple)
        self.P = z3.BitVecSort(16)
        self.R = z3.BitVecSort(16)
        self.ids = {"V": {}, "O": {}, "S": {}}
        self.names = {"V": [], "O": [], "S": []}
        self.rel = {}
        self.nfacts = 0
        self.nrules = 0
        self.queries = 0
        self.solver_s = 0.0
        self.obj_kind = {}      # object id -> 'global' | 'fn' | 'alloca' | 'ext'
        self.log = {}
        self.site_meta = {}     # site id -> dict
        B = z3.BoolSort()
        V, O, S, I, P, R = self.V, self.O, self.S, self.I, self.P, self.R
        for name, sig in {
            "PT": (V, O), "Heap": (O, O), "Copy": (V, V), "Load": (V, V), "Store": (V, V), "MemCpy": (V, V),
            "Wr": (S, V), "ICall": (S, V), "ICallArg": (S, I, V), "ICallRes": (S, V), "FnParam": (O, I, V), "FnRet": (O, V),
            "GlobalObj": (O,), "Callable": (O,), "Allowed": (S, O), "HasPT": (V,),
            "BadWrite": (S, O), "GlobalWrite": (S, O), "Unres": (S,), "UnresCall": (S,), "BadCallee": (S, O), "CallTarget": (S, O),
            "AsmWrites": (O, I), "AsmReads": (O, I),
            "Succ": (P, P), "Entry": (P, O), "Kill": (P, R), "RCopy": (P, R, R), "Gen": (P, R), "MemRd": (P, R), "MemWr": (P, R),
            "Holds": (P, R, I), "RReach": (O, P), "Reach": (P,), "BadBase": (P, R), "Ins": (P,), "Dead": (P,),
            "Out": (S, S, S),
        }.items():
            self.rel[name] = z3.Function(name, *(sig + (B,)))
            self.fp.register_relation(self.rel[name])
        self._rules()

    def id(self, kind, key):
        d = self.ids[kind]
        if key not in d:
            if len(d) >= (1 << 20 if kind == "V" else 1 << 16) - 1:
                raise Problem("too many %s identifiers for the finite sort" % kind)
            d[key] = len(d)
            self.names[kind].append(key)
        return d[key]

    def _c(self, sort, n):
        return z3.BitVecVal(n, sort)

    def fact(self, name, *args):
        if name in ("Copy", "PT", "Wr"):        # kept only to print a derivation next to a violation (explain()); verdicts come from z3
            self.log.setdefault(name, {}).setdefault(args[0], []).append(args[1])
        if name == "ICallArg":
            self.log.setdefault("Wr", {}).setdefault(args[0], []).append(args[2])
        r = self.rel[name]
        self.fp.fact(r(*[self._c(r.domain(i), a) for i, a in enumerate(args)]))
        self.nfacts += 1

    def rule(self, head, body):
        self.fp.rule(head, body)
        self.nrules += 1

    def _rules(self):
        r = self.rel
        V, O, S, I, P, R = self.V, self.O, self.S, self.I, self.P, self.R
        v, w, c, a, p_ = z3.Consts("v w c a p_", V)
        o, o2, f = z3.Consts("o o2 f", O)
        s, = z3.Consts("s", S)
        i, src = z3.Consts("i src", I)
        p, q = z3.Consts("p q", P)
        x, y = z3.Consts("x y", R)
        self.fp.declare_var(v, w, c, a, p_, o, o2, f, s, i, src, p, q, x, y)
        ext = self._c(O, self.obj(EXT, "ext"))
        N = z3.Not
        # ---- IR: inclusion-based points-to
        self.rule(r["PT"](v, o), [r["Copy"](v, w), r["PT"](w, o)])
        self.rule(r["PT"](v, o2), [r["Load"](v, a), r["PT"](a, o), r["Heap"](o, o2)])
        self.rule(r["Heap"](o, o2), [r["Store"](v, a), r["PT"](a, o), r["PT"](v, o2)])
        self.rule(r["Heap"](o, o2), [r["MemCpy"](v, w), r["PT"](v, o), r["PT"](w, f), r["Heap"](f, o2)])
        self.rule(r["HasPT"](v), [r["PT"](v, o)])
        # calls through a value c (direct calls to functions without IR body are posed the same way: c points to the function object)
        self.rule(r["CallTarget"](s, f), [r["ICall"](s, c), r["PT"](c, f)])
        self.rule(r["PT"](p_, o), [r["CallTarget"](s, f), r["ICallArg"](s, i, a), r["FnParam"](f, i, p_), r["PT"](a, o)])
        self.rule(r["PT"](v, o), [r["CallTarget"](s, f), r["ICallRes"](s, v), r["FnRet"](f, w), r["PT"](w, o)])
        self.rule(r["Wr"](s, a), [r["CallTarget"](s, f), r["AsmWrites"](f, i), r["ICallArg"](s, i, a)])
        # caller-supplied callbacks (callee points to caller memory): write through every pointer they are handed, may leave
        # caller pointers in the objects they are handed, return caller pointers
        self.rule(r["Wr"](s, a), [r["CallTarget"](s, ext), r["ICallArg"](s, i, a)])
        self.rule(r["Heap"](o, ext), [r["CallTarget"](s, ext), r["ICallArg"](s, i, a), r["PT"](a, o)])
        self.rule(r["PT"](v, ext), [r["CallTarget"](s, ext), r["ICallRes"](s, v)])
        # verdict relations
        self.rule(r["GlobalWrite"](s, o), [r["Wr"](s, a), r["PT"](a, o), r["GlobalObj"](o)])
        self.rule(r["BadWrite"](s, o), [r["GlobalWrite"](s, o), N(r["Allowed"](s, o))])
        self.rule(r["Unres"](s), [r["Wr"](s, a), N(r["HasPT"](a))])
        self.rule(r["UnresCall"](s), [r["ICall"](s, c), N(r["HasPT"](c))])
        self.rule(r["BadCallee"](s, o), [r["CallTarget"](s, o), N(r["Callable"](o))])
        # ---- assembly: flow-sensitive register provenance
        self.rule(r["RReach"](f, p), [r["Entry"](p, f)])
        self.rule(r["RReach"](f, q), [r["RReach"](f, p), r["Succ"](p, q)])
        self.rule(r["Reach"](p), [r["RReach"](f, p)])
        self.rule(r["Holds"](q, x, src), [r["Holds"](p, x, src), r["Succ"](p, q), N(r["Kill"](p, x))])
        self.rule(r["Holds"](q, y, src), [r["Holds"](p, x, src), r["Succ"](p, q), r["RCopy"](p, x, y)])
        self.rule(r["Holds"](q, x, self._c(I, DATA)), [r["Reach"](p), r["Succ"](p, q), r["Gen"](p, x)])
        self.rule(r["BadBase"](p, x), [r["Reach"](p), r["MemRd"](p, x), r["Holds"](p, x, self._c(I, DATA))])
        self.rule(r["BadBase"](p, x), [r["Reach"](p), r["MemWr"](p, x), r["Holds"](p, x, self._c(I, DATA))])
        self.rule(r["AsmWrites"](f, src), [r["RReach"](f, p), r["MemWr"](p, x), r["Holds"](p, x, src)])
        self.rule(r["AsmReads"](f, src), [r["RReach"](f, p), r["MemRd"](p, x), r["Holds"](p, x, src)])
        self.rule(r["Dead"](p), [r["Ins"](p), N(r["Reach"](p))])
        # ---- one output relation: (verdict kind, column 1, column 2); a single fixed-point query answers all verdict relations
        zero = self._c(S, 0)
        for k, name in enumerate(self.OUT):
            rel = r[name]
            if rel.arity() == 2:
                self.rule(r["Out"](self._c(S, k), s, o), [rel(s, o)])
            else:
                self.rule(r["Out"](self._c(S, k), s, zero), [rel(s)])

    # ------------------------------------------------------------------ objects
    def obj(self, key, kind):
        n = self.id("O", key)
        if n not in self.obj_kind:
            self.obj_kind[n] = kind
            if kind == "global":
                self.fact("GlobalObj", n)
            if kind == "ext":
                self.fact("Callable", n)
        return n

    # ------------------------------------------------------------------ queries
    def verdicts(self):
        """{relation name: [tuples]} for all verdict relations, from ONE query of the fixed-point engine"""
        res = {name: [] for name in self.OUT}
        for (k, a, b) in self.query("Out", limit=5000):
            res[self.OUT[k]].append((a, b) if self.rel[self.OUT[k]].arity() == 2 else (a,))
        return res

    def explain(self, site, obj, limit=12):
        """a copy chain (call arguments, GEPs, casts, phis) from an operand that names the object to the written address, if one exists
        without going through memory; purely informative"""
        todo = list(self.log.get("Wr", {}).get(site, []))
        prev = {v: None for v in todo}
        while todo:
            v = todo.pop(0)
            if obj in self.log.get("PT", {}).get(v, []):
                chain = []
                while v is not None:
                    key = self.names["V"][v]
                    chain.append("%s:%s" % (key[1], key[2]) if key[0] not in ("const", "noaddr") else "@" + ",@".join(key[2]) if key[0] == "const" else "?")
                    v = prev[v]
                return " -> ".join(chain[:limit])
            for w in self.log.get("Copy", {}).get(v, []):
                if w not in prev:
                    prev[w] = v
                    todo.append(w)
        return None

    def query(self, name, limit=400):
        """all tuples of relation `name` (the fixed point is computed by z3; the answer formula is enumerated with a solver)"""
        import time
        t0 = time.time()
        res = self.fp.query(self.rel[name])
        self.queries += 1
        if res == z3.unknown:
            self.solver_s += time.time() - t0
            raise Problem("fixed-point engine answered unknown for " + name)
        if res == z3.unsat:
            self.solver_s += time.time() - t0
            return []
        ans = self.fp.get_answer()
        rel = self.rel[name]
        cs = [z3.Const("col%d" % k, rel.domain(k)) for k in range(rel.arity())]
        fml = z3.substitute_vars(ans, *cs)
        sol = z3.Solver()
        sol.add(fml)
        out = []
        while len(out) < limit and sol.check() == z3.sat:
            m = sol.model()
            tup = tuple(m.eval(c, model_completion=True).as_long() for c in cs)
            out.append(tup)
            sol.add(z3.Or(*[c != t for c, t in zip(cs, tup)]))
        self.solver_s += time.time() - t0
        return out


# ========================================================================================================================
# IR facts
# ========================================================================================================================
class IRFacts:
    def __init__(self, horn, modules, asm_routines=()):
        self.h = horn
        self.mods = modules
        self.asm_routines = set(asm_routines)
        self.defs = {}            # function name -> [(tu, Function)]
        self.externals = {}       # name -> number of call sites (functions without IR body that are called / referenced)
        self.unknown_intrinsics = set()
        self.init_called_from = []   # (ordinary function, initialiser) pairs
        self.nfunctions = 0
        self.ninstr = 0
        self.nsites = 0
        self._const_done = set()
        for m in modules:
            for f in m.functions.values():
                if not f.is_decl:
                    self.defs.setdefault(f.name, []).append((self.tu(m), f))

    @staticmethod
    def tu(m):
        import os
        return os.path.basename(m.path)[:-3]

    def is_internal(self, m, name):
        g = m.globals.get(name)
        if g is not None:
            return bool({"internal", "private"} & set(g.linkage))
        f = m.functions.get(name)
        return f is not None and bool({"internal", "private"} & set(f.linkage.split()))

    def gobj(self, m, name):
        """abstract object of @name as seen from module m"""
        key_local = ("@", self.tu(m), name)
        key = key_local if self.is_internal(m, name) else ("@", name)
        if name in m.functions or name in self.defs:
            return self.h.obj(("fn",) + key[1:], "fn")
        if name in m.globals:
            return self.h.obj(key, "global")
        raise Problem("reference to unknown symbol @%s in %s" % (name, self.tu(m)))

    def val(self, m, fn, v):
        """value id of an operand, or None for a constant that carries no address"""
        if isinstance(v, ir.Reg):
            return self.h.id("V", (self.tu(m), fn.name, v.name))
        refs = global_refs(v)
        if not refs:
            return None
        vid = self.h.id("V", ("const", self.tu(m), tuple(sorted(refs))))
        if vid not in self._const_done:
            self._const_done.add(vid)
            for g in refs:
                self.h.fact("PT", vid, self.gobj(m, g))
        return vid

    def site(self, m, fn, ins, kind):
        n = self.h.id("S", (self.tu(m), fn.name, len(self.h.names["S"])))
        self.h.site_meta[n] = {"tu": self.tu(m), "function": fn.name, "kind": kind, "instruction": ins.text[:240],
                               "init": self.is_init(fn)}
        self.nsites += 1
        return n

    @staticmethod
    def is_init(fn):
        """compiler-generated static-initialiser function (reserved name AND internal linkage)"""
        return bool(INIT_FN.match(fn.name)) and "internal" in fn.linkage.split()

    def copy(self, m, fn, dst, src):
        s = self.val(m, fn, src)
        if s is not None:
            self.h.fact("Copy", dst, s)

    def emit(self):
        h = self.h
        ext = h.obj(EXT, "ext")
        h.fact("Heap", ext, ext)
        for m in self.mods:
            for g in m.globals.values():
                if g.name.startswith("llvm."):
                    continue
                if g.init is not None:
                    go = self.gobj(m, g.name)
                    for ref in global_refs(g.init):
                        h.fact("Heap", go, self.gobj(m, ref))
            for f in m.functions.values():
                if f.is_decl:
                    continue
                self.nfunctions += 1
                fo = self.gobj(m, f.name)
                h.fact("Callable", fo)
                rv = h.id("V", (self.tu(m), f.name, "<ret>"))
                h.fact("FnRet", fo, rv)
                for k, prm in enumerate(f.params):
                    pv = h.id("V", (self.tu(m), f.name, prm.name))
                    h.fact("PT", pv, ext)
                    if k < 16:
                        h.fact("FnParam", fo, k, pv)
                for label in f.order:
                    for ins in f.blocks[label]:
                        self.ninstr += 1
                        self.instr(m, f, ins, rv)
        for name in self.asm_routines:
            h.fact("Callable", h.obj(("fn", name), "fn"))

    def instr(self, m, f, ins, rv):
        h = self.h
        op = ins.op
        res = h.id("V", (self.tu(m), f.name, ins.res)) if ins.res is not None else None
        if op == "alloca":
            h.fact("PT", res, h.obj(("alloca", self.tu(m), f.name, ins.res), "alloca"))
        elif op == "load":
            a = self.val(m, f, ins.args[0])
            if a is not None:
                h.fact("Load", res, a)
        elif op == "store":
            a = self.val(m, f, ins.args[1])
            if a is None:
                a = h.id("V", ("noaddr", self.tu(m), f.name, len(h.names["V"])))     # constant address: no provenance -> Unres
            v = self.val(m, f, ins.args[0])
            if v is not None:
                h.fact("Store", v, a)
            h.fact("Wr", self.site(m, f, ins, "store"), a)
        elif op == "getelementptr":
            for (_, v) in ins.args:
                self.copy(m, f, res, v)
        elif op in ir.CASTS or op == "freeze" or op == "extractvalue":
            self.copy(m, f, res, ins.args[0])
        elif op in ir.BINOPS or op == "insertvalue":
            self.copy(m, f, res, ins.args[0])
            self.copy(m, f, res, ins.args[1])
        elif op == "select":
            self.copy(m, f, res, ins.args[1])
            self.copy(m, f, res, ins.args[2])
        elif op == "phi":
            for (v, _) in ins.args:
                self.copy(m, f, res, v)
        elif op == "ret":
            if ins.args:
                self.copy(m, f, rv, ins.args[0])
        elif op == "call":
            self.call(m, f, ins, res)
        elif op in ("br", "switch", "unreachable", "icmp"):
            pass
        else:
            raise Problem("no provenance rule for instruction: " + ins.text[:160])

    def call(self, m, f, ins, res):
        h = self.h
        callee = ins.extra
        args = [self.val(m, f, av) for (_, av, _) in ins.args]
        if isinstance(callee, ir.GlobalRef):
            name = callee.name
            if MEMCPY.match(name) or MEMSET.match(name):
                a = args[0] if args[0] is not None else h.id("V", ("noaddr", self.tu(m), f.name, len(h.names["V"])))
                h.fact("Wr", self.site(m, f, ins, "mem-intrinsic"), a)
                if MEMCPY.match(name) and args[1] is not None:
                    h.fact("MemCpy", a, args[1])
                if res is not None:
                    h.fact("Copy", res, a)
                return
            if NOWRITE.match(name):
                return
            if name.startswith("llvm."):
                self.unknown_intrinsics.add(name)
                return
            if INIT_FN.match(name) and not self.is_init(f):
                self.init_called_from.append((f.name, name))
            targets = [(tu, d) for (tu, d) in self.defs.get(name, []) if tu == self.tu(m)]
            targets += [(tu, d) for (tu, d) in self.defs.get(name, []) if tu != self.tu(m) and "internal" not in d.linkage.split()
                        and not self.is_internal(m, name)]
            if targets:
                for tu, d in targets:
                    for k, a in enumerate(args[:len(d.params)]):
                        if a is not None:
                            h.fact("Copy", h.id("V", (tu, d.name, d.params[k].name)), a)
                    if res is not None:
                        h.fact("Copy", res, h.id("V", (tu, d.name, "<ret>")))
                return
            # no IR body anywhere in this configuration: assembly routine or a foreign function
            self.externals[name] = self.externals.get(name, 0) + 1
        s = self.site(m, f, ins, "call")
        c = self.val(m, f, callee)
        if c is None:
            c = h.id("V", ("noaddr", self.tu(m), f.name, len(h.names["V"])))
        h.fact("ICall", s, c)
        for k, a in enumerate(args[:16]):
            if isinstance(ins.args[k][0], ir.PtrTy):          # only pointer-typed actuals can be written through / bound to pointer parameters
                if a is None:
                    if isinstance(ins.args[k][1], (ir.ConstNull, ir.ConstUndef)):
                        continue
                    a = h.id("V", ("noaddr", self.tu(m), f.name, len(h.names["V"])))
                h.fact("ICallArg", s, k, a)
        if res is not None:
            h.fact("ICallRes", s, res)


# ========================================================================================================================
# x86-64 assembly facts (AT&T syntax as printed by llvm-objdump)
# ========================================================================================================================
_SUB = {}
for _r in REGS64:
    _SUB[_r] = _r
for _a, _b in (("eax", "rax"), ("ebx", "rbx"), ("ecx", "rcx"), ("edx", "rdx"), ("esi", "rsi"), ("edi", "rdi"), ("ebp", "rbp"), ("esp", "rsp"),
               ("ax", "rax"), ("bx", "rbx"), ("cx", "rcx"), ("dx", "rdx"), ("si", "rsi"), ("di", "rdi"), ("bp", "rbp"), ("sp", "rsp"),
               ("al", "rax"), ("bl", "rbx"), ("cl", "rcx"), ("dl", "rdx"), ("ah", "rax"), ("bh", "rbx"), ("ch", "rcx"), ("dh", "rdx"),
               ("sil", "rsi"), ("dil", "rdi"), ("bpl", "rbp"), ("spl", "rsp")):
    _SUB[_a] = _b
for _i in range(8, 16):
    for _suf in ("d", "w", "b"):
        _SUB["r%d%s" % (_i, _suf)] = "r%d" % _i

_MEM = re.compile(r"^(?:%(\w+):)?(-?(?:0x)?[0-9a-fA-F]*)\((?:%(\w+))?(?:,%(\w+))?(?:,(\d))?\)$")
ALU2 = {"add", "adc", "sub", "sbb", "and", "or", "xor", "adcx", "adox", "imul", "shl", "shr", "sar", "rol", "ror", "shld", "shrd"}
ALU1 = {"neg", "not", "inc", "dec"}
READONLY = {"cmp", "test", "bt"}
SIZES = "qlwb"


class AsmFacts:
    """parses `llvm-objdump -d -r` of the assembled .s files; everything not understood is recorded in .problems"""

    def __init__(self, horn, objs):
        self.h = horn
        self.objs = objs
        self.ins = []             # (pc id, obj, addr, mnemonic, ops, text)
        self.problems = []        # unmodelled instructions -> inconclusive
        self.violations = []      # (kind, text)
        self.routines = {}        # global text symbol -> pc id
        self.relocs = []
        self.mem_ops = 0
        self.mem_writes = 0

    def parse(self):
        import os
        for o in self.objs:
            nm = subprocess.run(["llvm-nm-14", o], capture_output=True, text=True, check=True).stdout
            glob = {}
            for line in nm.split("\n"):
                parts = line.split()
                if len(parts) == 3 and parts[1] == "T":
                    glob[int(parts[0], 16)] = parts[2]
            out = subprocess.run(["llvm-objdump-14", "-d", "-r", "--no-show-raw-insn", o], capture_output=True, text=True, check=True).stdout
            base = len(self.ins)
            addr2pc = {}
            local = []
            for line in out.split("\n"):
                mm = re.match(r"^\s*([0-9a-f]+):\s+(R_\S+)\s+(\S+)", line)
                if mm:
                    self.relocs.append("%s: relocation %s against %s in assembly text (reference to a symbol outside the routine)"
                                       % (os.path.basename(o), mm.group(2), mm.group(3)))
                    continue
                mm = re.match(r"^\s*([0-9a-f]+):\s+(\S+)\s*(.*)$", line)
                if mm and not line.startswith("Disassembly"):
                    addr = int(mm.group(1), 16)
                    ops = split_ops(re.sub(r"\s*<[^>]*>", "", mm.group(3).split("#")[0].strip()))
                    pc = len(self.ins)
                    addr2pc[addr] = pc
                    self.ins.append((pc, os.path.basename(o), addr, mm.group(2), ops, line.strip()))
                    local.append(pc)
            for addr, name in glob.items():
                if addr not in addr2pc:
                    raise Problem("symbol %s does not start an instruction" % name)
                self.routines[name] = addr2pc[addr]
            self._flow(local, addr2pc)
        # a reference to static data that is only READ is not a write-freedom violation, but its provenance is not modelled here
        self.problems += self.relocs
        return self

    def _flow(self, local, addr2pc):
        h = self.h
        for k, pc in enumerate(local):
            h.fact("Ins", pc)
            _, obj, addr, mn, ops, text = self.ins[pc]
            nxt = local[k + 1] if k + 1 < len(local) else None
            succ = []
            if mn.startswith("ret"):
                pass
            elif mn.startswith("j"):
                if len(ops) != 1 or not re.fullmatch(r"0x[0-9a-f]+", ops[0]) or int(ops[0], 16) not in addr2pc:
                    self.problems.append("indirect or external branch: " + text)
                else:
                    succ.append(addr2pc[int(ops[0], 16)])
                if not mn.startswith("jmp") and nxt is not None:
                    succ.append(nxt)
            else:
                if nxt is not None:
                    succ.append(nxt)
                self._effect(pc, mn, ops, text)
            for q in succ:
                h.fact("Succ", pc, q)

    def _reg(self, op):
        if op.startswith("%") and op[1:] in _SUB:
            return _SUB[op[1:]], op[1:] in REGS64
        return None, False

    def _mem(self, pc, op, write, text):
        """returns True if op is a memory operand (facts emitted)"""
        if op.startswith("%") or op.startswith("$"):
            return False
        mm = _MEM.match(op)
        if not mm:
            self.violations.append(("absolute", "memory operand with absolute address: " + text))
            return True
        seg, disp, base, index, scale = mm.groups()
        self.mem_ops += 1
        self.mem_writes += 1 if write else 0
        if seg:
            self.violations.append(("segment", "segment-relative (thread-local?) memory operand: " + text))
            return True
        if base is None:
            self.violations.append(("absolute", "memory operand without base register: " + text))
            return True
        if base == "rip":
            if write:
                self.violations.append(("rip-write", "write to rip-relative (static) data: " + text))
            else:
                self.problems.append("read of rip-relative (static) data, not modelled: " + text)
            return True
        if index is not None:
            self.problems.append("indexed addressing not modelled: " + text)
        b, _ = self._reg("%" + base)
        if b is None:
            self.problems.append("unknown base register: " + text)
            return True
        if b != "rsp":                      # rsp-based = own frame; rsp itself is only changed by push/pop (checked in _def)
            self.h.fact("MemWr" if write else "MemRd", pc, REGS64.index(b))
        return True

    def _def(self, pc, reg, full, text, keep=False):
        if reg is None:
            self.problems.append("destination is not a register: " + text)
            return
        if reg == "rsp":
            self.problems.append("stack pointer modified other than by push/pop: " + text)
        self.h.fact("Gen", pc, REGS64.index(reg))
        if full and not keep:
            self.h.fact("Kill", pc, REGS64.index(reg))

    def _effect(self, pc, mn, ops, text):
        h = self.h
        base = mn
        if base not in ("cpuid", "seto", "setb", "setc", "setz", "sete", "setne", "nop") and base[-1] in SIZES and base[:-1] in (
                ALU2 | ALU1 | READONLY | {"mov", "mul", "mulx", "push", "pop", "lea"}):
            base = base[:-1]
        if base == "mov" or base == "lea":
            src, dst = ops
            if base == "lea":
                self.problems.append("lea not modelled: " + text)
            d, dfull = self._reg(dst)
            if d is None:
                self._mem(pc, dst, True, text)
            else:
                s, sfull = self._reg(src)
                if d == "rsp":
                    self.problems.append("stack pointer overwritten: " + text)
                if s is not None and sfull and dfull:
                    if s != d:
                        h.fact("Kill", pc, REGS64.index(d))
                        h.fact("RCopy", pc, REGS64.index(s), REGS64.index(d))
                else:
                    self._mem(pc, src, False, text)
                    self._def(pc, d, dfull or dst[1:].startswith("e") or dst.endswith("d"), text)
        elif base in ALU2:
            if len(ops) == 3:            # imul $imm, src, dst
                self._mem(pc, ops[1], False, text)
                d, dfull = self._reg(ops[2])
                self._def(pc, d, True, text)
                return
            src, dst = ops
            d, dfull = self._reg(dst)
            s, sfull = self._reg(src)
            if d is None:
                self._mem(pc, dst, True, text)
                return
            if d == "rsp" and not src.startswith("$"):
                self.problems.append("stack pointer computed from a register or memory: " + text)
            if s is not None:
                if s == d and base in ("xor", "sub", "sbb"):
                    self._def(pc, d, True, text)
                elif s != d:
                    h.fact("RCopy", pc, REGS64.index(s), REGS64.index(d))     # dst keeps its own provenance and gains src's
            elif not src.startswith("$"):
                self._mem(pc, src, False, text)
                self._def(pc, d, False, text, keep=True)
        elif base in ALU1:
            d, _ = self._reg(ops[0])
            if d is None:
                self._mem(pc, ops[0], True, text)
        elif base in READONLY:
            for o in ops:
                self._mem(pc, o, False, text)
        elif base == "mul":
            self._mem(pc, ops[0], False, text)
            self._def(pc, "rax", True, text)
            self._def(pc, "rdx", True, text)
        elif base == "mulx":
            self._mem(pc, ops[0], False, text)
            for o in ops[1:]:
                self._def(pc, self._reg(o)[0], True, text)
        elif base == "push":
            if self._reg(ops[0])[0] is None and not ops[0].startswith("$"):
                self._mem(pc, ops[0], False, text)
        elif base == "pop":
            d, _ = self._reg(ops[0])
            if d is None:
                self._mem(pc, ops[0], True, text)
            else:
                if d == "rsp":
                    self.problems.append("stack pointer popped: " + text)
                h.fact("Gen", pc, REGS64.index(d))
                h.fact("Kill", pc, REGS64.index(d))
        elif base.startswith("set") and len(ops) == 1:
            d, _ = self._reg(ops[0])
            if d is None:
                self._mem(pc, ops[0], True, text)
            else:
                self._def(pc, d, False, text, keep=True)
        elif base == "cpuid":
            for d in ("rax", "rbx", "rcx", "rdx"):
                self._def(pc, d, True, text)
        elif base == "nop":
            pass
        else:
            self.problems.append("unmodelled instruction: " + text)

    def emit(self):
        h = self.h
        for name, pc in self.routines.items():
            fo = h.obj(("fn", name), "fn")
            h.fact("Entry", pc, fo)
            for r in REGS64:
                if r in ARGREGS:
                    h.fact("Holds", pc, REGS64.index(r), ARGREGS.index(r))
                elif r != "rsp":
                    h.fact("Holds", pc, REGS64.index(r), DATA)


def split_ops(s):
    out, depth, cur = [], 0, ""
    for ch in s:
        depth += ch == "("
        depth -= ch == ")"
        if ch == "," and depth == 0:
            out.append(cur.strip())
            cur = ""
        else:
            cur += ch
    if cur.strip():
        out.append(cur.strip())
    return out
