"""E-ASM for ARMv6-M (Thumb-1): interpreter over the instruction list produced by engine/gas_macro.py from the
GNU-as divided-syntax sources src/core/arch/armv6_m/*.s (DESIGN.md sections 3.1, 3.2).

Two word domains, one instruction semantics:
  concrete  registers are python ints (used for the interpreter self-test against python big integers and to replay
            solver models: there is no ARM hardware or emulator in this sandbox)
  lin       registers are D-LIN affine integer forms (engine/dom_lin.py, extended below by `Lin32`): every 32-bit wrap
            introduces one quotient variable; a 16x16 `mul` of symbolic halves is an opaque product; `uxth`/`lsr`/`lsl`
            split a form at a bit position (structurally when the form allows it, otherwise with a quotient variable).
Flag model (ARMv6-M ARM, A6.7): add/adc/sub/sbc/rsb write NZCV with C = carry, and C = NOT borrow for subtraction; lsl/lsr #n
write NZ and C = last bit shifted out (evaluated lazily: the Montgomery meta-carry travels through `lsr r3,r3,#1`);
eor/mul write NZ only and keep C; high-register mov/add and uxth/ldr/str/ldm/stm/push/pop keep all flags; `mov lo,lo`
may be assembled flag-setting or flag-preserving, so the flags become POISON and a read of poison is a violation.
N, Z, V are never read by these sources (no conditional instruction): any instruction that would need them is unsupported.
Checked on every run of every routine: 4-byte alignment, loads inside operand objects / own frame / declared stack
arguments, stores inside writable objects / own frame, nothing below sp, sp and r4-r11 restored, return to the caller's
lr, no read of an uninitialised register or stack word, no carry silently dropped (a carry flag overwritten unread must be
proved zero by the solver, else it is listed in `lost_carries`).
"""
import z3

from .eir import ExecError, MemViolation, Ptr, Obj
from .dom_lin import LV, LinCtx
from . import gas_macro

M32 = (1 << 32) - 1
LOWREGS = ["r%d" % i for i in range(8)]
CALLEE_SAVED = ["r%d" % i for i in range(4, 12)]
REGS = ["r%d" % i for i in range(13)] + ["sp", "lr"]
ENTRY = 512          # offset of the entry sp inside the stack object (8-byte aligned per AAPCS)
PREFIX = "embedded_pairing_core_arch_armv6_m_"


class _Poison:
    def __repr__(self):
        return "poison-flags"


POISON = _Poison()


class Lazy:
    """carry-out of a shift, materialised only if some instruction reads it"""
    def __init__(self, fn):
        self.fn = fn


# ---------------------------------------------------------------------------------------------------------------
def hard_check(assertions, timeout_s, want_model=False):
    """z3 on a list of assertions in a child process that is killed at the deadline (z3's own timeout is not always honoured on
    the large linear contexts of the multiply kernels: one in-process query was observed to run for >15 minutes).
    Returns ('unsat'|'sat'|'unknown', model dict or None)."""
    import os
    import subprocess
    import sys
    import tempfile
    s = z3.Solver()
    s.add(assertions)
    wd = os.environ.get("VERIF_WORK")
    fd, path = tempfile.mkstemp(suffix=".smt2", dir=wd if wd and os.path.isdir(wd) else None)
    with os.fdopen(fd, "w") as f:
        f.write(s.to_smt2())
    prog = ("import z3,sys\ns=z3.Solver()\ns.set('timeout',%d)\ns.from_file(sys.argv[1])\nr=s.check()\nprint(r)\n"
            "if r==z3.sat and %r:\n m=s.model()\n for d in m.decls():\n  print(d.name(), m[d])\n" % (int(timeout_s * 1000), bool(want_model)))
    try:
        out = subprocess.run([sys.executable, "-c", prog, path], capture_output=True, text=True, timeout=timeout_s + 10).stdout.split("\n")
    except subprocess.TimeoutExpired:
        out = ["unknown"]
    finally:
        os.unlink(path)
    res = out[0].strip() if out and out[0].strip() in ("sat", "unsat") else "unknown"
    model = None
    if res == "sat" and want_model:
        model = {}
        for line in out[1:]:
            parts = line.split()
            if len(parts) == 2 and parts[1].lstrip("-").isdigit():
                model[parts[0]] = int(parts[1])
    return res, model


class LV2(LV):
    """affine form with an optional *shallow* twin `sh`: the same value written over named intermediate words"""
    __slots__ = ("sh",)

    def __init__(self, c, t, lo, hi):
        LV.__init__(self, c, t, lo, hi)
        self.sh = None


class Lin32(LinCtx):
    """D-LIN with
    (i)   exact division for wraps of forms divisible by the modulus;
    (ii)  elimination of variables fixed by solver-proved facts, so that identities become comparisons of normal forms;
    (iii) splitting a form at a bit position (uxth / lsr / lsl);
    (iv)  *local* proofs.  Every value carries, next to its fully expanded ("deep") form used for (ii), a shallow form over
          *names*: each wrap result r = a - 2^w k gets a name variable n in [0, 2^w) with the defining equation
          n = shallow(a) - 2^w k.  A dropped carry is proved zero from the defining equations within a few steps of it, in
          a small fresh solver (a subset of valid facts, hence sound).  The full constraint set is only a last resort for
          the final identities, and is then decided in a child process with a hard deadline (`hard_check`)."""
    BIG = 150         # contexts with more variables than this never run z3 in-process on the full constraint set

    def __init__(self, timeout_ms=20000):
        LinCtx.__init__(self, timeout_ms)
        self.subst = {}
        self.defs = {}            # variable (quotient or name) -> list of (z3 constraints, variable set) defining it
        self.facts = []           # (frozenset of variables, z3 formula): assumptions
        self.div_facts = 0
        self.struct_splits = 0
        self.local_proofs = 0
        self.full_proofs = 0
        self.depth_hist = {}

    # ---- forms with shallow twins
    def mk(self, c, t, lo=None, hi=None):
        r = LinCtx.mk(self, c, t, lo, hi)
        return LV2(r.c, r.t, r.lo, r.hi)

    @staticmethod
    def sh(a):
        s = getattr(a, "sh", None)
        return a if s is None else s

    @staticmethod
    def _has(a):
        return getattr(a, "sh", None) is not None

    def add(self, a, b):
        r = LinCtx.add(self, a, b)
        if self._has(a) or self._has(b):
            r.sh = LinCtx.add(self, self.sh(a), self.sh(b))
        return r

    def neg(self, a):
        r = LinCtx.neg(self, a)
        if self._has(a):
            r.sh = LinCtx.neg(self, a.sh)
        return r

    def scale(self, a, k):
        r = LinCtx.scale(self, a, k)
        if k and self._has(a):
            r.sh = LinCtx.scale(self, a.sh, k)
        return r

    def name(self, lo, hi, constraints_of, over):
        """fresh name variable n with the defining constraints constraints_of(z3 n) over the given shallow forms"""
        n = self.new_var("n%d" % len(self.names), lo, hi, "name")
        vs = {n}
        for f in over:
            vs |= set(f.t)
        d = (constraints_of(self.zv[n]), frozenset(vs))
        for v in vs:
            if v == n or self.kind.get(v) == "quot":
                self.defs.setdefault(v, []).append(d)
        return LV2(0, {n: 1}, lo, hi)

    def assume(self, formula, forms):
        """record an assumption over the given forms (also usable by local proofs)"""
        self.solver.add(formula)
        vs = set()
        for f in forms:
            vs |= set(f.t)
        self.facts.append((frozenset(vs), formula))

    def resolve(self, a):
        if not self.subst or not a.t:
            return a
        sh = getattr(a, "sh", None)
        while True:
            hit = [v for v in a.t if v in self.subst]
            if not hit:
                return a
            t = dict(a.t)
            c = a.c
            for v in hit:
                k = t.pop(v)
                r = self.subst[v]
                c += k * r.c
                for u, ku in r.t.items():
                    t[u] = t.get(u, 0) + k * ku
            a = self.mk(c, t, a.lo, a.hi)
            a.sh = sh

    def eliminate(self, f, label):
        """f == 0 has been proved: record it, and solve it for its newest variable when the coefficients allow"""
        f = self.resolve(f)
        self.assume_zero(f, label)
        if not f.t:
            return
        v = max(f.t)
        g = f.t[v]
        rest = {u: k for u, k in f.t.items() if u != v}
        if f.c % g == 0 and all(k % g == 0 for k in rest.values()):
            self.subst[v] = self.mk(-f.c // g, {u: -k // g for u, k in rest.items()}, self.vlo[v], self.vhi[v])

    def wrap(self, a, bits, what="wrap"):
        a = self.resolve(a)
        m = 1 << bits
        sa = self.sh(a)
        if a.t and a.c % m == 0 and all(k % m == 0 for k in a.t.values()):
            # every variable is an integer, so the form is a multiple of 2^bits: its residue is 0 and the quotient is exact
            q = self.mk(a.c // m, {v: k // m for v, k in a.t.items()}, -((-a.lo) // m), a.hi // m)
            self.div_facts += 1
            if q.t:
                zq = self.z(q)
                self.solver.add(zq >= q.lo, zq <= q.hi)      # implied by the bounds of the operands
                q.sh = self.name(q.lo, q.hi, lambda n: [self.z(sa) == m * n], [sa])
            return self.const(0), q
        n0 = len(self.names)
        r, q = LinCtx.wrap(self, a, bits, what)
        if len(self.names) == n0 + 1:                 # a fresh quotient variable k = n0 was introduced: r = a - m*k
            zk = self.zv[n0]
            self.kind[n0] = "quot"
            r.sh = self.name(0, m - 1, lambda n: [n == self.z(sa) - m * zk], [sa, q])
        elif q.is_const() and q.c and self._has(a) and getattr(r, "sh", None) is None and isinstance(r, LV2):
            r.sh = LinCtx.add(self, sa, self.const(-m * q.c))
        return r, q

    def split(self, a, n):
        """(a mod 2^n, a div 2^n) for a form known to be >= 0"""
        a = self.resolve(a)
        if n == 0:
            return self.const(0), a
        m = 1 << n
        if a.lo < 0:
            raise ExecError("unsupported", "bit-split of a possibly negative form")
        if a.hi < m:
            return a, self.const(0)
        lo_t = {v: k for v, k in a.t.items() if k % m}
        hi_t = {v: k // m for v, k in a.t.items() if k % m == 0}
        lo = self.mk(a.c % m, lo_t)
        if lo.lo >= 0 and lo.hi < m:
            self.struct_splits += 1
            hi = self.mk(a.c // m, hi_t, a.lo // m, a.hi // m)
            if self._has(a):
                sa = a.sh
                if lo.t:
                    lo.sh = self.name(lo.lo, lo.hi, lambda x: [], [])
                if hi.t:
                    hi.sh = self.name(hi.lo, hi.hi, lambda x: [self.z(sa) == self.z(self.sh(lo)) + m * x], [sa, self.sh(lo)])
            return lo, hi
        return self.wrap(a, n, "h")

    # ---- proofs
    def local_zero(self, f, depths=(2, 4), timeout_ms=2000):
        """True if f == 0 follows from the defining equations within `depth` steps of the variables of f's shallow form"""
        import time
        f = self.resolve(f)
        if f.is_const():
            return f.c == 0
        t0 = time.time()
        goal = self.sh(f)
        try:
            for d in depths:
                S = set(goal.t)
                frontier = set(S)
                zs = []
                seen = set()
                for _ in range(d):
                    new = set()
                    for v in frontier:
                        for cons, vs in self.defs.get(v, ()):
                            if id(cons) not in seen:
                                seen.add(id(cons))
                                zs += cons
                                new |= vs - S
                    S |= new
                    frontier = new
                    if not new:
                        break
                for vs, formula in self.facts:
                    if vs <= S:
                        zs.append(formula)
                for v in S:
                    zs += [self.zv[v] >= self.vlo[v], self.zv[v] <= self.vhi[v]]
                    r = self.subst.get(v)
                    if r is not None and not r.t:
                        zs.append(self.zv[v] == r.c)
                s = z3.Solver()
                s.set("timeout", timeout_ms)
                s.add(zs)
                s.add(self.z(goal) != 0)
                self.queries += 1
                if s.check() == z3.unsat:
                    self.local_proofs += 1
                    self.depth_hist[d] = self.depth_hist.get(d, 0) + 1
                    return True
            return None
        finally:
            self.solver_time += time.time() - t0

    def prove(self, cond, label="", timeout_ms=None):
        if len(self.names) <= self.BIG:
            return LinCtx.prove(self, cond, label, timeout_ms)
        import time
        t0 = time.time()
        self.queries += 1
        self.full_proofs += 1
        r, _ = hard_check(list(self.solver.assertions()) + [z3.Not(cond)], (timeout_ms or self.timeout_ms) / 1000.0)
        self.solver_time += time.time() - t0
        return True if r == "unsat" else (False if r == "sat" else None)

    def model_for(self, cond):
        if len(self.names) <= self.BIG:
            return LinCtx.model_for(self, cond)
        r, m = hard_check(list(self.solver.assertions()) + [cond], self.timeout_ms / 1000.0, True)
        if r != "sat":
            return None
        return {n: m.get(n, 0) for n in self.names}

    def prove_zero(self, f, label="", timeout_ms=None):
        """dropped carries: local proof; the full constraint set only for small contexts (large ones leave the carry to the
        final identity, whose residual then contains it)"""
        f = self.resolve(f)
        if f.is_const():
            return f.c == 0
        if f.lo == 0 and f.hi == 0:
            return True
        if f.lo > 0 or f.hi < 0:
            return False
        if self.local_zero(f):
            return True
        if len(self.names) > self.BIG:
            return None
        return LinCtx.prove(self, self.z(f) == 0, label, timeout_ms)


# ---------------------------------------------------------------------------------------------------------------
class T1:
    def __init__(self, prog, lin=None, tolerant=False, drop_timeout_ms=5000):
        self.p = prog
        self.L = lin                   # None: concrete mode
        self.tolerant = tolerant       # stray reads (caller's stack word, non-argument r0-r3) yield an arbitrary word + an event
        self.drop_timeout_ms = drop_timeout_ms
        self.intercepts = {}           # symbol -> fn(self) for `bl`
        self.mul_hook = None           # fn(self, x, y, result) after every mul
        self.pre_mul = None            # fn(self, reg_a, reg_b) before the operands of a mul are read
        self.steps = 0
        self.proved_carries = 0
        self.lost_carries = []
        self.events = []
        self.nhavoc = 0
        self.token_words = {}
        self.drop_budget = 8                 # lin mode: after this many unprovable dropped carries the rest are listed without asking the solver
        self.nonzero_drops = set()           # concrete mode: addresses of instructions whose set carry was overwritten unread
        self.known_nonzero_drops = set()     # lin mode: such sites, found by concrete runs (diagnostic shortcut only)

    # ------------------------------------------------------------------ values
    def const(self, v):
        return self.L.const(v) if self.L is not None else v

    def is_word(self, v):
        return isinstance(v, LV) if self.L is not None else (isinstance(v, int) and not isinstance(v, bool))

    def havoc(self, why):
        self.nhavoc += 1
        self.events.append(why)
        if self.L is not None:
            return self.L.var("havoc%d" % self.nhavoc, 32)
        return (0x9e3779b9 * self.nhavoc + 0x5bd1e995) & M32

    def rd(self, r):
        v = self.regs[r]
        if v is None:
            if self.tolerant and r in ("r0", "r1", "r2", "r3") and r in self.never_written:
                v = self.regs[r] = self.havoc(("stray-register-read", r, self.cur.where, self.cur.text))
            else:
                raise MemViolation("uninit-reg", "read of uninitialised register %s at %s: %s" % (r, self.cur.where, self.cur.text))
        if isinstance(v, LV):
            v = self.L.resolve(v)
        return v

    def wr(self, r, v):
        self.never_written.discard(r)
        if r == "sp":
            if not (isinstance(v, Ptr) and v.obj is self.stack):
                raise MemViolation("stack", "sp loaded with a non-stack value at %s" % self.cur.where)
            if v.off % 4:
                raise MemViolation("align", "sp not word aligned at %s" % self.cur.where)
            for off in [o for o in self.stack.cells if o < v.off]:
                del self.stack.cells[off]                       # popped / deallocated words are dead
        self.regs[r] = v

    def word(self, v, what):
        if v == "RETADDR" or (isinstance(v, tuple) and v and v[0] == "INIT"):
            # the caller's lr / a callee-saved register's entry value used as data: an arbitrary word, the same one every time
            if v not in self.token_words:
                self.token_words[v] = self.havoc(("entry-value-used-as-data", str(v), self.cur.where, self.cur.text))
            return self.token_words[v]
        if not self.is_word(v):
            raise ExecError("unsupported", "%s on a non-integer value %r at %s: %s" % (what, v, self.cur.where, self.cur.text))
        return v

    # ------------------------------------------------------------------ carry flag discipline
    def _drop(self):
        """the current C is about to be overwritten or abandoned"""
        if self.c_unread and isinstance(self.c_zero, int):
            if self.c_zero:
                self.nonzero_drops.add(self.c_src.addr)       # concrete mode: a set carry was overwritten unread at this site
        elif self.c_unread and isinstance(self.c_zero, LV):
            f = self.L.resolve(self.c_zero)
            if f.is_const():
                ok = f.c == 0
            elif self.c_src.addr in self.known_nonzero_drops or self.drop_budget <= 0:
                ok = False           # a concrete run has shown this carry set when it is overwritten (or too many carries are already lost): not asked
            else:
                ok = self.L.prove_zero(f, "dropped carry", self.drop_timeout_ms)
                if not ok:
                    self.drop_budget -= 1
                if ok:
                    self.L.eliminate(f, "carry of `%s` (%s) overwritten unread at %s: proved zero" % (self.c_src.text, self.c_src.where, self.cur.where))
            if ok:
                self.proved_carries += 1
            else:
                self.lost_carries.append((self.c_src.where, self.c_src.text, self.cur.where))
        self.c_unread = False
        self.c_zero = None

    def set_c(self, val, zero_form=None):
        self._drop()
        self.C = val
        self.c_src = self.cur
        if isinstance(zero_form, LV) and not (zero_form.is_const() and zero_form.c == 0):
            self.c_unread = True
            self.c_zero = zero_form
        elif isinstance(zero_form, int) and self.L is None:
            self.c_unread = True
            self.c_zero = zero_form

    def get_c(self):
        c = self.C
        if c is None:
            raise MemViolation("undef-flag", "carry flag read before any instruction set it at %s: %s" % (self.cur.where, self.cur.text))
        if c is POISON:
            raise MemViolation("poison-flag", "carry flag read at %s (%s) after `%s` (%s), which GNU as may assemble flag-setting or flag-preserving" % (
                self.cur.where, self.cur.text, self.c_src.text, self.c_src.where))
        if isinstance(c, Lazy):
            c = self.C = c.fn()
        self.c_unread = False
        self.c_zero = None
        return c

    # ------------------------------------------------------------------ arithmetic
    def addc(self, x, y, cin):
        """x + y + cin: (result, carry out, form that is zero iff no carry)"""
        if self.L is None:
            full = x + y + cin
            return full & M32, full >> 32, full >> 32
        L = self.L
        full = L.add(L.add(x, y), cin if isinstance(cin, LV) else L.const(cin))
        r, k = L.wrap(full, 32, "c")
        return r, k, k

    def subc(self, x, y, cin):
        """x - y - (1 - cin) = x + NOT(y) + cin; carry out = NOT borrow"""
        if self.L is None:
            full = x + (~y & M32) + cin
            return full & M32, full >> 32, 1 - (full >> 32)
        L = self.L
        full = L.add(L.sub(x, y), L.add(cin if isinstance(cin, LV) else L.const(cin), L.const(-1)))
        r, k = L.wrap(full, 32, "b")         # k in {-1, 0}; k = -1 means a borrow
        return r, L.add(k, L.const(1)), k

    def mul32(self, x, y):
        if self.L is None:
            r = (x * y) & M32
        else:
            L = self.L
            r, _ = L.wrap(L.mul(x, y), 32, "m")
        if self.mul_hook is not None:
            self.mul_hook(self, x, y, r)
        return r

    def shift(self, op, x, n):
        """(result, lazy carry)"""
        if self.L is None:
            if op == "lsl":
                return (x << n) & M32, (x >> (32 - n)) & 1
            return x >> n, (x >> (n - 1)) & 1
        L = self.L
        if op == "lsl":
            lo, q = L.split(x, 32 - n)
            return L.scale(lo, 1 << n), Lazy(lambda: L.split(q, 1)[0])
        lo, q = L.split(x, n)
        return q, Lazy(lambda: L.split(lo, n - 1)[1])

    # ------------------------------------------------------------------ memory
    def _check(self, p, write):
        if not isinstance(p, Ptr) or p.obj is None:
            raise MemViolation("wild", "memory access through a non-pointer value at %s: %s" % (self.cur.where, self.cur.text))
        o = p.obj
        if o is not self.stack and o not in self.objects:
            raise MemViolation("wild", "access to foreign object %s at %s" % (o.name, self.cur.where))
        if p.off % 4 or o.align % 4:
            raise MemViolation("align", "unaligned word access %s+%d at %s: %s (ARMv6-M faults)" % (o.name, p.off, self.cur.where, self.cur.text))
        if p.off < 0 or p.off + 4 > o.size:
            raise MemViolation("oob", "%s of 4 bytes at %s+%d (size %d) at %s: %s" % ("store" if write else "load", o.name, p.off, o.size, self.cur.where, self.cur.text))
        if o is self.stack:
            if p.off < self.regs["sp"].off:
                raise MemViolation("below-sp", "stack access below sp (sp%+d) at %s: %s" % (p.off - self.regs["sp"].off, self.cur.where, self.cur.text))
            if write and p.off >= ENTRY:
                raise MemViolation("caller-frame", "store into the caller's frame (entry sp%+d) at %s: %s" % (p.off - ENTRY, self.cur.where, self.cur.text))
        if write and o.const:
            raise MemViolation("const", "store into read-only operand %s+%d at %s: %s" % (o.name, p.off, self.cur.where, self.cur.text))

    def load(self, p):
        self._check(p, False)
        o = p.obj
        if o is self.stack and p.off >= ENTRY + 4 * self.nstackargs:
            if not self.tolerant:
                raise MemViolation("stray-stack-load", "load of the caller's stack word entry sp%+d, which is not an argument, at %s: %s" % (
                    p.off - ENTRY, self.cur.where, self.cur.text))
            return self.havoc(("stray-stack-load", p.off - ENTRY, self.cur.where, self.cur.text))
        c = o.cells.get(p.off)
        if c is None or c[0] != 4:
            raise MemViolation("uninit", "load of uninitialised word %s+%d at %s: %s" % (o.name, p.off, self.cur.where, self.cur.text))
        return c[1]

    def store(self, p, v):
        self._check(p, True)
        if v is None:
            raise MemViolation("uninit-reg", "store of an uninitialised register at %s: %s" % (self.cur.where, self.cur.text))
        p.obj.cells[p.off] = (4, v)
        p.obj.written = True

    def addr(self, base, off):
        b = self.rd(base)
        if not isinstance(b, Ptr):
            raise MemViolation("wild", "memory access through non-pointer register %s at %s: %s" % (base, self.cur.where, self.cur.text))
        return Ptr(b.obj, b.off + off)

    # ------------------------------------------------------------------ execution
    def call(self, symbol, args, stack_args=(), objects=()):
        """AAPCS: r0-r3, further arguments on the stack at [sp]; returns r0 at the return to the caller"""
        self.objects = list(objects)
        self.stack = Obj("stack", 2 * ENTRY, "alloca", 8)
        self.regs = {r: None for r in REGS}
        self.never_written = set(["r0", "r1", "r2", "r3"][len(args):])
        for r, a in zip(["r0", "r1", "r2", "r3"], args):
            self.regs[r] = a
        self.init = {}
        for r in CALLEE_SAVED:
            self.init[r] = self.regs[r] = ("INIT", r)
        self.regs["lr"] = "RETADDR"
        self.regs["sp"] = Ptr(self.stack, ENTRY)
        self.nstackargs = len(stack_args)
        for i, a in enumerate(stack_args):
            self.stack.cells[ENTRY + 4 * i] = (4, a)
        self.C = None
        self.c_unread = False
        self.c_zero = None
        self.c_src = None
        if symbol not in self.p.labels:
            raise ExecError("unsupported", "no label %s in the assembly sources" % symbol)
        k = self.p.labels[symbol]
        while True:
            if k >= len(self.p.ins):
                raise ExecError("unsupported", "execution ran off the end of the text")
            self.cur = ins = self.p.ins[k]
            self.steps += 1
            if self.step(ins) == "ret":
                break
            k += 1
        self._drop()
        sp = self.regs["sp"]
        if sp.off != ENTRY:
            raise MemViolation("stack", "sp not restored at return (entry sp%+d)" % (sp.off - ENTRY))
        for r in CALLEE_SAVED:
            if self.regs[r] is not self.init[r]:
                raise MemViolation("callee-saved", "%s not restored at return from %s" % (r, symbol))
        for i, a in enumerate(stack_args):
            cur = self.stack.cells.get(ENTRY + 4 * i, (0, None))[1]
            if cur is not a and not (isinstance(cur, LV) and isinstance(a, LV) and cur.is_const() and a.is_const() and cur.c == a.c):
                raise MemViolation("caller-frame", "stack argument %d overwritten" % i)
        return self.regs["r0"]

    def _ret(self, target):
        if target != "RETADDR":
            raise MemViolation("return", "return to %r instead of the caller's lr at %s" % (target, self.cur.where))
        return "ret"

    def step(self, ins):
        text, fl = gas_macro.unified(ins)          # encodability (register classes, ranges) is re-checked on every executed instruction
        m = gas_macro.micro(ins)
        op = m[0]
        if op in ("add", "sub") and isinstance(self.regs.get(m[2]), Ptr):
            # sp / pointer arithmetic: add rd, sp, #imm ; add|sub sp, sp, #imm (flags untouched) ; adds on a pointer value (flags: unknown)
            base = self.rd(m[2])
            d = m[3] if isinstance(m[3], int) else self.rd(m[3])
            if isinstance(d, LV) and d.is_const():
                d = d.c
            if not isinstance(d, int):
                raise ExecError("unsupported", "pointer %s symbolic at %s" % (op, ins.where))
            self.wr(m[1], Ptr(base.obj, base.off + (d if op == "add" else -d)))
            if fl:
                self.set_c(POISON)
            return None
        if op in ("add", "adc", "sub", "sbc", "rsb"):
            if op in ("sub", "sbc") and m[2] == m[3] and self.rd(m[2]) is not None:
                x = y = self.const(0)      # r - r (- borrow): x + NOT(x) + C is 0xffffffff + C whatever r holds (here: a pointer)
            else:
                x = self.word(self.rd(m[2]), op)
                y = self.const(m[3]) if isinstance(m[3], int) else self.word(self.rd(m[3]), op)
            if op == "add":
                r, c, z = self.addc(x, y, 0)
            elif op == "adc":
                r, c, z = self.addc(x, y, self.get_c())
            elif op == "sub":
                r, c, z = self.subc(x, y, 1)
            elif op == "sbc":
                r, c, z = self.subc(x, y, self.get_c())
            else:
                r, c, z = self.subc(y, x, 1)
            if "c" not in fl:
                raise ExecError("unsupported", "flag-preserving arithmetic on integers at %s" % ins.where)
            self.set_c(c, z)
            self.wr(m[1], r)
            return None
        if op == "eor":
            if m[2] == m[3]:
                r = self.const(0)          # eor r,r,r yields 0 whatever r held
            else:
                x, y = self.word(self.rd(m[2]), op), self.word(self.rd(m[3]), op)
                if self.L is not None:
                    if not (x.is_const() and y.is_const()):
                        raise ExecError("unsupported", "eor of distinct symbolic registers at %s" % ins.where)
                    r = self.const(x.c ^ y.c)
                else:
                    r = x ^ y
            self.wr(m[1], r)           # EORS: N, Z written; C and V unchanged
            return None
        if op == "mul":
            d, a, b = m[1], m[2], m[3]
            if self.pre_mul is not None:
                self.pre_mul(self, a, b)
            r = self.mul32(self.word(self.rd(a), op), self.word(self.rd(b), op))
            self.wr(d, r)              # MULS: N, Z written; C and V unchanged on ARMv6-M
            return None
        if op in ("lsl", "lsr"):
            x = self.word(self.rd(m[2]), op)
            if not 1 <= m[3] <= 31:
                raise ExecError("unsupported", "shift amount %d" % m[3])
            r, c = self.shift(op, x, m[3])
            self.set_c(c)
            self.wr(m[1], r)
            return None
        if op == "uxth":
            x = self.word(self.rd(m[2]), op)
            self.wr(m[1], x & 0xffff if self.L is None else self.L.split(x, 16)[0])
            return None
        if op == "mov":
            v = self.rd(m[2])
            if fl == "poison":
                self.set_c(POISON)
            self.wr(m[1], v)
            return None
        if op == "ldr":
            self.wr(m[1], self.load(self.addr(m[2], m[3])))
            return None
        if op == "str":
            self.store(self.addr(m[2], m[3]), self.rd(m[1]))
            return None
        if op in ("ldm", "stm"):
            p = self.addr(m[1], 0)
            for i, r in enumerate(m[2]):
                q = Ptr(p.obj, p.off + 4 * i)
                if op == "ldm":
                    self.wr(r, self.load(q))
                else:
                    self.store(q, self.rd(r))
            self.wr(m[1], Ptr(p.obj, p.off + 4 * len(m[2])))
            return None
        if op == "push":
            sp = self.regs["sp"]
            new = Ptr(sp.obj, sp.off - 4 * len(m[1]))
            if new.off < 0:
                raise MemViolation("stack", "stack exhausted")
            self.wr("sp", new)
            for i, r in enumerate(m[1]):
                self.store(Ptr(new.obj, new.off + 4 * i), self.rd(r))
            return None
        if op == "pop":
            sp = self.regs["sp"]
            vals = [self.load(Ptr(sp.obj, sp.off + 4 * i)) for i in range(len(m[1]))]
            self.wr("sp", Ptr(sp.obj, sp.off + 4 * len(m[1])))
            ret = None
            for r, v in zip(m[1], vals):
                if r == "pc":
                    ret = self._ret(v)
                else:
                    self.wr(r, v)
            return ret
        if op == "bx":
            return self._ret(self.rd(m[1]))
        if op == "bl":
            h = self.intercepts.get(m[1])
            if h is None:
                raise ExecError("unsupported", "call to %s without a model at %s" % (m[1], ins.where))
            sp = self.regs["sp"]
            if (sp.off - ENTRY) % 8:
                self.events.append(("sp-not-8-aligned-at-call", sp.off - ENTRY, ins.where, m[1]))
            self._drop()
            r0 = h(self)
            for r in ("r1", "r2", "r3", "r12", "lr"):      # caller-saved: dead after the call
                self.regs[r] = None
            self.regs["r0"] = r0
            self.C = POISON
            self.c_src = ins
            return None
        raise ExecError("unsupported", "ARMv6-M instruction %s at %s" % (ins.text, ins.where))
