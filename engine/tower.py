"""Specification-level tower F_q -> F_q2 -> F_q6 -> F_q12 over a Ring of atoms, and the intercept
layer that replaces the methods of a tower level by that specification (DESIGN.md section 5, C04).

Levels: 0 = Fq (48 bytes), 1 = Fq2 (96), 2 = Fq6 (288), 3 = Fq12 (576).
A value of level k above the atom level is a tuple of values of level k-1 (arity 2, 3, 2).
Defining relations: u^2 = -1; v^3 = xi (= 1+u); w^2 = v.  When the atom level is 1 (resp. 2) the constant
xi (resp. v) is a free indeterminate of the ring: the obligations proved at that level then hold for any
value of it, in particular the real one, and one separate obligation ties multiply_by_nonresidue to it.
"""
import z3

from .eir import ACond, ExecError, Ptr, is_conc, ZextCond, Obj
from .eir import simp as eir_simp
from . import dom_ring
from .dom_ring import RE

SIZES = [48, 96, 288, 576]
ARITY = [1, 2, 3, 2]
CLASS = ["Fq", "Fq2", "Fq6", "Fq12"]

NS = r"embedded_pairing::"
FQ_T = NS + r"core::Fp<384,[^>]*fq_modulus_var[^>]*>"
CLS_RX = [r"(?:%s|%sbls12_381::Fq)" % (FQ_T, NS), NS + r"bls12_381::Fq2", NS + r"bls12_381::Fq6", NS + r"bls12_381::Fq12"]

Q = 0x1a0111ea397fe69a4b1ba7b6434bacd764774b84f38512bf6730d2a0f6b0f6241eabfffeb153ffffb9feffffffffaaab
RMONT = (1 << 384) % Q
RINV = pow(RMONT, -1, Q)


class Tower:
    def __init__(self, ring, atom_level=0):
        self.R = ring
        self.al = atom_level
        self.xi = ring.var("xi") if atom_level == 1 else None    # nonresidue of Fq2 used for Fq6
        self.v = ring.var("v") if atom_level == 2 else None      # nonresidue of Fq6 used for Fq12

    # ---- construction
    def var(self, level, name):
        if level == self.al:
            return self.R.var(name)
        return tuple(self.var(level - 1, "%s_%d" % (name, i)) for i in range(ARITY[level]))

    def const(self, level, c):
        """embed the integer c"""
        if level == self.al:
            return self.R.const(c)
        return (self.const(level - 1, c),) + tuple(self.const(level - 1, 0) for _ in range(ARITY[level] - 1))

    def zero(self, level):
        return self.const(level, 0)

    def one(self, level):
        return self.const(level, 1)

    def from_ints(self, level, ints):
        """nested tuples of python ints (canonical values) -> element"""
        if level == self.al:
            if not isinstance(ints, int):
                raise ExecError("spec", "constant of level %d below the atom level" % level)
            return self.R.const(ints)
        return tuple(self.from_ints(level - 1, x) for x in ints)

    # ---- arithmetic
    def add(self, k, a, b):
        if k == self.al:
            return self.R.add(a, b)
        return tuple(self.add(k - 1, x, y) for x, y in zip(a, b))

    def sub(self, k, a, b):
        if k == self.al:
            return self.R.sub(a, b)
        return tuple(self.sub(k - 1, x, y) for x, y in zip(a, b))

    def neg(self, k, a):
        if k == self.al:
            return self.R.neg(a)
        return tuple(self.neg(k - 1, x) for x in a)

    def dbl(self, k, a):
        return self.add(k, a, a)

    def mul_nr(self, k, a):
        """multiply a level-k element by the non-residue that defines level k+1"""
        if k == 0:
            return self.R.neg(a) if self.al == 0 else self._atom_err()
        if k == 1:
            if self.al == 1:
                return self.R.mul(self.xi, a)
            # (1+u)(a0 + a1 u) = (a0 - a1) + (a0 + a1) u
            return (self.sub(0, a[0], a[1]), self.add(0, a[0], a[1]))
        if k == 2:
            if self.al == 2:
                return self.R.mul(self.v, a)
            # v (a0 + a1 v + a2 v^2) = xi a2 + a0 v + a1 v^2
            return (self.mul_nr(1, a[2]), a[0], a[1])
        raise ExecError("spec", "no non-residue above Fq12")

    def _atom_err(self):
        raise ExecError("spec", "operation below the atom level")

    def mul(self, k, a, b):
        if k == self.al:
            return self.R.mul(a, b)
        if k in (1, 3):
            a0, a1 = a
            b0, b1 = b
            j = k - 1
            c0 = self.add(j, self.mul(j, a0, b0), self.mul_nr(j, self.mul(j, a1, b1)))
            c1 = self.add(j, self.mul(j, a0, b1), self.mul(j, a1, b0))
            return (c0, c1)
        if k == 2:
            a0, a1, a2 = a
            b0, b1, b2 = b
            m = lambda x, y: self.mul(1, x, y)
            ad = lambda x, y: self.add(1, x, y)
            nr = lambda x: self.mul_nr(1, x)
            c0 = ad(m(a0, b0), nr(ad(m(a1, b2), m(a2, b1))))
            c1 = ad(ad(m(a0, b1), m(a1, b0)), nr(m(a2, b2)))
            c2 = ad(ad(m(a0, b2), m(a1, b1)), m(a2, b0))
            return (c0, c1, c2)
        raise ExecError("spec", "mul level")

    def sqr(self, k, a):
        return self.mul(k, a, a)

    def conj(self, k, a):
        """the non-trivial automorphism of the quadratic step k-1 -> k (k = 1 or 3)"""
        if k <= self.al or k == 2:
            raise ExecError("spec", "conjugation at level %d" % k)
        return (a[0], self.neg(k - 1, a[1]))

    def scale_atom(self, k, a, s):
        """multiply a level-k element by an element s of a lower level j (coefficient-wise)"""
        raise NotImplementedError

    def mul_lower(self, k, a, j, s):
        """a (level k) times s (level j <= k), s embedded in the constant coefficient"""
        if k == j:
            return self.mul(k, a, s)
        return tuple(self.mul_lower(k - 1, x, j, s) for x in a)

    def inv(self, k, a, nonzero_cert=None):
        """inverse of a non-zero element as fractions (only used in specs: a * inv == 1 is checked instead)"""
        if k == self.al:
            return self.R.inv_nonzero(a)
        raise ExecError("spec", "inverse above the atom level is specified by a*out == 1")

    def flatten(self, k, a):
        if k == self.al:
            return [a]
        out = []
        for x in a:
            out += self.flatten(k - 1, x)
        return out

    def equal(self, k, a, b, label=""):
        """solver-decided component-wise equality; returns (ok, failing index, model)"""
        fa, fb = self.flatten(k, a), self.flatten(k, b)
        for i, (x, y) in enumerate(zip(fa, fb)):
            ok, mdl = self.R.equal(x, y, "%s[%d]" % (label, i))
            if not ok:
                return False, i, mdl
        return True, None, None

    # ---- Frobenius (reference; concrete constants computed from the definition)
    def frob_const(self, d, k):
        """xi^((q^k - 1)/d) as a pair of ints (concrete arithmetic in F_q2)"""
        e = (Q ** k - 1) // d
        assert (Q ** k - 1) % d == 0
        return fq2_pow((1, 1), e)

    def frobenius(self, level, a, k):
        if self.al != 0:
            raise ExecError("spec", "Frobenius needs Fq atoms")
        k %= 12          # x -> x^q has order dividing 12 on Fq12 (and on its subfields)
        if level == 0:
            return a
        if level == 1:
            return a if k % 2 == 0 else (a[0], self.neg(0, a[1]))
        if level == 2:
            g1 = self.from_ints(1, self.frob_const(3, k))
            g2 = self.from_ints(1, fq2_pow(self.frob_const(3, k), 2))
            return (self.frobenius(1, a[0], k),
                    self.mul(1, self.frobenius(1, a[1], k), g1),
                    self.mul(1, self.frobenius(1, a[2], k), g2))
        g = self.from_ints(1, self.frob_const(6, k))
        c1 = self.frobenius(2, a[1], k)
        return (self.frobenius(2, a[0], k), tuple(self.mul(1, x, g) for x in c1))


def fq2_mul(a, b):
    return ((a[0] * b[0] - a[1] * b[1]) % Q, (a[0] * b[1] + a[1] * b[0]) % Q)


def fq2_pow(a, e):
    r = (1, 0)
    for bit in bin(e)[2:]:
        r = fq2_mul(r, r)
        if bit == "1":
            r = fq2_mul(r, a)
    return r


# ----------------------------------------------------------------------------------------
# memory <-> tower values
# ----------------------------------------------------------------------------------------
class TowerMem:
    def __init__(self, I, tower, const_hook=None):
        self.I = I
        self.T = tower
        self.const_hook = const_hook

    def decode_raw(self, level, p):
        def dec(v):
            if self.const_hook is not None:
                r = self.const_hook(level, p, v)
                if r is not None:
                    return r
            if level != 0:
                raise ExecError("abstract-bytes", "raw constant at atom level %d (%r)" % (level, p))
            if v >= Q:
                raise ExecError("spec", "constant %r is not a canonical Montgomery representative" % (p,))
            return self.T.R.const(v * RINV % Q)
        return dec

    def read(self, p, level):
        if level == self.T.al:
            return dom_ring.read_elem(self.I, p, SIZES[level], self.decode_raw(level, p))
        if level < self.T.al:
            raise ExecError("abstract-bytes", "access to level-%d component below the atom level" % level)
        s = SIZES[level - 1]
        return tuple(self.read(Ptr(p.obj, p.off + i * s), level - 1) for i in range(ARITY[level]))

    def write(self, p, level, val):
        if level == self.T.al:
            dom_ring.write_elem(self.I, p, SIZES[level], val)
            return
        s = SIZES[level - 1]
        for i in range(ARITY[level]):
            self.write(Ptr(p.obj, p.off + i * s), level - 1, val[i])

    def new_input(self, name, level, val=None, align=16):
        o = self.I.new_obj(name, SIZES[level], "arg", align)
        if val is None:
            val = self.T.var(level, name)
        self.write(Ptr(o, 0), level, val)
        return o, val

    def new_output(self, name, level):
        return self.I.new_obj(name, SIZES[level], "arg", 16)


# ----------------------------------------------------------------------------------------
# intercepts: methods of tower level k implemented by the specification
# ----------------------------------------------------------------------------------------
def install_level(I, tm, k, hits=None):
    """replace the methods of class CLASS[k] by the Tower specification (k >= atom level)"""
    T = tm.T
    C = CLS_RX[k]
    sz = SIZES[k]

    def rd(p):
        return tm.read(p, k)

    def wr(p, v):
        tm.write(p, k, v)

    def binary(f):
        def h(I_, name, args, site):
            wr(args[0], f(rd(args[1]), rd(args[2])))
        return h

    def unary(f):
        def h(I_, name, args, site):
            wr(args[0], f(rd(args[1])))
        return h

    def iszero_cond(v):
        fl = T.flatten(k, v)
        c = ACond("atom", ("iszero", fl[0]))
        for x in fl[1:]:
            c = ACond("and", [c, ACond("atom", ("iszero", x))])
        return c

    def eq_cond(a, b):
        fa, fb = T.flatten(k, a), T.flatten(k, b)
        c = ACond("atom", ("eq", fa[0], fb[0]))
        for x, y in list(zip(fa, fb))[1:]:
            c = ACond("and", [c, ACond("atom", ("eq", x, y))])
        return c

    A = r"\(.*\)"
    I.add_intercept(C + r"::add" + A, binary(lambda a, b: T.add(k, a, b)), CLASS[k] + "::add")
    I.add_intercept(C + r"::subtract" + A, binary(lambda a, b: T.sub(k, a, b)), CLASS[k] + "::subtract")
    I.add_intercept(C + r"::multiply\(" + C + r" const&, " + C + r" const&\)", binary(lambda a, b: T.mul(k, a, b)), CLASS[k] + "::multiply")
    I.add_intercept(C + r"::square" + A, unary(lambda a: T.sqr(k, a)), CLASS[k] + "::square")
    I.add_intercept(C + r"::multiply2" + A, unary(lambda a: T.dbl(k, a)), CLASS[k] + "::multiply2")
    I.add_intercept(C + r"::negate" + A, unary(lambda a: T.neg(k, a)), CLASS[k] + "::negate")
    if k == 0:
        I.add_intercept(C + r"::copy\(" + NS + r"core::FpBase<384> const&\)", unary(lambda a: a), "Fq::copy")
        I.add_intercept(C + r"::copy\(" + NS + r"core::BigInt<384> const&\)", unary(lambda a: a), "Fq::copy(BigInt)")
        I.add_intercept(C + r"::set_zero\(\)", lambda I_, n, a, s: wr(a[0], T.zero(0)), "Fq::set_zero")
        I.add_intercept(C + r"::is_one\(\) const", lambda I_, n, a, s: eq_cond(rd(a[0]), T.one(0)), "Fq::is_one")
        I.add_intercept(C + r"::equal" + A, lambda I_, n, a, s: eq_cond(rd(a[0]), rd(a[1])), "Fq::equal")
        I.add_intercept(r"void " + NS + r"core::fp_inverse<" + NS + r"bls12_381::Fq>" + A, lambda I_, n, a, s: _inverse(I_, tm, 0, a), "fp_inverse<Fq>")
        I.add_intercept(NS + r"bls12_381::Fq::inverse" + A, lambda I_, n, a, s: _inverse(I_, tm, 0, a), "Fq::inverse")
        I.add_intercept(r"void " + NS + r"core::exponentiate(?:_restrict)?<" + C + r", " + NS + r"core::BigInt<384> ?>" + A,
                        lambda I_, n, a, s: _pow(I_, tm, 0, a), "exponentiate<Fq>")
    else:
        I.add_intercept(C + r"::copy" + A, unary(lambda a: a), CLASS[k] + "::copy")
        I.add_intercept(C + r"::equal" + A, lambda I_, n, a, s: eq_cond(rd(a[0]), rd(a[1])), CLASS[k] + "::equal")
        I.add_intercept(C + r"::inverse" + A, lambda I_, n, a, s: _inverse(I_, tm, k, a), CLASS[k] + "::inverse")
    I.add_intercept(C + r"::is_zero\(\) const", lambda I_, n, a, s: iszero_cond(rd(a[0])), CLASS[k] + "::is_zero")
    if k in (1, 2):
        I.add_intercept(C + r"::multiply_by_nonresidue" + A, unary(lambda a: T.mul_nr(k, a)), CLASS[k] + "::multiply_by_nonresidue")
    if k >= 1 and T.al == 0:
        def frob(I_, name, args, site):
            pw = args[2]
            if not is_conc(pw):
                # the level-k obligation shows the map depends on power mod period only
                period = {1: 2, 2: 6, 3: 12}[k]
                pw = I_.concretize(eir_simp(z3.URem(pw, z3.BitVecVal(period, 32))), 32)
            wr(args[0], T.frobenius(k, rd(args[1]), pw))
        I.add_intercept(C + r"::frobenius_map" + A, frob, CLASS[k] + "::frobenius_map")
    if k == 3:
        I.add_intercept(C + r"::conjugate" + A, unary(lambda a: T.conj(3, a)), "Fq12::conjugate")
    if k == 2:
        def mul_c1(I_, name, args, site):
            a = rd(args[1])
            c1 = tm.read(args[2], 1)
            wr(args[0], T.mul(2, a, (T.zero(1), c1, T.zero(1))))
        def mul_c01(I_, name, args, site):
            a = rd(args[1])
            c0 = tm.read(args[2], 1)
            c1 = tm.read(args[3], 1)
            wr(args[0], T.mul(2, a, (c0, c1, T.zero(1))))
        I.add_intercept(C + r"::multiply_by_c1" + A, mul_c1, "Fq6::multiply_by_c1")
        I.add_intercept(C + r"::multiply_by_c01" + A, mul_c01, "Fq6::multiply_by_c01")
    if k == 3:
        def mul_c014(I_, name, args, site):
            a = rd(args[1])
            c0 = tm.read(args[2], 1)
            c1 = tm.read(args[3], 1)
            c4 = tm.read(args[4], 1)
            z = T.zero(1)
            wr(args[0], T.mul(3, a, ((c0, c1, z), (z, c4, z))))
        I.add_intercept(C + r"::multiply_by_c014" + A, mul_c014, "Fq12::multiply_by_c014")


def _inverse(I, tm, k, args):
    """out = 1/a, or 0 when a == 0 (C02 establishes fp_inverse(0) = 0).  Only at the atom level the result is a
    fraction; above it the spec inverse is built from the quadratic/cubic norm formulas."""
    T = tm.T
    a = tm.read(args[1], k)
    fl = T.flatten(k, a)
    c = ACond("atom", ("iszero", fl[0]))
    for x in fl[1:]:
        c = ACond("and", [c, ACond("atom", ("iszero", x))])
    if I.branch(c):
        tm.write(args[0], k, T.zero(k))
        return None
    tm.write(args[0], k, spec_inverse(T, k, a))
    return None


def spec_inverse(T, k, a):
    if k == T.al:
        return T.R.inv_nonzero(a)
    j = k - 1
    if k in (1, 3):
        a0, a1 = a
        n = T.sub(j, T.sqr(j, a0), T.mul_nr(j, T.sqr(j, a1)))      # a0^2 - nr a1^2
        ni = spec_inverse(T, j, n)
        return (T.mul(j, a0, ni), T.neg(j, T.mul(j, a1, ni)))
    a0, a1, a2 = a
    m = lambda x, y: T.mul(1, x, y)
    nr = lambda x: T.mul_nr(1, x)
    c0 = T.sub(1, T.sqr(1, a0), nr(m(a1, a2)))
    c1 = T.sub(1, nr(T.sqr(1, a2)), m(a0, a1))
    c2 = T.sub(1, T.sqr(1, a1), m(a0, a2))
    n = T.add(1, m(a0, c0), nr(T.add(1, m(a2, c1), m(a1, c2))))
    ni = spec_inverse(T, 1, n)
    return (m(c0, ni), m(c1, ni), m(c2, ni))


def _pow(I, tm, k, args):
    a = tm.read(args[1], k)
    ep = args[2]
    e = I.load_bytes(ep.obj, ep.off, 48)
    if not is_conc(e):
        raise ExecError("unsupported", "symbolic exponent in intercepted exponentiate")
    T = tm.T
    r = T.one(k)
    for bit in bin(e)[2:] if e else "":
        r = T.sqr(k, r)
        if bit == "1":
            r = T.mul(k, r, a)
    tm.write(args[0], k, r)
    return None
