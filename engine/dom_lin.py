"""D-LIN: machine words as integers in affine substitution form (DESIGN.md sections 3.3, 3.4).

A value is an affine form  c + sum coef_i * v_i  over integer base variables (input words, opaque word products,
carries/quotients introduced by wrap-around) together with sound bounds [lo, hi].  Every wrap-around of a w-bit
operation introduces ONE fresh quotient variable k with the defining side condition 0 <= form - 2^w k < 2^w
(so results are never fresh variables themselves).  symbolic x symbolic products are opaque variables P(a,b)
with 0 <= P <= amax*bmax; products by constants stay linear.

The z3 solver (QF_LIA) decides:  - eagerly, whether a quotient/carry that is about to be discarded is zero,
                                 - whether a discarded low word is zero (Montgomery),
                                 - the final identities posed by the harness.
"""
import time
import z3

from .eir import ExecError


class LV:
    """immutable affine form with bounds"""
    __slots__ = ("c", "t", "lo", "hi")

    def __init__(self, c, t, lo, hi):
        self.c = c
        self.t = t        # dict var index -> coef (non-zero)
        self.lo = lo
        self.hi = hi

    def is_const(self):
        return not self.t

    def __repr__(self):
        if not self.t:
            return "LV(%#x)" % self.c
        return "LV(%d terms, [%#x,%#x])" % (len(self.t), self.lo, self.hi)


class LinCtx:
    def __init__(self, timeout_ms=20000):
        self.names = []
        self.vlo = []
        self.vhi = []
        self.zv = []
        self.solver = z3.Solver()
        self.solver.set("timeout", timeout_ms)
        self.timeout_ms = timeout_ms
        self.products = {}     # (va, vb) sorted -> LV of the opaque product
        self.wraps = {}        # (form key, bits) -> (result LV, quotient LV)
        self.queries = 0
        self.solver_time = 0.0
        self.lemmas = []       # human-readable list of eagerly discharged facts
        self.kind = {}         # var index -> 'in' | 'prod' | 'quot'
        self.zero_subst = {}   # quotient vars proved zero (kept in solver as equalities as well)

    # ---- variables
    def new_var(self, name, lo, hi, kind="in"):
        i = len(self.names)
        self.names.append(name)
        self.vlo.append(lo)
        self.vhi.append(hi)
        v = z3.Int("%s" % name)
        self.zv.append(v)
        self.kind[i] = kind
        self.solver.add(v >= lo, v <= hi)
        return i

    def var(self, name, bits=64, kind="in"):
        i = self.new_var(name, 0, (1 << bits) - 1, kind)
        return LV(0, {i: 1}, 0, (1 << bits) - 1)

    def const(self, c):
        return LV(c, {}, c, c)

    # ---- forms
    def _bounds(self, c, t):
        lo = hi = c
        for v, k in t.items():
            if k > 0:
                lo += k * self.vlo[v]
                hi += k * self.vhi[v]
            else:
                lo += k * self.vhi[v]
                hi += k * self.vlo[v]
        return lo, hi

    def mk(self, c, t, lo=None, hi=None):
        t = {v: k for v, k in t.items() if k}
        blo, bhi = self._bounds(c, t)
        if lo is None or blo > lo:
            lo = blo
        if hi is None or bhi < hi:
            hi = bhi
        return LV(c, t, lo, hi)

    def add(self, a, b):
        t = dict(a.t)
        for v, k in b.t.items():
            t[v] = t.get(v, 0) + k
        return self.mk(a.c + b.c, t, a.lo + b.lo, a.hi + b.hi)

    def neg(self, a):
        return self.mk(-a.c, {v: -k for v, k in a.t.items()}, -a.hi, -a.lo)

    def sub(self, a, b):
        return self.add(a, self.neg(b))

    def scale(self, a, k):
        if k == 0:
            return self.const(0)
        lo, hi = (a.lo * k, a.hi * k) if k > 0 else (a.hi * k, a.lo * k)
        return self.mk(a.c * k, {v: c * k for v, c in a.t.items()}, lo, hi)

    def z(self, a):
        """z3 Int term of a form"""
        if not a.t:
            return z3.IntVal(a.c)
        terms = [self.zv[v] * k if k != 1 else self.zv[v] for v, k in a.t.items()]
        if a.c:
            terms.append(z3.IntVal(a.c))
        return z3.Sum(terms) if len(terms) > 1 else terms[0]

    @staticmethod
    def key(a):
        return (a.c, tuple(sorted(a.t.items())))

    # ---- wrap-around
    def wrap(self, a, bits, what="wrap"):
        """a mod 2^bits as (result, quotient): a = result + 2^bits * quotient, 0 <= result < 2^bits"""
        m = 1 << bits
        if a.lo >= 0 and a.hi < m:
            return a, self.const(0)
        kmin = a.lo >> bits if a.lo >= 0 else -((-a.lo + m - 1) >> bits)
        kmax = a.hi >> bits if a.hi >= 0 else -((-a.hi + m - 1) >> bits)
        if kmin == kmax:
            r = self.mk(a.c - m * kmin, a.t, max(a.lo - m * kmin, 0), min(a.hi - m * kmin, m - 1))
            return r, self.const(kmin)
        ky = (self.key(a), bits)
        got = self.wraps.get(ky)
        if got is not None:
            return got
        k = self.new_var("%s%d" % (what, len(self.names)), kmin, kmax, "quot")
        t = dict(a.t)
        t[k] = t.get(k, 0) - m
        r = self.mk(a.c, t, 0, m - 1)
        zr = self.z(r)
        self.solver.add(zr >= 0, zr <= m - 1)
        q = LV(0, {k: 1}, kmin, kmax)
        self.wraps[ky] = (r, q)
        return r, q

    # ---- products
    def mul(self, a, b, what="P"):
        """full integer product (no wrap)"""
        if a.is_const():
            return self.scale(b, a.c)
        if b.is_const():
            return self.scale(a, b.c)
        if a.lo < 0 or b.lo < 0:
            raise ExecError("unsupported", "product of possibly negative forms")
        ka, kb = self.key(a), self.key(b)
        ky = (ka, kb) if ka <= kb else (kb, ka)
        p = self.products.get(ky)
        if p is None:
            i = self.new_var("%s%d" % (what, len(self.names)), a.lo * b.lo, a.hi * b.hi, "prod")
            p = LV(0, {i: 1}, a.lo * b.lo, a.hi * b.hi)
            self.products[ky] = p
            self.kind[i] = ("prod", a, b)
        return p

    # ---- solver queries
    def prove(self, cond, label="", timeout_ms=None):
        """True iff cond holds for all values satisfying the recorded side conditions; 'unknown' -> None"""
        t0 = time.time()
        self.queries += 1
        s = self.solver
        if timeout_ms is not None:
            s.set("timeout", timeout_ms)
        s.push()
        try:
            s.add(z3.Not(cond))
            r = s.check()
        finally:
            s.pop()
            if timeout_ms is not None:
                s.set("timeout", self.timeout_ms)
        self.solver_time += time.time() - t0
        if r == z3.unsat:
            return True
        if r == z3.sat:
            return False
        return None

    def prove_hard(self, cond, label="", timeout_s=100, solver_ms=None):
        """prove() in a forked child that is killed at the deadline (z3 does not always honour its own time limit on these contexts):
        True / False / None as prove(); a False verdict is re-derived by the caller through model_for when it needs the model"""
        import os
        import signal
        r_fd, w_fd = os.pipe()
        pid = os.fork()
        if pid == 0:
            try:
                os.close(r_fd)
                v = self.prove(cond, label, int(solver_ms if solver_ms is not None else timeout_s * 1000))
                os.write(w_fd, {True: b"T", False: b"F", None: b"U"}[v])
            finally:
                os._exit(0)
        os.close(w_fd)
        import select
        t0 = time.time()
        out = b""
        while time.time() - t0 < timeout_s + (5 if timeout_s >= 10 else 0.5):
            rl, _, _ = select.select([r_fd], [], [], 0.05 if timeout_s < 10 else 0.5)
            if rl:
                out = os.read(r_fd, 1)
                break
            done, _ = os.waitpid(pid, os.WNOHANG)
            if done:
                rl, _, _ = select.select([r_fd], [], [], 0)
                out = os.read(r_fd, 1) if rl else b""
                pid = 0
                break
        os.close(r_fd)
        if pid:
            try:
                os.kill(pid, signal.SIGKILL)
            except ProcessLookupError:
                pass
            os.waitpid(pid, 0)
        self.queries += 1
        self.solver_time += time.time() - t0
        return {b"T": True, b"F": False}.get(out)

    def prove_portfolio(self, cond, label="", timeout_s=100, seeds=(0, 7, 23)):
        """prove() in several forked children at once, each with another solver seed, killed at the deadline; the first decisive verdict wins
        (True / False), None if none of them decides.  z3's running time on the non-linear-looking integer queries of the decompositions varies by
        more than an order of magnitude from one process to the next; racing a few seeds makes the verdict, and the wall time, reproducible."""
        import os
        import select
        import signal
        kids = {}
        t0 = time.time()
        for sd in seeds:
            r_fd, w_fd = os.pipe()
            pid = os.fork()
            if pid == 0:
                try:
                    os.close(r_fd)
                    try:
                        z3.set_param("smt.random_seed", sd)
                        self.solver.set("random_seed", sd)
                    except Exception:
                        pass
                    v = self.prove(cond, label, int(timeout_s * 1000))
                    os.write(w_fd, {True: b"T", False: b"F", None: b"U"}[v])
                finally:
                    os._exit(0)
            os.close(w_fd)
            kids[r_fd] = pid
        verdict = None
        live = dict(kids)
        while live and time.time() - t0 < timeout_s + 5 and verdict is None:
            rl, _, _ = select.select(list(live), [], [], 0.5)
            for fd in rl:
                out = os.read(fd, 1)
                if out in (b"T", b"F"):
                    verdict = (out == b"T")
                del live[fd]
        for fd, pid in kids.items():
            try:
                os.kill(pid, signal.SIGKILL)
            except ProcessLookupError:
                pass
            try:
                os.waitpid(pid, 0)
            except ChildProcessError:
                pass
            os.close(fd)
        self.queries += 1
        self.solver_time += time.time() - t0
        return verdict

    def evaluate_point(self, inputs):
        """all variables of the context at one input (var index -> value for the 'in' variables): products and truncation quotients are functions
        of earlier variables and are computed in creation order; returns {name: value}, or None when the context has a variable of another kind
        (a select, a division quotient, a havoc) or a side condition rules the point out"""
        quot = {}
        for (fk, bits), (r, q) in self.wraps.items():
            if len(q.t) == 1:
                quot[list(q.t)[0]] = (r, bits)
        val = {}
        for i in range(len(self.names)):
            k = self.kind.get(i)
            if k == "in":
                if i not in inputs:
                    return None
                val[i] = inputs[i]
            elif isinstance(k, tuple) and k[0] == "prod":
                val[i] = sum((c * val[v] for v, c in k[1].t.items()), k[1].c) * sum((c * val[v] for v, c in k[2].t.items()), k[2].c)
            elif isinstance(k, tuple) and k[0] == "ind":
                val[i] = int(sum((c * val[v] for v, c in k[1].t.items()), k[1].c) != 0)
            elif i in quot:
                r, bits = quot[i]
                a = r.c + sum(c * val[v] for v, c in r.t.items() if v != i)
                val[i] = a >> bits
            else:
                return None
            if not (self.vlo[i] <= val[i] <= self.vhi[i]):
                return None
        return {self.names[i]: v for i, v in val.items()}

    def point_search(self, mismatch, trials=6, per_query_ms=8000, seed=7):
        """Cheapest witness search after the solver gave up on an identity: every input word fixed (boundary patterns and random words) and every
        opaque word product a real product, so the recorded side conditions determine all quotients and carries and the query is an evaluation of the
        encoding at one input.  Returns the first environment with mismatch(env), else None.  (A routine that is wrong on a sizeable fraction of
        its inputs is found here in a second; the rare cases are left to wrap_search / concretised_search.)"""
        import random
        rnd = random.Random(seed)
        ins = [i for i, k in self.kind.items() if k == "in"]
        if not ins:
            return None
        base = list(self.solver.assertions())
        for i, k in self.kind.items():
            if isinstance(k, tuple) and k[0] == "prod":
                base.append(self.zv[i] == self.z(k[1]) * self.z(k[2]))
        pats = [0, 1, (1 << 64) - 1, 1 << 63, (1 << 63) - 1]
        direct = True
        for trial in range(trials * 8):
            if not direct and trial >= trials:
                break
            point = {}
            for i in ins:
                hi = self.vhi[i]
                v = rnd.choice(pats) if rnd.random() < 0.15 else rnd.getrandbits(rnd.choice((64, 64, 64, 62, 60, 56)))
                point[i] = v & hi if hi == (1 << hi.bit_length()) - 1 else min(v, hi)
            env = self.evaluate_point(point) if direct else None
            if env is not None:
                # the recorded side conditions (operand domains, range facts) must hold at the point: with every variable fixed this is an evaluation
                s = z3.Solver()
                s.set("timeout", per_query_ms)
                s.add(*base)
                for j, nm in enumerate(self.names):
                    s.add(self.zv[j] == env[nm])
                if s.check() != z3.sat:
                    continue
            if env is None and direct:
                # either a variable kind the evaluator does not know (then: the solver evaluates the encoding) or a point outside the domain
                direct = all(k == "in" or (isinstance(k, tuple) and k[0] in ("prod", "ind")) or k == "quot" for k in self.kind.values()) and \
                    len([1 for k in self.kind.values() if k == "quot"]) == len([1 for (r, q) in self.wraps.values() if len(q.t) == 1])
                if direct:
                    continue
            if env is None:
                s = z3.Solver()
                s.set("timeout", per_query_ms)
                s.add(*base)
                for i, v in point.items():
                    s.add(self.zv[i] == v)
                if s.check() != z3.sat:
                    continue
                m = s.model()
                env = {self.names[j]: m.eval(self.zv[j], model_completion=True).as_long() for j in range(len(self.names))}
            if env is not None:
                try:
                    if mismatch(env):
                        return env
                except Exception:
                    pass
        return None

    def wrap_search(self, mismatch, extra_forms=(), per_query_ms=2500, budget_s=150, realise=False):
        """Lost-carry search, used when the solver gives up on an identity.  For every truncation recorded by this context (and every extra form, e.g. a
        carry the assembly interpreter saw dropped): is there an input that makes its quotient non-zero (small satisfiability queries on a fresh
        incremental-core solver)?  `mismatch(env)` is evaluated at each model; the first environment (name -> value) for which it is true is
        returned, else None.  An input found this way is a concrete counterexample in its own right."""
        t0 = time.process_time()
        hit = self.point_search(mismatch)
        if hit is not None:
            return hit
        base = list(self.solver.assertions())
        if realise:
            # the opaque word products must really be products in the model (non-linear queries; the model is then a real input)
            for i, k in self.kind.items():
                if isinstance(k, tuple) and k[0] == "prod":
                    base.append(self.zv[i] == self.z(k[1]) * self.z(k[2]))
        cands = [q for (r, q) in self.wraps.values() if not q.is_const()] + [f for f in extra_forms if isinstance(f, LV) and not f.is_const()]
        for q in cands:
            for cond in ([self.z(q) >= 1] if q.lo >= 0 else [self.z(q) >= 1, self.z(q) <= -1]):
                if time.process_time() - t0 > budget_s:
                    return None
                s = z3.Solver() if realise else z3.SimpleSolver()      # linear case: the default tactic pipeline answers these small satisfiable queries poorly
                s.set("timeout", per_query_ms)
                s.add(*base)
                s.add(cond)
                if s.check() == z3.sat:
                    m = s.model()
                    env = {self.names[i]: m.eval(self.zv[i], model_completion=True).as_long() for i in range(len(self.names))}
                    try:
                        if mismatch(env):
                            return env
                    except Exception:
                        pass
        return None

    def concretised_search(self, mismatch, extra_forms=(), trials=40, per_query_ms=4000, budget_s=150, seed=1):
        """Real-input witness for a lost carry when the non-linear queries are too hard: fix every input word but one to a concrete value (boundary
        patterns and random words), so that each opaque word product becomes linear (or a univariate square) in the remaining word, and ask for an
        input that makes one truncation quotient / dropped carry non-zero.  Returns the first environment with mismatch(env), else None."""
        import random
        rnd = random.Random(seed)
        t0 = time.process_time()
        ins = [i for i, k in self.kind.items() if k == "in"]
        if not ins:
            return None
        base = list(self.solver.assertions())
        cands = [f for f in extra_forms if isinstance(f, LV) and not f.is_const()] + [q for (r, q) in self.wraps.values() if not q.is_const()]
        pats = [0, 1, (1 << 64) - 1, 1 << 63, (1 << 63) - 1, (1 << 64) - 2]
        for trial in range(trials):
            if time.process_time() - t0 > budget_s:
                return None
            free = ins[trial % len(ins)]
            fixed = {}
            for i in ins:
                if i != free:
                    hi = self.vhi[i]
                    v = rnd.choice(pats) if rnd.random() < 0.35 else rnd.getrandbits(64)
                    fixed[i] = v & hi if hi == (1 << hi.bit_length()) - 1 else min(v, hi)
            defs = [self.zv[i] == v for i, v in fixed.items()]
            for i, k in self.kind.items():
                if isinstance(k, tuple) and k[0] == "prod":
                    defs.append(self.zv[i] == self.z(k[1]) * self.z(k[2]))
            for q in cands[:24]:
                if time.process_time() - t0 > budget_s:
                    return None
                s = z3.Solver()
                s.set("timeout", per_query_ms)
                s.add(*base)
                s.add(*defs)
                s.add(self.z(q) >= 1)
                if s.check() == z3.sat:
                    m = s.model()
                    env = {self.names[j]: m.eval(self.zv[j], model_completion=True).as_long() for j in range(len(self.names))}
                    try:
                        if mismatch(env):
                            return env
                    except Exception:
                        pass
        return None

    def model_for(self, cond):
        s = self.solver
        s.push()
        try:
            s.add(cond)
            r = s.check()
            if r == z3.sat:
                m = s.model()
                return {self.names[i]: m.eval(self.zv[i], model_completion=True).as_long() for i in range(len(self.names))}
        finally:
            s.pop()
        return None

    def prove_zero(self, a, label="", timeout_ms=None, hard_s=None):
        if a.is_const():
            return a.c == 0
        if a.lo == 0 and a.hi == 0:
            return True
        if a.lo > 0 or a.hi < 0:
            return False
        if hard_s is not None:
            return self.prove_hard(self.z(a) == 0, label, hard_s)
        return self.prove(self.z(a) == 0, label, timeout_ms)

    def assume_zero(self, a, label):
        """record a proved fact form == 0 so later queries can use it cheaply"""
        self.solver.add(self.z(a) == 0)
        self.lemmas.append(label)

    def eq(self, a, b):
        return self.z(a) == self.z(b)

    def evaluate(self, a, env):
        """concrete value of a form under {var name: int}"""
        v = a.c
        for i, k in a.t.items():
            v += k * env[self.names[i]]
        return v
